//! C28 — type analysis identifies exactly the structurally equal types.
//!
//! Bounded exhaustive exploration: every world of a small type-definition grammar
//! (see `Band`) is rendered to WIT text, parsed by `wit_parser`, analysed by the real
//! `wit_bindgen_core::Types` (`analyze`, `collect_equal_types`, `get_representative_type`,
//! `get`) and compared with an independent oracle computed from the `Resolve`:
//!   * structural equality  = equality of a canonical signature string (aliases transparent,
//!     resources by identity);
//!   * content facts        = "some reachable node is a list/string, tuple, resource/handle,
//!     borrow handle, own handle";
//!   * usage facts          = reachability from import parameters / export parameters and all
//!     results / error positions of function results.
//! Violations are keyed by the minimal offending *shape*, not by world.

use serde_json::{json, Value};
use std::collections::{BTreeMap, BTreeSet, HashMap};
use wit_bindgen_core::wit_parser::*;
use wit_bindgen_core::{TypeInfo, Types};

// ------------------------------------------------------------------------------------------
// Grammar
// ------------------------------------------------------------------------------------------

#[derive(Clone, Copy, PartialEq, Eq, Debug)]
enum Fill {
    U32,
    Str,
    T(u8),
}

#[derive(Clone, Copy, PartialEq, Eq, Debug)]
enum Def {
    Rec(u8, Fill),
    Var(u8, Fill),
    Enum(u8),
    Flags(u8),
    Tup(u8, Fill),
    List(Fill),
    Opt(Fill),
    Res(u8, Fill),
    Resource,
    Own(u8),
    Borrow(u8),
    Alias(Fill),
    UseAs(u8),
}

#[derive(Clone, Copy, PartialEq, Eq, Debug)]
enum Pos {
    IP, // import f: func(x: T)
    IR, // import f: func() -> T
    EP, // export f: func(x: T)
    ER, // export f: func() -> T
    IE, // import f: func() -> result<u32, T>
    EE, // export f: func() -> result<u32, T>
}

impl Pos {
    fn import(self) -> bool {
        matches!(self, Pos::IP | Pos::IR | Pos::IE)
    }
    fn result_position(self) -> bool {
        !matches!(self, Pos::IP | Pos::EP)
    }
}

#[derive(Clone, Copy, PartialEq, Eq, Debug)]
struct Use {
    pos: Pos,
    ty: u8,
}

#[derive(Clone, Copy, PartialEq, Eq, Debug)]
enum Layout {
    /// one interface `i1` with all definitions and the import-direction functions, imported;
    /// export-direction functions at world level through a world-level `use`
    Same,
    /// one interface `i1` with all definitions and the export-direction functions, exported;
    /// import-direction functions at world level through a world-level `use`
    ExportIface,
    /// definitions `[0..s)` in `i1`, `[s..n)` in `i2` (which `use`s what it references);
    /// import-direction functions in `i2` (imported), export-direction functions in a third
    /// interface `ie` (exported) that `use`s the types
    Split(u8),
}

/// One band of the explored space: exactly `n` definitions with the given alphabets.
#[derive(Clone, Debug)]
struct Band {
    n: usize,
    prims: Vec<Fill>,
    rec_v: u8,
    var_v: u8,
    enum_v: u8,
    flags_v: u8,
    tup_v: u8,
    res_v: u8,
    handles: bool,
    use_as: bool,
    positions: Vec<Pos>,
    max_uses: usize,
    layouts: Vec<Layout>,
}

impl Band {
    fn describe(&self) -> Value {
        let rec = &["{a:X,b:u32}", "{b:u32,a:X}", "{a:X,c:u32}"][..self.rec_v as usize];
        let var = &["{a(X),b}", "{b,a(X)}", "{a(X),c}", "{a,b(X)}"][..self.var_v as usize];
        let en = &["{a,b}", "{b,a}", "{a,c}"][..self.enum_v as usize];
        let fl = &["{a,b}", "{b,a}", "{a,c}"][..self.flags_v as usize];
        let tup = &["tuple<X,u32>", "tuple<u32,X>"][..self.tup_v as usize];
        let res = &["result<X,u32>", "result<u32,X>", "result<_,X>"][..self.res_v as usize];
        json!({
            "definitions": self.n,
            "fill_alphabet": format!("{:?} + every earlier definition", self.prims),
            "record_shapes": rec,
            "variant_shapes": var,
            "enum_shapes": en,
            "flags_shapes": fl,
            "tuple_shapes": tup,
            "result_shapes": res,
            "other": format!("list<X>, option<X>, resource{}, type a = X{}",
                if self.handles { ", own<R>, borrow<R> (R any earlier resource or alias of one)" } else { "" },
                if self.use_as { ", use i1.{x as y} (split layouts)" } else { "" }),
            "use_positions": format!("{:?}", self.positions),
            "uses_per_world": format!("0..={}", self.max_uses),
            "layouts": format!("{:?}", self.layouts),
        })
    }
}

fn bands(thorough: bool) -> Vec<Band> {
    use Pos::*;
    let all_pos = vec![IP, IR, EP, ER, IE, EE];
    let full = |n: usize, max_uses: usize, layouts: Vec<Layout>| Band {
        n,
        prims: vec![Fill::U32, Fill::Str],
        rec_v: 3,
        var_v: 4,
        enum_v: 3,
        flags_v: 3,
        tup_v: 2,
        res_v: 3,
        handles: true,
        use_as: true,
        positions: all_pos.clone(),
        max_uses,
        layouts,
    };
    if !thorough {
        vec![
            full(1, 2, vec![Layout::Same, Layout::ExportIface]),
            full(2, 2, vec![Layout::Same, Layout::ExportIface, Layout::Split(1)]),
            Band {
                prims: vec![Fill::U32],
                var_v: 2,
                flags_v: 2,
                tup_v: 1,
                ..full(3, 1, vec![Layout::Same, Layout::Split(2)])
            },
        ]
    } else {
        vec![
            full(1, 2, vec![Layout::Same, Layout::ExportIface]),
            full(2, 2, vec![Layout::Same, Layout::ExportIface, Layout::Split(1)]),
            full(
                3,
                1,
                vec![
                    Layout::Same,
                    Layout::ExportIface,
                    Layout::Split(1),
                    Layout::Split(2),
                ],
            ),
            Band {
                prims: vec![Fill::U32],
                rec_v: 3,
                var_v: 2,
                enum_v: 2,
                flags_v: 2,
                tup_v: 1,
                res_v: 2,
                handles: true,
                use_as: true,
                positions: vec![IP, ER, IE, IR],
                max_uses: 1,
                n: 4,
                layouts: vec![Layout::Same, Layout::Split(3)],
            },
        ]
    }
}

fn tname(j: u8) -> String {
    format!("t{j}")
}

fn fill_s(f: Fill) -> String {
    match f {
        Fill::U32 => "u32".into(),
        Fill::Str => "string".into(),
        Fill::T(j) => tname(j),
    }
}

fn def_s(k: u8, d: Def) -> String {
    let n = tname(k);
    match d {
        Def::Rec(v, x) => {
            let x = fill_s(x);
            match v {
                0 => format!("record {n} {{ a: {x}, b: u32 }}"),
                1 => format!("record {n} {{ b: u32, a: {x} }}"),
                _ => format!("record {n} {{ a: {x}, c: u32 }}"),
            }
        }
        Def::Var(v, x) => {
            let x = fill_s(x);
            match v {
                0 => format!("variant {n} {{ a({x}), b }}"),
                1 => format!("variant {n} {{ b, a({x}) }}"),
                2 => format!("variant {n} {{ a({x}), c }}"),
                _ => format!("variant {n} {{ a, b({x}) }}"),
            }
        }
        Def::Enum(v) => format!("enum {n} {{ {} }}", ["a, b", "b, a", "a, c"][v as usize]),
        Def::Flags(v) => format!("flags {n} {{ {} }}", ["a, b", "b, a", "a, c"][v as usize]),
        Def::Tup(v, x) => {
            let x = fill_s(x);
            match v {
                0 => format!("type {n} = tuple<{x}, u32>;"),
                _ => format!("type {n} = tuple<u32, {x}>;"),
            }
        }
        Def::List(x) => format!("type {n} = list<{}>;", fill_s(x)),
        Def::Opt(x) => format!("type {n} = option<{}>;", fill_s(x)),
        Def::Res(v, x) => {
            let x = fill_s(x);
            match v {
                0 => format!("type {n} = result<{x}, u32>;"),
                1 => format!("type {n} = result<u32, {x}>;"),
                _ => format!("type {n} = result<_, {x}>;"),
            }
        }
        Def::Resource => format!("resource {n};"),
        Def::Own(j) => format!("type {n} = own<{}>;", tname(j)),
        Def::Borrow(j) => format!("type {n} = borrow<{}>;", tname(j)),
        Def::Alias(x) => format!("type {n} = {};", fill_s(x)),
        Def::UseAs(j) => format!("use i1.{{{} as {n}}};", tname(j)),
    }
}

fn def_code(d: Def) -> String {
    let f = |x: Fill| fill_s(x);
    match d {
        Def::Rec(v, x) => format!("rec{v}({})", f(x)),
        Def::Var(v, x) => format!("var{v}({})", f(x)),
        Def::Enum(v) => format!("enum{v}"),
        Def::Flags(v) => format!("flags{v}"),
        Def::Tup(v, x) => format!("tup{v}({})", f(x)),
        Def::List(x) => format!("list({})", f(x)),
        Def::Opt(x) => format!("opt({})", f(x)),
        Def::Res(v, x) => format!("res{v}({})", f(x)),
        Def::Resource => "resource".into(),
        Def::Own(j) => format!("own(t{j})"),
        Def::Borrow(j) => format!("borrow(t{j})"),
        Def::Alias(x) => format!("alias({})", f(x)),
        Def::UseAs(j) => format!("useas(t{j})"),
    }
}

/// Index of the earlier definition a definition refers to by name (not counting `UseAs`).
fn def_ref(d: Def) -> Option<u8> {
    match d {
        Def::Rec(_, Fill::T(j))
        | Def::Var(_, Fill::T(j))
        | Def::Tup(_, Fill::T(j))
        | Def::List(Fill::T(j))
        | Def::Opt(Fill::T(j))
        | Def::Res(_, Fill::T(j))
        | Def::Alias(Fill::T(j))
        | Def::Own(j)
        | Def::Borrow(j) => Some(j),
        _ => None,
    }
}

fn resourceish(defs: &[Def], j: u8) -> bool {
    match defs[j as usize] {
        Def::Resource => true,
        Def::Alias(Fill::T(i)) | Def::UseAs(i) => resourceish(defs, i),
        _ => false,
    }
}

/// Space filter only (borrows are not valid in results): does `t<j>` contain a borrow handle?
fn contains_borrow(defs: &[Def], j: u8) -> bool {
    match defs[j as usize] {
        Def::Borrow(_) => true,
        Def::UseAs(i) => contains_borrow(defs, i),
        d => match def_ref(d) {
            Some(i) if !matches!(d, Def::Own(_)) => contains_borrow(defs, i),
            _ => false,
        },
    }
}

fn slot_alphabet(b: &Band, layout: Layout, k: usize, prev: &[Def]) -> Vec<Def> {
    let mut fills = b.prims.clone();
    for j in 0..k {
        fills.push(Fill::T(j as u8));
    }
    let mut out = Vec::new();
    for v in 0..b.rec_v {
        for &x in &fills {
            out.push(Def::Rec(v, x));
        }
    }
    for v in 0..b.var_v {
        for &x in &fills {
            out.push(Def::Var(v, x));
        }
    }
    for v in 0..b.enum_v {
        out.push(Def::Enum(v));
    }
    for v in 0..b.flags_v {
        out.push(Def::Flags(v));
    }
    for v in 0..b.tup_v {
        for &x in &fills {
            out.push(Def::Tup(v, x));
        }
    }
    for &x in &fills {
        out.push(Def::List(x));
        out.push(Def::Opt(x));
    }
    for v in 0..b.res_v {
        for &x in &fills {
            out.push(Def::Res(v, x));
        }
    }
    out.push(Def::Resource);
    if b.handles {
        for j in 0..k {
            if resourceish(prev, j as u8) {
                out.push(Def::Own(j as u8));
                out.push(Def::Borrow(j as u8));
            }
        }
    }
    for &x in &fills {
        out.push(Def::Alias(x));
    }
    if b.use_as {
        if let Layout::Split(s) = layout {
            if k >= s as usize {
                for j in 0..s {
                    out.push(Def::UseAs(j));
                }
            }
        }
    }
    out
}

fn use_sets(b: &Band, defs: &[Def]) -> Vec<Vec<Use>> {
    let mut singles = Vec::new();
    for &pos in &b.positions {
        for j in 0..defs.len() as u8 {
            if pos.result_position() && contains_borrow(defs, j) {
                continue;
            }
            singles.push(Use { pos, ty: j });
        }
    }
    let mut out = vec![vec![]];
    if b.max_uses >= 1 {
        for &u in &singles {
            out.push(vec![u]);
        }
    }
    if b.max_uses >= 2 {
        for i in 0..singles.len() {
            for j in i + 1..singles.len() {
                out.push(vec![singles[i], singles[j]]);
            }
        }
    }
    out
}

fn func_sig(u: Use) -> String {
    let t = tname(u.ty);
    match u.pos {
        Pos::IP | Pos::EP => format!("func(x: {t})"),
        Pos::IR | Pos::ER => format!("func() -> {t}"),
        Pos::IE | Pos::EE => format!("func() -> result<u32, {t}>"),
    }
}

fn use_list(iface: &str, names: &BTreeSet<u8>) -> String {
    if names.is_empty() {
        return String::new();
    }
    let v: Vec<String> = names.iter().map(|j| tname(*j)).collect();
    format!("  use {iface}.{{{}}};\n", v.join(", "))
}

fn render(defs: &[Def], layout: Layout, uses: &[Use]) -> String {
    let mut s = String::from("package t:c28;\n");
    let imp: Vec<(usize, Use)> = uses.iter().copied().enumerate().filter(|(_, u)| u.pos.import()).collect();
    let exp: Vec<(usize, Use)> = uses.iter().copied().enumerate().filter(|(_, u)| !u.pos.import()).collect();
    match layout {
        Layout::Same | Layout::ExportIface => {
            let (inside, outside, dir_in, dir_out) = if layout == Layout::Same {
                (&imp, &exp, "import", "export")
            } else {
                (&exp, &imp, "export", "import")
            };
            s.push_str("interface i1 {\n");
            for (k, d) in defs.iter().enumerate() {
                s.push_str(&format!("  {}\n", def_s(k as u8, *d)));
            }
            for (i, u) in inside {
                s.push_str(&format!("  f{i}: {};\n", func_sig(*u)));
            }
            s.push_str("}\nworld w {\n");
            s.push_str(&format!("  {dir_in} i1;\n"));
            let names: BTreeSet<u8> = outside.iter().map(|(_, u)| u.ty).collect();
            s.push_str(&use_list("i1", &names));
            for (i, u) in outside {
                s.push_str(&format!("  {dir_out} f{i}: {};\n", func_sig(*u)));
            }
            s.push_str("}\n");
        }
        Layout::Split(sp) => {
            let sp = sp as usize;
            s.push_str("interface i1 {\n");
            for (k, d) in defs.iter().enumerate().take(sp) {
                s.push_str(&format!("  {}\n", def_s(k as u8, *d)));
            }
            s.push_str("}\ninterface i2 {\n");
            let mut names = BTreeSet::new();
            for d in &defs[sp..] {
                if let Some(j) = def_ref(*d) {
                    if (j as usize) < sp {
                        names.insert(j);
                    }
                }
            }
            for (_, u) in &imp {
                if (u.ty as usize) < sp {
                    names.insert(u.ty);
                }
            }
            s.push_str(&use_list("i1", &names));
            for (k, d) in defs.iter().enumerate().skip(sp) {
                s.push_str(&format!("  {}\n", def_s(k as u8, *d)));
            }
            for (i, u) in &imp {
                s.push_str(&format!("  f{i}: {};\n", func_sig(*u)));
            }
            s.push_str("}\n");
            if !exp.is_empty() {
                s.push_str("interface ie {\n");
                let n1: BTreeSet<u8> = exp.iter().map(|(_, u)| u.ty).filter(|j| (*j as usize) < sp).collect();
                let n2: BTreeSet<u8> = exp.iter().map(|(_, u)| u.ty).filter(|j| (*j as usize) >= sp).collect();
                s.push_str(&use_list("i1", &n1));
                s.push_str(&use_list("i2", &n2));
                for (i, u) in &exp {
                    s.push_str(&format!("  f{i}: {};\n", func_sig(*u)));
                }
                s.push_str("}\n");
            }
            s.push_str("world w {\n  import i2;\n");
            if !exp.is_empty() {
                s.push_str("  export ie;\n");
            }
            s.push_str("}\n");
        }
    }
    s
}

fn world_code(defs: &[Def], layout: Layout, uses: &[Use]) -> String {
    let d: Vec<String> = defs.iter().map(|d| def_code(*d)).collect();
    let u: Vec<String> = uses.iter().map(|u| format!("{:?}(t{})", u.pos, u.ty)).collect();
    format!("{:?}|{}|{}", layout, d.join(";"), u.join(","))
}

// ------------------------------------------------------------------------------------------
// Oracle (independent of crates/core/src/types.rs)
// ------------------------------------------------------------------------------------------

const FACTS: [&str; 8] = [
    "borrowed",
    "owned",
    "error",
    "has_list",
    "has_tuple",
    "has_resource",
    "has_borrow_handle",
    "has_own_handle",
];
type Facts = [bool; 8];

fn facts_of(i: TypeInfo) -> Facts {
    [
        i.borrowed,
        i.owned,
        i.error,
        i.has_list,
        i.has_tuple,
        i.has_resource,
        i.has_borrow_handle,
        i.has_own_handle,
    ]
}

fn prim_name(t: &Type) -> &'static str {
    match t {
        Type::Bool => "bool",
        Type::U8 => "u8",
        Type::U16 => "u16",
        Type::U32 => "u32",
        Type::U64 => "u64",
        Type::S8 => "s8",
        Type::S16 => "s16",
        Type::S32 => "s32",
        Type::S64 => "s64",
        Type::F32 => "f32",
        Type::F64 => "f64",
        Type::Char => "char",
        Type::String => "string",
        Type::ErrorContext => "error-context",
        Type::Id(_) => unreachable!(),
    }
}

fn kind_name(r: &Resolve, id: TypeId) -> &'static str {
    match &r.types[id].kind {
        TypeDefKind::Record(_) => "record",
        TypeDefKind::Variant(_) => "variant",
        TypeDefKind::Enum(_) => "enum",
        TypeDefKind::Flags(_) => "flags",
        TypeDefKind::Tuple(_) => "tuple",
        TypeDefKind::List(_) => "list",
        TypeDefKind::Option(_) => "option",
        TypeDefKind::Result(_) => "result",
        TypeDefKind::Resource => "resource",
        TypeDefKind::Handle(Handle::Own(_)) => "own",
        TypeDefKind::Handle(Handle::Borrow(_)) => "borrow",
        TypeDefKind::Type(_) => "alias",
        _ => vcommon::machinery("type kind outside the explored grammar"),
    }
}

/// The types a definition is directly built from (alias target and handle target included).
fn children(r: &Resolve, id: TypeId) -> Vec<Type> {
    match &r.types[id].kind {
        TypeDefKind::Record(x) => x.fields.iter().map(|f| f.ty).collect(),
        TypeDefKind::Variant(x) => x.cases.iter().filter_map(|c| c.ty).collect(),
        TypeDefKind::Enum(_) | TypeDefKind::Flags(_) | TypeDefKind::Resource => vec![],
        TypeDefKind::Tuple(t) => t.types.clone(),
        TypeDefKind::List(t) | TypeDefKind::Option(t) | TypeDefKind::Type(t) => vec![*t],
        TypeDefKind::Result(x) => x.ok.iter().chain(x.err.iter()).copied().collect(),
        TypeDefKind::Handle(Handle::Own(t)) | TypeDefKind::Handle(Handle::Borrow(t)) => {
            vec![Type::Id(*t)]
        }
        _ => vcommon::machinery("type kind outside the explored grammar"),
    }
}

/// Follow `type a = b` / `use` links; returns the final type and the ids walked through.
fn strip(r: &Resolve, t: Type) -> (Type, Vec<TypeId>) {
    let mut cur = t;
    let mut chain = Vec::new();
    loop {
        match cur {
            Type::Id(id) => match &r.types[id].kind {
                TypeDefKind::Type(inner) => {
                    chain.push(id);
                    cur = *inner;
                }
                _ => return (cur, chain),
            },
            _ => return (cur, chain),
        }
    }
}

/// Canonical structural signature: equal strings <=> structurally equal (aliases transparent,
/// resources by identity).
fn sig(r: &Resolve, t: &Type) -> String {
    let (t, _) = strip(r, *t);
    let id = match t {
        Type::Id(id) => id,
        p => return prim_name(&p).to_string(),
    };
    let opt = |t: &Option<Type>| match t {
        Some(t) => sig(r, t),
        None => "_".to_string(),
    };
    match &r.types[id].kind {
        TypeDefKind::Record(x) => {
            let f: Vec<String> = x.fields.iter().map(|f| format!("{}:{}", f.name, sig(r, &f.ty))).collect();
            format!("record{{{}}}", f.join(","))
        }
        TypeDefKind::Variant(x) => {
            let f: Vec<String> = x
                .cases
                .iter()
                .map(|c| match &c.ty {
                    Some(t) => format!("{}({})", c.name, sig(r, t)),
                    None => c.name.clone(),
                })
                .collect();
            format!("variant{{{}}}", f.join(","))
        }
        TypeDefKind::Enum(x) => {
            let f: Vec<&str> = x.cases.iter().map(|c| c.name.as_str()).collect();
            format!("enum{{{}}}", f.join(","))
        }
        TypeDefKind::Flags(x) => {
            let f: Vec<&str> = x.flags.iter().map(|c| c.name.as_str()).collect();
            format!("flags{{{}}}", f.join(","))
        }
        TypeDefKind::Tuple(x) => {
            let f: Vec<String> = x.types.iter().map(|t| sig(r, t)).collect();
            format!("tuple<{}>", f.join(","))
        }
        TypeDefKind::List(t) => format!("list<{}>", sig(r, t)),
        TypeDefKind::Option(t) => format!("option<{}>", sig(r, t)),
        TypeDefKind::Result(x) => format!("result<{},{}>", opt(&x.ok), opt(&x.err)),
        TypeDefKind::Resource => format!("resource#{}", id.index()),
        TypeDefKind::Handle(Handle::Own(t)) => format!("own<{}>", sig(r, &Type::Id(*t))),
        TypeDefKind::Handle(Handle::Borrow(t)) => format!("borrow<{}>", sig(r, &Type::Id(*t))),
        _ => vcommon::machinery("type kind outside the explored grammar"),
    }
}

/// Short reason why two types are *not* structurally equal (innermost difference).
fn diff(r: &Resolve, a: &Type, b: &Type) -> String {
    let (a, _) = strip(r, *a);
    let (b, _) = strip(r, *b);
    let (ia, ib) = match (a, b) {
        (Type::Id(x), Type::Id(y)) => (x, y),
        (Type::Id(x), _) | (_, Type::Id(x)) => return format!("primitive-vs-{}", kind_name(r, x)),
        (x, y) => {
            return if x == y { "none".into() } else { "primitive-differs".into() };
        }
    };
    if ia == ib {
        return "none".into();
    }
    let names_reason = |kind: &str, what: &str, na: Vec<&str>, nb: Vec<&str>| -> Option<String> {
        if na.len() != nb.len() {
            return Some(format!("{kind}:{what}-count"));
        }
        if na != nb {
            let mut sa = na.clone();
            let mut sb = nb.clone();
            sa.sort();
            sb.sort();
            return Some(if sa == sb {
                format!("{kind}:{what}-order")
            } else {
                format!("{kind}:{what}-names")
            });
        }
        None
    };
    let first_diff = |pairs: Vec<(Type, Type)>| -> String {
        for (x, y) in pairs {
            let d = diff(r, &x, &y);
            if d != "none" {
                return d;
            }
        }
        "none".into()
    };
    match (&r.types[ia].kind, &r.types[ib].kind) {
        (TypeDefKind::Record(x), TypeDefKind::Record(y)) => {
            let na = x.fields.iter().map(|f| f.name.as_str()).collect();
            let nb = y.fields.iter().map(|f| f.name.as_str()).collect();
            if let Some(s) = names_reason("record", "field", na, nb) {
                return s;
            }
            first_diff(x.fields.iter().zip(&y.fields).map(|(p, q)| (p.ty, q.ty)).collect())
        }
        (TypeDefKind::Variant(x), TypeDefKind::Variant(y)) => {
            let na = x.cases.iter().map(|f| f.name.as_str()).collect();
            let nb = y.cases.iter().map(|f| f.name.as_str()).collect();
            if let Some(s) = names_reason("variant", "case", na, nb) {
                return s;
            }
            let mut pairs = Vec::new();
            for (p, q) in x.cases.iter().zip(&y.cases) {
                match (p.ty, q.ty) {
                    (Some(p), Some(q)) => pairs.push((p, q)),
                    (None, None) => {}
                    _ => return "variant:payload-presence".into(),
                }
            }
            first_diff(pairs)
        }
        (TypeDefKind::Enum(x), TypeDefKind::Enum(y)) => {
            let na = x.cases.iter().map(|f| f.name.as_str()).collect();
            let nb = y.cases.iter().map(|f| f.name.as_str()).collect();
            names_reason("enum", "case", na, nb).unwrap_or("none".into())
        }
        (TypeDefKind::Flags(x), TypeDefKind::Flags(y)) => {
            let na = x.flags.iter().map(|f| f.name.as_str()).collect();
            let nb = y.flags.iter().map(|f| f.name.as_str()).collect();
            names_reason("flags", "flag", na, nb).unwrap_or("none".into())
        }
        (TypeDefKind::Tuple(x), TypeDefKind::Tuple(y)) => {
            if x.types.len() != y.types.len() {
                return "tuple:arity".into();
            }
            first_diff(x.types.iter().copied().zip(y.types.iter().copied()).collect())
        }
        (TypeDefKind::List(x), TypeDefKind::List(y)) | (TypeDefKind::Option(x), TypeDefKind::Option(y)) => {
            diff(r, x, y)
        }
        (TypeDefKind::Result(x), TypeDefKind::Result(y)) => {
            let mut pairs = Vec::new();
            for (p, q, w) in [(x.ok, y.ok, "ok"), (x.err, y.err, "err")] {
                match (p, q) {
                    (Some(p), Some(q)) => pairs.push((p, q)),
                    (None, None) => {}
                    _ => return format!("result:{w}-presence"),
                }
            }
            first_diff(pairs)
        }
        (TypeDefKind::Handle(Handle::Own(x)), TypeDefKind::Handle(Handle::Own(y)))
        | (TypeDefKind::Handle(Handle::Borrow(x)), TypeDefKind::Handle(Handle::Borrow(y))) => {
            diff(r, &Type::Id(*x), &Type::Id(*y))
        }
        (TypeDefKind::Handle(_), TypeDefKind::Handle(_)) => "handle:own-vs-borrow".into(),
        (TypeDefKind::Resource, TypeDefKind::Resource) => "resource:identity".into(),
        _ => {
            let mut k = [kind_name(r, ia), kind_name(r, ib)];
            k.sort();
            format!("kind:{}-vs-{}", k[0], k[1])
        }
    }
}

/// All type ids reachable from `roots` (roots included), with the kind of the node through
/// which each was first reached ("direct" for roots).
fn reach(r: &Resolve, roots: &[Type]) -> BTreeMap<TypeId, &'static str> {
    let mut seen: BTreeMap<TypeId, &'static str> = BTreeMap::new();
    let mut queue = std::collections::VecDeque::new();
    for t in roots {
        if let Type::Id(id) = t {
            if !seen.contains_key(id) {
                seen.insert(*id, "direct");
                queue.push_back(*id);
            }
        }
    }
    while let Some(id) = queue.pop_front() {
        for c in children(r, id) {
            if let Type::Id(c) = c {
                if !seen.contains_key(&c) {
                    seen.insert(c, kind_name(r, id));
                    queue.push_back(c);
                }
            }
        }
    }
    seen
}

fn content_facts(r: &Resolve, id: TypeId) -> [bool; 5] {
    let mut f = [false; 5];
    for (n, _) in reach(r, &[Type::Id(id)]) {
        match &r.types[n].kind {
            TypeDefKind::List(_) => f[0] = true,
            TypeDefKind::Tuple(_) => f[1] = true,
            TypeDefKind::Resource => f[2] = true,
            TypeDefKind::Handle(Handle::Borrow(_)) => {
                f[2] = true;
                f[3] = true;
            }
            TypeDefKind::Handle(Handle::Own(_)) => {
                f[2] = true;
                f[4] = true;
            }
            _ => {}
        }
        if children(r, n).iter().any(|c| matches!(c, Type::String)) {
            f[0] = true;
        }
    }
    f
}

struct FuncUse<'a> {
    import: bool,
    func: &'a Function,
}

fn world_funcs<'a>(r: &'a Resolve, w: WorldId) -> Vec<FuncUse<'a>> {
    let mut out = Vec::new();
    let world = &r.worlds[w];
    for (import, items) in [(true, &world.imports), (false, &world.exports)] {
        for (_, item) in items.iter() {
            match item {
                WorldItem::Function(f) => out.push(FuncUse { import, func: f }),
                WorldItem::Interface { id, .. } => {
                    for (_, f) in r.interfaces[*id].functions.iter() {
                        out.push(FuncUse { import, func: f });
                    }
                }
                WorldItem::Type { .. } => {}
            }
        }
    }
    out
}

fn live_types(r: &Resolve, w: WorldId) -> BTreeSet<TypeId> {
    let mut roots = Vec::new();
    let world = &r.worlds[w];
    for (_, item) in world.imports.iter().chain(world.exports.iter()) {
        match item {
            WorldItem::Function(f) => {
                roots.extend(f.params.iter().map(|p| p.ty));
                roots.extend(f.result.iter().copied());
            }
            WorldItem::Interface { id, .. } => {
                let i = &r.interfaces[*id];
                roots.extend(i.types.values().map(|t| Type::Id(*t)));
                for (_, f) in i.functions.iter() {
                    roots.extend(f.params.iter().map(|p| p.ty));
                    roots.extend(f.result.iter().copied());
                }
            }
            WorldItem::Type { id, .. } => roots.push(Type::Id(*id)),
        }
    }
    reach(r, &roots).into_keys().collect()
}

/// Lower / upper bounds of the usage facts of every type before any merging, each with the
/// context through which the fact arises (for violation keys).
struct Usage {
    /// facts that the uses certainly imply (named types only for borrowed/owned)
    lower: HashMap<TypeId, [Option<String>; 3]>,
    /// facts that some use could justify
    upper: HashMap<TypeId, [bool; 3]>,
    err_literal: bool,
    err_named: bool,
    err_alias: bool,
}

fn usage(r: &Resolve, w: WorldId) -> Usage {
    let mut u = Usage {
        lower: HashMap::new(),
        upper: HashMap::new(),
        err_literal: false,
        err_named: false,
        err_alias: false,
    };
    let mark = |u: &mut Usage, id: TypeId, fact: usize, ctx: &str, lower: bool| {
        u.upper.entry(id).or_insert([false; 3])[fact] = true;
        if lower {
            let e = u.lower.entry(id).or_insert([None, None, None]);
            if e[fact].is_none() {
                e[fact] = Some(ctx.to_string());
            }
        }
    };
    for fu in world_funcs(r, w) {
        let params: Vec<Type> = fu.func.params.iter().map(|p| p.ty).collect();
        let results: Vec<Type> = fu.func.result.iter().copied().collect();
        // parameters: import => "used in an import parameter"; export => "used in an export"
        for (id, via) in reach(r, &params) {
            let named = r.types[id].name.is_some();
            let ctx = if via == "direct" { "direct".to_string() } else { format!("via-{via}") };
            mark(&mut u, id, if fu.import { 0 } else { 1 }, &ctx, named);
        }
        // results of imports and exports: "used in ... a result"
        for (id, via) in reach(r, &results) {
            let named = r.types[id].name.is_some();
            let ctx = if via == "direct" { "direct".to_string() } else { format!("via-{via}") };
            mark(&mut u, id, 1, &ctx, named);
        }
        // error position of the function result
        if let Some(res) = fu.func.result {
            let (fin, hops) = strip(r, res);
            if let Type::Id(rid) = fin {
                if let TypeDefKind::Result(Result_ { err: Some(e), .. }) = &r.types[rid].kind {
                    let how = if !hops.is_empty() {
                        u.err_alias = true;
                        "result-alias"
                    } else if r.types[rid].name.is_some() {
                        u.err_named = true;
                        "result-named"
                    } else {
                        u.err_literal = true;
                        "result-literal"
                    };
                    for (id, _) in reach(r, &[*e]) {
                        mark(&mut u, id, 2, "", false);
                    }
                    if let Type::Id(eid) = e {
                        // the definition at the end of the alias chain of the error type
                        let mut last = *eid;
                        let mut err_hops = 0;
                        while let TypeDefKind::Type(Type::Id(next)) = &r.types[last].kind {
                            last = *next;
                            err_hops += 1;
                        }
                        let ctx = if how == "result-alias" {
                            how
                        } else if err_hops > 0 {
                            "err-alias"
                        } else {
                            how
                        };
                        // demanded only of named, non-alias definitions (an alias of a primitive
                        // carrying `error` has no observable meaning)
                        let named = r.types[last].name.is_some()
                            && !matches!(r.types[last].kind, TypeDefKind::Type(_));
                        mark(&mut u, last, 2, ctx, named);
                    }
                }
            }
        }
    }
    u
}

// ------------------------------------------------------------------------------------------
// Evaluation of one world
// ------------------------------------------------------------------------------------------

#[derive(Default)]
struct Eval {
    rejected: Option<String>,
    violations: Vec<(String, String)>,
    genuine_merge: bool,
    near_equal_pairs: u32,
    err_literal: bool,
    err_named: bool,
    err_alias: bool,
    outcome: u64,
    n_types: usize,
    n_live: usize,
    n_classes: usize,
    max_class: usize,
}

fn default_closure(r: &Resolve, id: TypeId) -> bool {
    // The split documented in crates/rust/src/lib.rs and crates/csharp: typedef-like kinds may
    // alias another type, nominal kinds cannot.
    !matches!(
        r.types[id].kind,
        TypeDefKind::Record(_)
            | TypeDefKind::Variant(_)
            | TypeDefKind::Enum(_)
            | TypeDefKind::Flags(_)
            | TypeDefKind::Resource
    )
}

fn tdesc(r: &Resolve, id: TypeId) -> String {
    let owner = match r.types[id].owner {
        TypeOwner::Interface(i) => r.interfaces[i].name.clone().unwrap_or_default(),
        TypeOwner::World(w) => format!("world {}", r.worlds[w].name),
        TypeOwner::None => "-".into(),
    };
    format!(
        "#{} {}/{} [{}] = {}",
        id.index(),
        owner,
        r.types[id].name.clone().unwrap_or("<anon>".into()),
        kind_name(r, id),
        sig(r, &Type::Id(id))
    )
}

fn eval_world(wit: &str) -> Eval {
    let mut ev = Eval::default();
    let mut resolve = Resolve::default();
    let pkg = match resolve.push_str("c28.wit", wit) {
        Ok(p) => p,
        Err(e) => {
            ev.rejected = Some(format!("{e:#}"));
            return ev;
        }
    };
    let world = match resolve.select_world(&[pkg], None) {
        Ok(w) => w,
        Err(e) => {
            ev.rejected = Some(format!("{e:#}"));
            return ev;
        }
    };
    let r = &resolve;
    let all: Vec<TypeId> = r.types.iter().map(|(id, _)| id).collect();
    let live: Vec<TypeId> = live_types(r, world).into_iter().collect();
    ev.n_types = all.len();
    ev.n_live = live.len();

    // ---- oracle ----
    let sigs: HashMap<TypeId, String> = all.iter().map(|id| (*id, sig(r, &Type::Id(*id)))).collect();
    let content: HashMap<TypeId, [bool; 5]> = all.iter().map(|id| (*id, content_facts(r, *id))).collect();
    let us = usage(r, world);
    ev.err_literal = us.err_literal;
    ev.err_named = us.err_named;
    ev.err_alias = us.err_alias;
    let lower0 = |id: TypeId, f: usize| us.lower.get(&id).map(|l| l[f].is_some()).unwrap_or(false);
    let upper0 = |id: TypeId, f: usize| us.upper.get(&id).map(|l| l[f]).unwrap_or(false);
    let mut classes: BTreeMap<&str, Vec<TypeId>> = BTreeMap::new();
    for id in &live {
        classes.entry(sigs[id].as_str()).or_default().push(*id);
    }
    ev.n_classes = classes.len();
    ev.max_class = classes.values().map(|m| m.iter().filter(|x| !matches!(r.types[**x].kind, TypeDefKind::Type(_))).count()).max().unwrap_or(0);
    let is_alias = |id: TypeId| matches!(r.types[id].kind, TypeDefKind::Type(_));
    for members in classes.values() {
        if members.iter().filter(|m| !is_alias(**m)).count() >= 2 {
            ev.genuine_merge = true;
        }
    }
    for (i, a) in live.iter().enumerate() {
        for b in &live[i + 1..] {
            if !is_alias(*a) && !is_alias(*b) && sigs[a] != sigs[b] && kind_name(r, *a) == kind_name(r, *b) {
                ev.near_equal_pairs += 1;
            }
        }
    }

    let v = &mut ev.violations;

    // ---- phase 0: analyze() only ----
    let mut types = Types::default();
    types.analyze(r);
    let actual0: HashMap<TypeId, Facts> = all.iter().map(|id| (*id, facts_of(types.get(*id)))).collect();
    let mut bad = [false; 8]; // facts already reported for this world (later phases skip them)
    for id in &all {
        let act = actual0[id];
        // content facts: exact, reported where the inconsistency is introduced
        for f in 0..5 {
            let exp = content[id][f];
            if act[3 + f] != exp {
                bad[3 + f] = true;
                let kids_ok = children(r, *id).iter().all(|c| match c {
                    Type::Id(c) => actual0[c][3 + f] == content[c][f],
                    _ => true,
                });
                if kids_ok {
                    let key = format!(
                        "content-fact-{}:{}:{}",
                        if exp { "missing" } else { "spurious" },
                        FACTS[3 + f],
                        kind_name(r, *id)
                    );
                    v.push((key, format!("{} expected {}={exp} after analyze()", tdesc(r, *id), FACTS[3 + f])));
                }
            }
        }
        for f in 0..3 {
            if lower0(*id, f) && !act[f] {
                bad[f] = true;
                let ctx = us.lower[id][f].clone().unwrap();
                let key = if f == 2 {
                    format!("error-fact-missing:{ctx}")
                } else {
                    format!("usage-fact-missing:{}:{ctx}", FACTS[f])
                };
                v.push((key, format!("{} is used so that `{}` must hold, analyze() left it false", tdesc(r, *id), FACTS[f])));
            }
            if act[f] && !upper0(*id, f) {
                bad[f] = true;
                let key = format!("usage-fact-spurious:{}:{}", FACTS[f], kind_name(r, *id));
                v.push((key, format!("{} has `{}` after analyze() but no use justifies it", tdesc(r, *id), FACTS[f])));
            }
        }
    }

    // ---- phase 1: collect_equal_types with "anything may alias anything" ----
    types.collect_equal_types(r, world, &|_| true);
    let rep: HashMap<TypeId, TypeId> = live.iter().map(|id| (*id, types.get_representative_type(*id))).collect();
    let actual1: HashMap<TypeId, Facts> = all.iter().map(|id| (*id, facts_of(types.get(*id)))).collect();
    let before = v.len();
    let impl_same = |a: TypeId, b: TypeId| rep[&a] == rep[&b];
    let mut fallback: Option<(String, String)> = None;
    for (i, a) in live.iter().enumerate() {
        for b in &live[i + 1..] {
            let o = sigs[a] == sigs[b];
            let m = impl_same(*a, *b);
            if m && !o {
                let key = format!("merged-unequal:{}", diff(r, &Type::Id(*a), &Type::Id(*b)));
                v.push((key, format!("treated as the same type but structurally different: {}  <>  {}", tdesc(r, *a), tdesc(r, *b))));
            } else if !m && o {
                let mut k = [kind_name(r, *a), kind_name(r, *b)];
                k.sort();
                let key = format!("split-equal:{}~{}", k[0], k[1]);
                let what = format!("structurally equal but not treated as the same type: {}  ==  {}", tdesc(r, *a), tdesc(r, *b));
                // minimal pair: the difference is not explained by a smaller split pair
                let same_or_prim = |x: &Type, y: &Type| match (x, y) {
                    (Type::Id(x), Type::Id(y)) => x == y || impl_same(*x, *y),
                    _ => true,
                };
                let minimal = match (&r.types[*a].kind, &r.types[*b].kind) {
                    (TypeDefKind::Type(t), _) => same_or_prim(t, &Type::Id(*b)),
                    (_, TypeDefKind::Type(t)) => same_or_prim(&Type::Id(*a), t),
                    _ => {
                        let (ca, cb) = (children(r, *a), children(r, *b));
                        ca.len() == cb.len() && ca.iter().zip(&cb).all(|(x, y)| same_or_prim(x, y))
                    }
                };
                if minimal {
                    v.push((key, what));
                } else if fallback.is_none() {
                    fallback = Some((key, what));
                }
            }
        }
    }
    if v.len() == before {
        if let Some(f) = fallback {
            v.push(f);
        }
    }
    let partition_ok = v.len() == before;
    if partition_ok {
        let bad0 = bad;
        for members in classes.values() {
            // (3) all members of a class carry the same facts
            let first = actual1[&members[0]];
            for m in members {
                for f in 0..8 {
                    if actual1[m][f] != first[f] && !bad0[f] {
                        bad[f] = true;
                        let key = format!("class-facts-differ:{}", FACTS[f]);
                        v.push((key, format!("equal types disagree on `{}` after collect_equal_types: {} vs {}", FACTS[f], tdesc(r, members[0]), tdesc(r, *m))));
                    }
                }
            }
            for f in 0..3 {
                if bad0[f] {
                    continue;
                }
                let lo = members.iter().any(|m| lower0(*m, f));
                let up = members.iter().any(|m| upper0(*m, f));
                for m in members {
                    if (lo && !actual1[m][f]) || (actual1[m][f] && !up) {
                        bad[f] = true;
                    }
                    if lo && !actual1[m][f] {
                        v.push((format!("union-fact-missing:{}", FACTS[f]), format!("{} lacks `{}` although an equal type has it by use", tdesc(r, *m), FACTS[f])));
                    }
                    if actual1[m][f] && !up {
                        v.push((format!("union-fact-spurious:{}", FACTS[f]), format!("{} has `{}` after merging although no equal type is used that way", tdesc(r, *m), FACTS[f])));
                    }
                }
            }
            for m in members {
                for f in 0..5 {
                    if actual1[m][3 + f] != content[m][f] && !bad0[3 + f] {
                        bad[3 + f] = true;
                        v.push((format!("content-fact-changed-by-merge:{}", FACTS[3 + f]), format!("{} `{}` became {} after collect_equal_types", tdesc(r, *m), FACTS[3 + f], actual1[m][3 + f])));
                    }
                }
            }
        }
    }

    // ---- phase 2: the generators' default closure (nominal kinds never alias) ----
    if partition_ok {
        let mut t2 = Types::default();
        t2.analyze(r);
        t2.collect_equal_types(r, world, &|id| default_closure(r, id));
        let rep2: HashMap<TypeId, TypeId> = live.iter().map(|id| (*id, t2.get_representative_type(*id))).collect();
        let act2: HashMap<TypeId, Facts> = all.iter().map(|id| (*id, facts_of(t2.get(*id)))).collect();
        let mut groups: BTreeMap<TypeId, Vec<TypeId>> = BTreeMap::new();
        for id in &live {
            groups.entry(rep2[id]).or_default().push(*id);
        }
        for members in groups.values() {
            for m in &members[1..] {
                if sigs[m] != sigs[&members[0]] {
                    let key = format!("default-closure:merged-unequal:{}", diff(r, &Type::Id(members[0]), &Type::Id(*m)));
                    v.push((key, format!("treated as the same type but structurally different: {}  <>  {}", tdesc(r, members[0]), tdesc(r, *m))));
                }
                for f in 0..8 {
                    if act2[m][f] != act2[&members[0]][f] && !bad[f] {
                        v.push((format!("default-closure:class-facts-differ:{}", FACTS[f]), format!("{} vs {}", tdesc(r, members[0]), tdesc(r, *m))));
                    }
                }
            }
            for f in 0..3 {
                if bad[f] {
                    continue;
                }
                let lo = members.iter().any(|m| lower0(*m, f));
                let up = classes[sigs[&members[0]].as_str()].iter().any(|m| upper0(*m, f));
                for m in members {
                    if lo && !act2[m][f] {
                        v.push((format!("default-closure:union-fact-missing:{}", FACTS[f]), tdesc(r, *m)));
                    }
                    if act2[m][f] && !up {
                        v.push((format!("default-closure:union-fact-spurious:{}", FACTS[f]), tdesc(r, *m)));
                    }
                }
            }
        }
        for id in &live {
            if let TypeDefKind::Type(Type::Id(t)) = &r.types[*id].kind {
                if rep2[id] != rep2[t] {
                    v.push(("default-closure:alias-not-merged".into(), format!("{} and its target {}", tdesc(r, *id), tdesc(r, *t))));
                }
            }
        }
    }

    // ---- coarse outcome signature (vacuity guard) ----
    let mut parts: Vec<String> = Vec::new();
    for members in classes.values() {
        if members.len() >= 2 {
            let non_alias: Vec<&TypeId> = members.iter().filter(|m| !is_alias(**m)).collect();
            let k = non_alias.first().map(|m| kind_name(r, **m)).unwrap_or("alias");
            parts.push(format!("{k}x{}+{}", non_alias.len(), members.len() - non_alias.len()));
        }
    }
    parts.sort();
    let mut fs: BTreeSet<u8> = BTreeSet::new();
    for id in &live {
        if r.types[*id].name.is_some() {
            fs.insert(actual1[id].iter().enumerate().fold(0u8, |a, (i, b)| a | ((*b as u8) << i)));
        }
    }
    let o = format!("{parts:?}|{fs:?}|{}", ev.near_equal_pairs.min(3));
    ev.outcome = vcommon::fnv(o.as_bytes());
    ev
}

fn eval_guarded(wit: &str) -> Eval {
    match vcommon::catch(|| eval_world(wit)) {
        Ok(e) => e,
        Err(p) => {
            let mut e = Eval::default();
            let loc = p.split_whitespace().take(6).collect::<Vec<_>>().join(" ");
            e.violations.push((format!("panic:{loc}"), format!("analysis panicked: {p}")));
            e
        }
    }
}

// ------------------------------------------------------------------------------------------
// Exploration
// ------------------------------------------------------------------------------------------

// ---- "order" bands: one look-alike definition per interface, k interfaces, the world's
// import/export statements permuted against the declaration (= TypeId) order ----

#[derive(Clone, Copy, PartialEq, Eq, Debug)]
enum ODef {
    Rec0,    // record t { a: u32, b: u32 }
    Rec1,    // record t { b: u32, a: u32 }
    Enum0,   // enum t { a, b }
    ListU32, // type t = list<u32>;
    UsePrev, // use i<j-1>.{t};   (j >= 1)
}

#[derive(Clone, Copy, PartialEq, Eq, Debug)]
enum OUse {
    None,
    Param,  // f: func(x: t);
    Result, // f: func() -> t;
    Err,    // f: func() -> result<u32, t>;
}

#[derive(Clone, Debug)]
struct OrderBand {
    k: usize,
    defs: Vec<ODef>,
    uses: Vec<OUse>,
}

impl OrderBand {
    fn describe(&self) -> Value {
        json!({
            "interfaces": self.k,
            "definition_per_interface": format!("{:?} (each interface declares one type `t`; UsePrev only from the second interface on)", self.defs),
            "function_per_interface": format!("{:?} on the interface's own `t`", self.uses),
            "world": "every assignment import/export per interface x every order of the import statements x every order of the export statements (all permutations)",
        })
    }
    fn choices(&self, j: usize) -> Vec<(ODef, OUse)> {
        let mut v = Vec::new();
        for &d in &self.defs {
            if d == ODef::UsePrev && j == 0 {
                continue;
            }
            for &u in &self.uses {
                v.push((d, u));
            }
        }
        v
    }
}

fn order_bands(thorough: bool) -> Vec<OrderBand> {
    use ODef::*;
    if !thorough {
        vec![
            OrderBand { k: 3, defs: vec![Rec0, Rec1, Enum0, ListU32, UsePrev], uses: vec![OUse::None, OUse::Param, OUse::Result, OUse::Err] },
            OrderBand { k: 4, defs: vec![Rec0, Rec1], uses: vec![OUse::None, OUse::Param, OUse::Result] },
        ]
    } else {
        vec![
            OrderBand { k: 3, defs: vec![Rec0, Rec1, Enum0, ListU32, UsePrev], uses: vec![OUse::None, OUse::Param, OUse::Result, OUse::Err] },
            OrderBand { k: 4, defs: vec![Rec0, Rec1, Enum0, UsePrev], uses: vec![OUse::None, OUse::Param, OUse::Result] },
        ]
    }
}

fn permutations(items: &[usize]) -> Vec<Vec<usize>> {
    if items.len() <= 1 {
        return vec![items.to_vec()];
    }
    let mut out = Vec::new();
    for i in 0..items.len() {
        let mut rest = items.to_vec();
        let x = rest.remove(i);
        for mut p in permutations(&rest) {
            p.insert(0, x);
            out.push(p);
        }
    }
    out
}

fn render_order(ifaces: &[(ODef, OUse)], imports: &[usize], exports: &[usize]) -> String {
    let mut s = String::from("package t:c28;\n");
    for (j, (d, u)) in ifaces.iter().enumerate() {
        s.push_str(&format!("interface i{j} {{\n"));
        s.push_str(&match d {
            ODef::Rec0 => "  record t { a: u32, b: u32 }\n".to_string(),
            ODef::Rec1 => "  record t { b: u32, a: u32 }\n".to_string(),
            ODef::Enum0 => "  enum t { a, b }\n".to_string(),
            ODef::ListU32 => "  type t = list<u32>;\n".to_string(),
            ODef::UsePrev => format!("  use i{}.{{t}};\n", j - 1),
        });
        s.push_str(match u {
            OUse::None => "",
            OUse::Param => "  f: func(x: t);\n",
            OUse::Result => "  f: func() -> t;\n",
            OUse::Err => "  f: func() -> result<u32, t>;\n",
        });
        s.push_str("}\n");
    }
    s.push_str("world w {\n");
    for j in imports {
        s.push_str(&format!("  import i{j};\n"));
    }
    for j in exports {
        s.push_str(&format!("  export i{j};\n"));
    }
    s.push_str("}\n");
    s
}

fn order_code(ifaces: &[(ODef, OUse)], imports: &[usize], exports: &[usize]) -> String {
    let d: Vec<String> = ifaces.iter().map(|(d, u)| format!("{d:?}/{u:?}")).collect();
    format!("order|{}|import{:?} export{:?}", d.join(";"), imports, exports)
}

#[derive(Clone, Debug)]
struct OrderChunk {
    band: usize,
    first: (ODef, OUse),
    export_mask: u32,
}

#[derive(Clone, Debug)]
struct Chunk {
    band: usize,
    layout: Layout,
    prefix: Vec<Def>,
    order: Option<OrderChunk>,
}

#[derive(Default)]
struct Acc {
    evals: u64,
    rejected: u64,
    rej_sample: Option<String>,
    genuine: u64,
    near: u64,
    class3: u64,
    class3_permuted: u64,
    invalid_skipped: u64,
    err_literal: u64,
    err_named: u64,
    err_alias: u64,
    max_types: usize,
    max_live: usize,
    outcomes: BTreeSet<u64>,
    outcomes_nt: BTreeSet<u64>,
    viol: BTreeMap<String, (String, String, String)>, // key -> (what, wit, code)
    samples: Vec<Value>,
}

/// Evaluate one world and fold the result into the accumulator. `permuted` = the world's
/// import/export order differs from the declaration order (order bands only).
fn account(acc: &mut Acc, wit: String, code: impl Fn() -> String, permuted: bool) {
    let ev = eval_guarded(&wit);
    if let Some(r) = &ev.rejected {
        // mixing `use` chains with import/export assignments can give worlds that are not
        // valid WIT (an interface reachable both through an import and an export): not in the space
        if r.contains("transitively depends on an interface in incompatible ways") {
            acc.invalid_skipped += 1;
            return;
        }
    }
    acc.evals += 1;
    if let Some(r) = ev.rejected {
        acc.rejected += 1;
        if acc.rej_sample.is_none() {
            acc.rej_sample = Some(format!("{r} :: {wit}"));
        }
        return;
    }
    acc.genuine += ev.genuine_merge as u64;
    acc.near += (ev.near_equal_pairs > 0) as u64;
    acc.class3 += (ev.max_class >= 3) as u64;
    acc.class3_permuted += (ev.max_class >= 3 && permuted) as u64;
    acc.err_literal += ev.err_literal as u64;
    acc.err_named += ev.err_named as u64;
    acc.err_alias += ev.err_alias as u64;
    acc.max_types = acc.max_types.max(ev.n_types);
    acc.max_live = acc.max_live.max(ev.n_live);
    acc.outcomes.insert(ev.outcome);
    if ev.genuine_merge {
        if acc.outcomes_nt.insert(ev.outcome) && acc.samples.len() < 2 {
            acc.samples.push(json!({"world": code(), "wit": one_line(&wit), "types": ev.n_types, "live": ev.n_live, "oracle_classes": ev.n_classes}));
        }
    }
    for (key, what) in ev.violations {
        let better = match acc.viol.get(&key) {
            None => true,
            Some((_, w, _)) => (wit.len(), &wit) < (w.len(), w),
        };
        if better {
            acc.viol.insert(key, (what, wit.clone(), code()));
        }
    }
}

fn explore(b: &Band, layout: Layout, defs: &mut Vec<Def>, acc: &mut Acc) {
    if defs.len() == b.n {
        for uses in use_sets(b, defs) {
            let wit = render(defs, layout, &uses);
            account(acc, wit, || world_code(defs, layout, &uses), false);
        }
        return;
    }
    let k = defs.len();
    for d in slot_alphabet(b, layout, k, defs) {
        defs.push(d);
        explore(b, layout, defs, acc);
        defs.pop();
    }
}

fn explore_order(b: &OrderBand, oc: &OrderChunk, ifaces: &mut Vec<(ODef, OUse)>, acc: &mut Acc) {
    if ifaces.len() == b.k {
        let imports: Vec<usize> = (0..b.k).filter(|j| oc.export_mask & (1 << j) == 0).collect();
        let exports: Vec<usize> = (0..b.k).filter(|j| oc.export_mask & (1 << j) != 0).collect();
        for pi in permutations(&imports) {
            for pe in permutations(&exports) {
                let wit = render_order(ifaces, &pi, &pe);
                let visit: Vec<usize> = pi.iter().chain(pe.iter()).copied().collect();
                let permuted = visit.windows(2).any(|w| w[0] > w[1]);
                account(acc, wit, || order_code(ifaces, &pi, &pe), permuted);
            }
        }
        return;
    }
    for c in b.choices(ifaces.len()) {
        ifaces.push(c);
        explore_order(b, oc, ifaces, acc);
        ifaces.pop();
    }
}

fn run_chunk(bands: &[Band], obands: &[OrderBand], c: &Chunk) -> Value {
    vcommon::install_quiet_panic_hook();
    let mut acc = Acc::default();
    if let Some(oc) = &c.order {
        let mut ifaces = vec![oc.first];
        explore_order(&obands[oc.band], oc, &mut ifaces, &mut acc);
    } else {
        let mut defs = c.prefix.clone();
        explore(&bands[c.band], c.layout, &mut defs, &mut acc);
    }
    let viol: Vec<Value> = acc
        .viol
        .iter()
        .map(|(k, (what, wit, code))| json!({"key": k, "what": what, "wit": wit, "code": code}))
        .collect();
    json!({
        "evals": acc.evals, "rejected": acc.rejected, "rej_sample": acc.rej_sample,
        "genuine": acc.genuine, "near": acc.near, "class3": acc.class3, "class3_permuted": acc.class3_permuted, "invalid_skipped": acc.invalid_skipped,
        "err_literal": acc.err_literal, "err_named": acc.err_named, "err_alias": acc.err_alias,
        "max_types": acc.max_types, "max_live": acc.max_live,
        "outcomes": acc.outcomes.iter().collect::<Vec<_>>(),
        "outcomes_nt": acc.outcomes_nt.iter().collect::<Vec<_>>(),
        "viol": viol, "samples": acc.samples,
    })
}

fn one_line(s: &str) -> String {
    s.split_whitespace().collect::<Vec<_>>().join(" ")
}

fn main() {
    let mut run = vcommon::Run::from_args("C28", "exploration");

    if let Some(detail) = run.replay_detail() {
        vcommon::install_quiet_panic_hook();
        let wit = detail["wit"].as_str().unwrap_or_else(|| vcommon::machinery("replay: no wit"));
        let key = detail["key"].as_str().unwrap_or("");
        println!("replaying world:\n{wit}");
        let ev = eval_guarded(wit);
        if let Some(r) = &ev.rejected {
            vcommon::machinery(&format!("replay world rejected by wit-parser: {r}"));
        }
        let mut still = false;
        for (k, what) in &ev.violations {
            println!("  [{k}] {what}");
            if k == key || key.is_empty() {
                still = true;
            }
        }
        if still {
            println!("REPLAY: still fails ({key})");
            std::process::exit(1);
        }
        println!("REPLAY: `{key}` no longer reported");
        std::process::exit(0);
    }

    let bands = bands(run.thorough());
    // chunks = (band, layout, first one or two definitions)
    let mut chunks = Vec::new();
    for (bi, b) in bands.iter().enumerate() {
        for &layout in &b.layouts {
            if let Layout::Split(s) = layout {
                if s as usize >= b.n || s == 0 {
                    vcommon::machinery("bad split layout in band table");
                }
            }
            for d0 in slot_alphabet(b, layout, 0, &[]) {
                if b.n >= 3 {
                    for d1 in slot_alphabet(b, layout, 1, &[d0]) {
                        chunks.push(Chunk { band: bi, layout, prefix: vec![d0, d1], order: None });
                    }
                } else {
                    chunks.push(Chunk { band: bi, layout, prefix: vec![d0], order: None });
                }
            }
        }
    }
    // development aid: `--order-only` explores just the order bands (evidence says so)
    let order_only = run.extra_args.iter().any(|a| a == "--order-only");
    if order_only {
        chunks.clear();
    }
    let obands = order_bands(run.thorough());
    for (bi, b) in obands.iter().enumerate() {
        for first in b.choices(0) {
            for export_mask in 0..(1u32 << b.k) {
                chunks.push(Chunk { band: 0, layout: Layout::Same, prefix: vec![], order: Some(OrderChunk { band: bi, first, export_mask }) });
            }
        }
    }
    let rot = (run.seed as usize) % chunks.len().max(1);
    chunks.rotate_left(rot);
    let results = vcommon::par_map(chunks.len(), vcommon::ncpu(), |i| run_chunk(&bands, &obands, &chunks[i]));

    let mut evals = 0u64;
    let mut per_band = vec![0u64; bands.len()];
    let mut per_oband = vec![0u64; obands.len()];
    let (mut class3, mut class3_permuted, mut invalid_skipped) = (0u64, 0u64, 0u64);
    let mut rejected = 0u64;
    let mut rej_sample = Value::Null;
    let (mut genuine, mut near, mut el, mut en, mut ea) = (0u64, 0u64, 0u64, 0u64, 0u64);
    let (mut max_types, mut max_live) = (0u64, 0u64);
    let mut outcomes: BTreeSet<u64> = BTreeSet::new();
    let mut outcomes_nt: BTreeSet<u64> = BTreeSet::new();
    let mut viol: BTreeMap<String, (String, String, String)> = BTreeMap::new();
    let mut samples: Vec<Value> = Vec::new();
    for (i, r) in results.iter().enumerate() {
        let e = r["evals"].as_u64().unwrap();
        evals += e;
        match &chunks[i].order {
            Some(oc) => per_oband[oc.band] += e,
            None => per_band[chunks[i].band] += e,
        }
        class3 += r["class3"].as_u64().unwrap();
        class3_permuted += r["class3_permuted"].as_u64().unwrap();
        invalid_skipped += r["invalid_skipped"].as_u64().unwrap();
        rejected += r["rejected"].as_u64().unwrap();
        if rej_sample.is_null() && !r["rej_sample"].is_null() {
            rej_sample = r["rej_sample"].clone();
        }
        genuine += r["genuine"].as_u64().unwrap();
        near += r["near"].as_u64().unwrap();
        el += r["err_literal"].as_u64().unwrap();
        en += r["err_named"].as_u64().unwrap();
        ea += r["err_alias"].as_u64().unwrap();
        max_types = max_types.max(r["max_types"].as_u64().unwrap());
        max_live = max_live.max(r["max_live"].as_u64().unwrap());
        outcomes.extend(r["outcomes"].as_array().unwrap().iter().map(|x| x.as_u64().unwrap()));
        outcomes_nt.extend(r["outcomes_nt"].as_array().unwrap().iter().map(|x| x.as_u64().unwrap()));
        for x in r["viol"].as_array().unwrap() {
            let key = x["key"].as_str().unwrap().to_string();
            let wit = x["wit"].as_str().unwrap().to_string();
            let better = match viol.get(&key) {
                None => true,
                Some((_, w, _)) => (wit.len(), &wit) < (w.len(), w),
            };
            if better {
                viol.insert(key, (x["what"].as_str().unwrap().to_string(), wit, x["code"].as_str().unwrap().to_string()));
            }
        }
        if samples.len() < 8 {
            if let Some(s) = r["samples"].as_array().and_then(|a| a.first()) {
                if i % (chunks.len() / 8).max(1) == 0 {
                    samples.push(s.clone());
                }
            }
        }
    }
    if samples.is_empty() {
        for r in &results {
            if let Some(s) = r["samples"].as_array().and_then(|a| a.first()) {
                samples.push(s.clone());
                break;
            }
        }
    }
    if rejected > 0 {
        // the generator is meant to produce only valid WIT: anything else is a harness bug
        vcommon::machinery(&format!("{rejected} generated worlds rejected by wit-parser, e.g. {rej_sample}"));
    }
    for (key, (what, wit, code)) in &viol {
        run.violation(
            key,
            &format!("[{key}] {what} | world {code} :: {}", one_line(wit)),
            json!({"wit": wit, "key": key, "code": code}),
        );
    }
    let band_desc: Vec<Value> = bands
        .iter()
        .zip(&per_band)
        .map(|(b, n)| {
            let mut d = b.describe();
            d["worlds"] = json!(n);
            d
        })
        .collect();
    let oband_desc: Vec<Value> = obands
        .iter()
        .zip(&per_oband)
        .map(|(b, n)| {
            let mut d = b.describe();
            d["worlds"] = json!(n);
            d
        })
        .collect();
    let coverage = json!({
        "evaluations": evals,
        "exhaustive": !order_only,
        "bound": format!("every world of the grammar with 1..={} type definitions (bands below) plus every world of the order bands ({} interfaces with one look-alike definition each, all import/export assignments and statement orders), each analysed 2x (all-may-alias closure and the generators' default closure)", bands.iter().map(|b| b.n).max().unwrap(), obands.iter().map(|b| b.k.to_string()).collect::<Vec<_>>().join(" and ")),
        "bands": band_desc,
        "order_bands": oband_desc,
        "worlds_with_class_of_3_or_more_definitions": class3,
        "of_those_visited_against_declaration_order": class3_permuted,
        "generated_but_invalid_wit_not_counted": {"count": invalid_skipped, "reason": "wit-parser: interface transitively depends on an interface in incompatible ways (use chain reached through both an import and an export)"},
        "max_types_in_a_resolve": max_types,
        "max_live_types": max_live,
        "worlds_with_genuine_structural_merge": genuine,
        "worlds_with_near_equal_pair": near,
        "worlds_with_error_use": {"result_literal": el, "result_named_alias": en, "result_through_alias_or_use": ea},
        "distinct_outcomes": outcomes.len(),
        "distinct_nontrivial": outcomes_nt.len(),
        "rule": "cases = all worlds of the bands' grammar (every tuple of definitions x every layout x every set of uses) and of the order bands (every definition/function choice per interface x every import/export assignment x every statement order), enumerated completely, each rendered to WIT and parsed by wit-parser; counted as non-trivial: distinct coarse outcome signatures (multiset of oracle classes of size>=2 as kind x members, set of post-merge fact bit-vectors of named types, near-equal pair count capped at 3) among worlds whose oracle partition has a class with >=2 non-alias definitions (a genuine structural merge, not mere alias transparency)",
        "oracle": "canonical structural signature string per type (aliases/use transparent, field/case/flag names in order, resources by TypeId) => partition of the live types; content facts by reachability (list or string / tuple / resource or handle / borrow / own); usage facts by reachability from import params (borrowed), export params + all results (owned), error type of the (alias-chased) result of a function (error)",
        "compared": "(1) get_representative_type partition vs oracle partition on all live types; (2) every TypeInfo bit after analyze(); (3) after collect_equal_types: equal types carry identical bits = union over the class",
        "violation_keys": viol.keys().collect::<Vec<_>>(),
        "samples": samples,
    });
    let assumptions = vec![
        "`type a = b` and `use`-imported names are transparent: an alias is structurally equal to its target (types.rs documents this intent: 'other types may still be equal to it, such as aliased types at the WIT level'); type names themselves never matter".to_string(),
        "the exact-partition comparison is made with the closure 'every type may alias another' (= --merge-structurally-equal-types); under the generators' default closure (nominal kinds never alias) only soundness (merged => equal), alias-with-target merging and fact sharing inside the implementation's classes are demanded".to_string(),
        "usage facts `borrowed`/`owned` are demanded only of named types (the implementation documents that anonymous types are not flagged); for anonymous types only 'no fact without a justifying use' is checked".to_string(),
        "`error`: demanded of the named, non-alias definition at the end of the alias chain of the error type E of a function whose result type is `result<_, E>` literally, by name, or through any chain of aliases/`use`; allowed (not demanded) on anything reachable from E; after merging demanded of every type equal to such a definition".to_string(),
        "handle -> resource and alias -> target count as 'used within' for usage facts".to_string(),
        "worlds with a borrow handle in a result position are not generated (invalid in the component model); resources have no methods; future/stream/map/fixed-length-list/error-context are outside the grammar".to_string(),
        "partition compared over the types live in the world (all interface types of imported/exported interfaces and everything reachable from them)".to_string(),
    ];
    run.finish(coverage, assumptions);
}
