//! Harness-owned hash seeds: a tiny shared object, built at run time with `cc`, that interposes
//! `getrandom` (and the raw `syscall(SYS_getrandom, ..)` path) so that the keys of every std
//! `RandomState` in a child process are a pure function of the environment variable
//! `VERIF_HASH_SEED`. Injected with `LD_PRELOAD`. Without the variable the shim forwards to the
//! kernel.

use std::path::{Path, PathBuf};
use std::process::Command;

const SRC: &str = r#"
#define _GNU_SOURCE
#include <stddef.h>
#include <stdint.h>
#include <stdlib.h>
#include <stdarg.h>
#include <sys/types.h>
#include <sys/syscall.h>
#include <unistd.h>
#include <dlfcn.h>

static uint64_t state;
static int init; /* 0 = not looked yet, 1 = seeded, 2 = pass through */

static int seeded(void) {
  if (!init) {
    const char *s = getenv("VERIF_HASH_SEED");
    if (s && *s) {
      state = strtoull(s, 0, 10) * 0x9E3779B97F4A7C15ULL + 0x6A09E667F3BCC909ULL;
      init = 1;
    } else {
      init = 2;
    }
  }
  return init == 1;
}

static uint64_t next(void) { /* splitmix64 */
  uint64_t z = (state += 0x9E3779B97F4A7C15ULL);
  z = (z ^ (z >> 30)) * 0xBF58476D1CE4E5B9ULL;
  z = (z ^ (z >> 27)) * 0x94D049BB133111EBULL;
  return z ^ (z >> 31);
}

static void fill(unsigned char *p, size_t len) {
  while (len) {
    uint64_t v = next();
    for (int i = 0; i < 8 && len; i++, len--) { *p++ = (unsigned char)v; v >>= 8; }
  }
}

typedef long (*syscall_fn)(long, ...);
static syscall_fn real_syscall(void) {
  static syscall_fn f;
  if (!f) f = (syscall_fn)dlsym(RTLD_NEXT, "syscall");
  return f;
}

ssize_t getrandom(void *buf, size_t len, unsigned int flags) {
  if (seeded()) { fill((unsigned char *)buf, len); return (ssize_t)len; }
  return (ssize_t)real_syscall()(SYS_getrandom, buf, len, flags);
}

long syscall(long n, ...) {
  va_list ap;
  va_start(ap, n);
  long a = va_arg(ap, long), b = va_arg(ap, long), c = va_arg(ap, long);
  long d = va_arg(ap, long), e = va_arg(ap, long), f = va_arg(ap, long);
  va_end(ap);
  if (n == SYS_getrandom && seeded()) { fill((unsigned char *)a, (size_t)b); return b; }
  return real_syscall()(n, a, b, c, d, e, f);
}
"#;

/// Build the shim in `dir`; returns the path of the shared object.
pub fn build(dir: &Path) -> PathBuf {
    let c = dir.join("seedshim.c");
    let so = dir.join("seedshim.so");
    std::fs::write(&c, SRC).unwrap_or_else(|e| vcommon::machinery(&format!("write {c:?}: {e}")));
    let out = Command::new("cc")
        .args(["-shared", "-fPIC", "-O1", "-o"])
        .arg(&so)
        .arg(&c)
        .arg("-ldl")
        .output()
        .unwrap_or_else(|e| vcommon::machinery(&format!("cannot run cc: {e}")));
    if !out.status.success() {
        vcommon::machinery(&format!(
            "cc failed building the getrandom shim: {}",
            String::from_utf8_lossy(&out.stderr)
        ));
    }
    so
}

/// Iteration order of a std HashSet — what a child prints so that the parent can see that its
/// seed took effect.
pub fn probe_fingerprint() -> String {
    let s: std::collections::HashSet<u32> = (0..24).collect();
    s.iter().map(|x| format!("{x:x}")).collect::<Vec<_>>().join("")
}

/// Apply seed + preload to a command.
pub fn seeded(cmd: &mut Command, so: &Path, seed: u64) {
    cmd.env("LD_PRELOAD", so).env("VERIF_HASH_SEED", seed.to_string());
}
