//! Declared exclusions of the repository, read as WIT *features*.
//!
//! `crates/test/src/<lang>.rs::should_fail_verify` lists the codegen tests a backend is expected
//! to fail, by test-file name and by the `//@ async` / `//@ error-context` flags of the test
//! file. Each row below names the WIT feature such an entry stands for and the source text it
//! was derived from. A world is skipped for judgement for a backend(:variant) iff it uses a
//! feature of one of that backend's rows. The table is verified at run time against the source
//! (`verify_tables`): if those functions change, the run stops with exit 2 instead of guessing.

use serde_json::{json, Value};
use std::collections::BTreeSet;
use wit_parser::*;

pub struct Row {
    pub backend: &'static str,
    /// None = every variant of the backend
    pub variant: Option<&'static str>,
    pub feature: &'static str,
    /// text that must occur in should_fail_verify of crates/test/src/<backend>.rs
    pub source_snippet: &'static str,
    pub why: &'static str,
}

pub const ROWS: &[Row] = &[
    // ---- rust (crates/test/src/rust.rs) -------------------------------------------------
    Row { backend: "rust", variant: Some("async"), feature: "fixed-length-list",
          source_snippet: "name == \"named-fixed-length-list.wit-async\"",
          why: "\"Named fixed-length lists don't work with async yet\"; read as: any fixed-length list under --async=all" },
    Row { backend: "rust", variant: None, feature: "fixed-length-list+async",
          source_snippet: "name == \"named-fixed-length-list.wit-async\"",
          why: "same declaration, when the async lowering is requested by the WIT itself (`async func`, future, stream) instead of --async=all" },
    // (`wasi-http-borrowed-duplicate`, `more-variants.wit-borrowed-duplicate` are excluded by
    //  file name for a bug of the *generated code*; generation itself succeeds on both, so no
    //  feature row is derived from them.)
    // ---- c ----------------------------------------------------------------------------------
    Row { backend: "c", variant: None, feature: "error-context",
          source_snippet: "config.error_context", why: "tests flagged `//@ error-context = true`" },
    Row { backend: "c", variant: None, feature: "fixed-length-list",
          source_snippet: "name.starts_with(\"named-fixed-length-list.wit\")", why: "every variant of named-fixed-length-list.wit" },
    // ---- cpp --------------------------------------------------------------------------------
    Row { backend: "cpp", variant: None, feature: "async",
          source_snippet: "|| config.async_", why: "every test flagged `//@ async = true` (futures, streams, async functions, error-context)" },
    Row { backend: "cpp", variant: None, feature: "fixed-length-list",
          source_snippet: "\"named-fixed-length-list.wit\"", why: "named-fixed-length-list.wit" },
    Row { backend: "cpp", variant: None, feature: "variant-case-named-like-variant",
          source_snippet: "\"issue1514-6.wit\"", why: "issue1514-6.wit: `variant v { v }`" },
    // ---- csharp -----------------------------------------------------------------------------
    Row { backend: "csharp", variant: None, feature: "error-context",
          source_snippet: "\"error-context.wit\"", why: "error-context.wit" },
    Row { backend: "csharp", variant: None, feature: "fallible-constructor",
          source_snippet: "\"resource-fallible-constructor.wit\"", why: "constructor returning result<..>" },
    Row { backend: "csharp", variant: None, feature: "async-resource-function",
          source_snippet: "\"async-resource-func.wit\"", why: "async method/static of a resource" },
    Row { backend: "csharp", variant: None, feature: "resource-imported-and-exported",
          source_snippet: "\"import-export-resource.wit\"", why: "the same interface with a resource imported and exported (the named file no longer exists in tests/codegen; the intent is kept)" },
    Row { backend: "csharp", variant: None, feature: "world-export-async-payload-of-named-type",
          source_snippet: "\"issue-1433.wit\"", why: "issue-1433.wit: world-level export whose stream/future payload is a named type" },
    Row { backend: "csharp", variant: None, feature: "fixed-length-list",
          source_snippet: "\"named-fixed-length-list.wit\"", why: "named-fixed-length-list.wit" },
    // ---- go ---------------------------------------------------------------------------------
    Row { backend: "go", variant: None, feature: "error-context",
          source_snippet: "config.error_context", why: "tests flagged error-context" },
    Row { backend: "go", variant: None, feature: "fixed-length-list",
          source_snippet: "name == \"named-fixed-length-list.wit\"", why: "named-fixed-length-list.wit" },
    Row { backend: "go", variant: None, feature: "async-resource-function",
          source_snippet: "name == \"async-trait-function.wit\"", why: "only on Go toolchains without async support; kept as an exclusion (demanding less)" },
    Row { backend: "go", variant: None, feature: "world-export-async-payload-of-named-type",
          source_snippet: "name == \"issue-1598.wit\"", why: "only on Go toolchains without async support; kept as an exclusion (demanding less)" },
    // ---- moonbit ----------------------------------------------------------------------------
    Row { backend: "moonbit", variant: None, feature: "error-context",
          source_snippet: "config.error_context", why: "tests flagged error-context" },
    Row { backend: "moonbit", variant: Some("async"), feature: "fixed-length-list",
          source_snippet: "name == \"named-fixed-length-list.wit-async\"", why: "fixed-length lists under --async=all" },
    Row { backend: "moonbit", variant: None, feature: "fixed-length-list+async",
          source_snippet: "name == \"named-fixed-length-list.wit-async\"", why: "same declaration, async requested by the WIT itself" },
    // ---- d ----------------------------------------------------------------------------------
    Row { backend: "d", variant: None, feature: "async",
          source_snippet: "config.async_", why: "every test flagged async" },
    Row { backend: "d", variant: None, feature: "error-context",
          source_snippet: "config.error_context", why: "tests flagged error-context" },
    Row { backend: "d", variant: None, feature: "map",
          source_snippet: "name == \"map.wit\"", why: "map.wit" },
    Row { backend: "d", variant: None, feature: "named-interface-import",
          source_snippet: "name == \"issue1642.wit\"", why: "issue1642.wit: `import primary: store;`" },
    // ---- markdown: no rows (crates/test has no markdown language; the property says
    //      "supports every WIT type") ----------------------------------------------------------
];

/// fnv of the whitespace-normalised bodies of the four functions the tables are transcribed
/// from, per language file, at the commit the tables were written for.
const FINGERPRINTS: &[(&str, u64)] = &[
    ("rust", 0x95aa0895e43aa453),
    ("c", 0xbb69c0eab2ffa41c),
    ("cpp", 0x42b04439e91de1d7),
    ("csharp", 0xec66b4114ebdfb50),
    ("go", 0xcf06aefed696db3f),
    ("moonbit", 0xa51a6a7eaa43035f),
    ("d", 0xf9921d1d28cde15f),
];

fn fn_text(src: &str, name: &str) -> String {
    let Some(at) = src.find(&format!("fn {name}(")) else {
        return String::new();
    };
    let rest = &src[at..];
    let Some(open) = rest.find('{') else {
        return String::new();
    };
    let mut depth = 0usize;
    for (i, c) in rest[open..].char_indices() {
        match c {
            '{' => depth += 1,
            '}' => {
                depth -= 1;
                if depth == 0 {
                    return rest[..open + i + 1]
                        .split_whitespace()
                        .collect::<Vec<_>>()
                        .join(" ");
                }
            }
            _ => {}
        }
    }
    String::new()
}

pub fn fingerprint(src: &str) -> u64 {
    let mut all = String::new();
    for f in [
        "should_fail_verify",
        "codegen_test_variants",
        "default_bindgen_args",
        "default_bindgen_args_for_codegen",
    ] {
        all.push_str(&fn_text(src, f));
        all.push('\n');
    }
    vcommon::fnv(all.as_bytes())
}

/// Verify the tables against the source; returns the table as JSON (with the source line of
/// every row) for the evidence file. Exit 2 when the source changed.
pub fn verify_tables() -> Value {
    let mut rows = Vec::new();
    for (lang, expect) in FINGERPRINTS {
        let path = format!("{}/crates/test/src/{lang}.rs", vcommon::repo_root());
        let src = std::fs::read_to_string(&path)
            .unwrap_or_else(|e| vcommon::machinery(&format!("cannot read {path}: {e}")));
        let got = fingerprint(&src);
        if std::env::var_os("E7_PRINT_FINGERPRINTS").is_some() {
            println!("    (\"{lang}\", 0x{got:016x}),");
            continue;
        }
        if got != *expect {
            vcommon::machinery(&format!(
                "exclusion/variant table out of date: should_fail_verify / codegen_test_variants / default_bindgen_args in crates/test/src/{lang}.rs changed (fingerprint {got:#x}, table written for {expect:#x}); re-derive crates/e7-gen/src/exclusions.rs and backends.rs"
            ));
        }
        let sfv = {
            let at = src.find("fn should_fail_verify(").unwrap_or(0);
            at
        };
        for r in ROWS.iter().filter(|r| r.backend == *lang) {
            let Some(off) = src[sfv..].find(r.source_snippet) else {
                vcommon::machinery(&format!(
                    "exclusion row {}:{} cites `{}` which is not in {path}",
                    r.backend, r.feature, r.source_snippet
                ));
            };
            let line = src[..sfv + off].matches('\n').count() + 1;
            rows.push(json!({
                "backend": r.backend,
                "variant": r.variant.unwrap_or("*"),
                "excluded_feature": r.feature,
                "source": format!("crates/test/src/{lang}.rs:{line}"),
                "source_text": r.source_snippet,
                "why": r.why,
            }));
        }
    }
    if std::env::var_os("E7_PRINT_FINGERPRINTS").is_some() {
        std::process::exit(0);
    }
    Value::Array(rows)
}

/// Is `(backend, variant)` excused from judgement on a world with these features?
pub fn excluded(backend: &str, variant: &str, feats: &BTreeSet<&'static str>) -> Option<&'static str> {
    ROWS.iter()
        .find(|r| {
            r.backend == backend
                && r.variant.map(|v| v == variant).unwrap_or(true)
                && feats.contains(r.feature)
        })
        .map(|r| r.feature)
}

// ------------------------------------------------------------------------------------------
// Feature detection on a resolved world (over the whole `Resolve`: a superset of what the
// world reaches, which can only exclude more).

fn type_mentions(resolve: &Resolve, ty: &Type, pred: &dyn Fn(&TypeDef) -> bool, prim: &dyn Fn(&Type) -> bool, depth: usize) -> bool {
    if prim(ty) {
        return true;
    }
    let Type::Id(id) = ty else { return false };
    if depth > 64 {
        return false;
    }
    let def = &resolve.types[*id];
    if pred(def) {
        return true;
    }
    let rec = |t: &Type| type_mentions(resolve, t, pred, prim, depth + 1);
    match &def.kind {
        TypeDefKind::Record(r) => r.fields.iter().any(|f| rec(&f.ty)),
        TypeDefKind::Tuple(t) => t.types.iter().any(rec),
        TypeDefKind::Variant(v) => v.cases.iter().any(|c| c.ty.as_ref().map(&rec).unwrap_or(false)),
        TypeDefKind::Option(t) | TypeDefKind::List(t) | TypeDefKind::FixedLengthList(t, _) | TypeDefKind::Type(t) => rec(t),
        TypeDefKind::Map(k, v) => rec(k) || rec(v),
        TypeDefKind::Result(r) => r.ok.as_ref().map(&rec).unwrap_or(false) || r.err.as_ref().map(&rec).unwrap_or(false),
        TypeDefKind::Future(t) | TypeDefKind::Stream(t) => t.as_ref().map(&rec).unwrap_or(false),
        TypeDefKind::Handle(Handle::Own(i)) | TypeDefKind::Handle(Handle::Borrow(i)) => rec(&Type::Id(*i)),
        _ => false,
    }
}

pub fn features(resolve: &Resolve, world: WorldId) -> BTreeSet<&'static str> {
    let mut f = BTreeSet::new();
    let mut funcs: Vec<(&Function, bool)> = Vec::new(); // (function, is world-level export)
    for (_, iface) in resolve.interfaces.iter() {
        for (_, func) in iface.functions.iter() {
            funcs.push((func, false));
        }
    }
    for (_, w) in resolve.worlds.iter() {
        for (_, item) in w.imports.iter() {
            if let WorldItem::Function(func) = item {
                funcs.push((func, false));
            }
        }
        for (_, item) in w.exports.iter() {
            if let WorldItem::Function(func) = item {
                funcs.push((func, true));
            }
        }
    }
    let is_ec = |t: &Type| matches!(t, Type::ErrorContext);
    for (_, def) in resolve.types.iter() {
        match &def.kind {
            TypeDefKind::FixedLengthList(..) => {
                f.insert("fixed-length-list");
            }
            TypeDefKind::Map(..) => {
                f.insert("map");
            }
            TypeDefKind::Future(_) | TypeDefKind::Stream(_) => {
                f.insert("async");
            }
            TypeDefKind::Variant(v) => {
                if let Some(n) = &def.name {
                    if v.cases.iter().any(|c| &c.name == n) {
                        f.insert("variant-case-named-like-variant");
                    }
                }
            }
            _ => {}
        }
        // error-context as a direct component of any type definition
        let direct: Vec<&Type> = match &def.kind {
            TypeDefKind::Record(r) => r.fields.iter().map(|x| &x.ty).collect(),
            TypeDefKind::Tuple(t) => t.types.iter().collect(),
            TypeDefKind::Variant(v) => v.cases.iter().filter_map(|c| c.ty.as_ref()).collect(),
            TypeDefKind::Option(t) | TypeDefKind::List(t) | TypeDefKind::FixedLengthList(t, _) | TypeDefKind::Type(t) => vec![t],
            TypeDefKind::Map(k, v) => vec![k, v],
            TypeDefKind::Result(r) => r.ok.iter().chain(r.err.iter()).collect(),
            TypeDefKind::Future(t) | TypeDefKind::Stream(t) => t.iter().collect(),
            _ => vec![],
        };
        if direct.iter().any(|t| is_ec(t)) {
            f.insert("error-context");
        }
    }
    for (func, world_export) in &funcs {
        let tys: Vec<&Type> = func.params.iter().map(|p| &p.ty).chain(func.result.iter()).collect();
        if tys.iter().any(|t| is_ec(t)) {
            f.insert("error-context");
        }
        match &func.kind {
            FunctionKind::AsyncFreestanding => {
                f.insert("async");
            }
            FunctionKind::AsyncMethod(_) | FunctionKind::AsyncStatic(_) => {
                f.insert("async");
                f.insert("async-resource-function");
            }
            FunctionKind::Constructor(_) => {
                if let Some(Type::Id(id)) = &func.result {
                    if matches!(resolve.types[*id].kind, TypeDefKind::Result(_)) {
                        f.insert("fallible-constructor");
                    }
                }
            }
            _ => {}
        }
        if *world_export {
            // stream/future whose payload mentions a named type
            let named = |d: &TypeDef| d.name.is_some();
            let carries = |d: &TypeDef| match &d.kind {
                TypeDefKind::Future(Some(p)) | TypeDefKind::Stream(Some(p)) => {
                    type_mentions(resolve, p, &named, &|_| false, 0)
                }
                _ => false,
            };
            if tys.iter().any(|t| type_mentions(resolve, t, &carries, &|_| false, 0)) {
                f.insert("world-export-async-payload-of-named-type");
            }
        }
    }
    if f.contains("error-context") {
        // every error-context test is also flagged `//@ async = true`
        f.insert("async");
    }
    if f.contains("async") && f.contains("fixed-length-list") {
        f.insert("fixed-length-list+async");
    }
    let w = &resolve.worlds[world];
    for (key, item) in w.imports.iter() {
        if let (WorldKey::Name(_), WorldItem::Interface { id, .. }) = (key, item) {
            if resolve.interfaces[*id].name.is_some() {
                f.insert("named-interface-import");
            }
        }
    }
    let has_resource = |id: InterfaceId| {
        resolve.interfaces[id]
            .types
            .values()
            .any(|t| matches!(resolve.types[*t].kind, TypeDefKind::Resource))
    };
    let imported: BTreeSet<_> = w
        .imports
        .values()
        .filter_map(|i| match i {
            WorldItem::Interface { id, .. } => Some(id.index()),
            _ => None,
        })
        .collect();
    for item in w.exports.values() {
        if let WorldItem::Interface { id, .. } = item {
            if imported.contains(&id.index()) && has_resource(*id) {
                f.insert("resource-imported-and-exported");
            }
        }
    }
    f
}
