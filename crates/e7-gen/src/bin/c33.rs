//! C33 — CLI check mode succeeds exactly when the outputs are up to date, reports
//! line-ending-only differences as such, and never writes.
//!
//! The real `wit-bindgen` binary is built from the working tree (own target dir). For a few
//! small worlds × every backend the output directory is put into every state of
//! {identical, missing, altered byte, appended byte, LF→CRLF, high byte flipped, final newline changed}^k over k chosen generated files
//! (plus "unrelated extra file present"), `wit-bindgen <backend> .. --check` is run on it, and
//! compared with an oracle that does not share the check branch: *really generating* into a copy
//! of the same directory — check must exit 0 iff that generation changes no byte and adds no
//! file. The directory (names, bytes, mtimes) must be untouched by `--check`.

use e7_gen::backends;
use e7_gen::shim;
use serde_json::{json, Value};
use std::collections::{BTreeMap, BTreeSet};
use std::path::{Path, PathBuf};
use std::process::Command;
use std::time::{Duration, SystemTime};
use vcommon::Run;

#[derive(Clone, Copy, Debug, PartialEq, Eq, PartialOrd, Ord)]
enum St {
    Identical,
    Missing,
    AlteredByte,
    Appended,
    Crlf,
    /// lowest bit of one byte >= 0x80 flipped (the byte stays >= 0x80, the length stays):
    /// in a file that is not valid UTF-8 the first byte that is invalid UTF-8, in a UTF-8 text
    /// file the last byte of the first multi-byte character
    HighByte,
    /// only the final newline changed: removed if the file ends with one, added otherwise
    FinalNewline,
}
const STATES: [St; 7] = [
    St::Identical,
    St::Missing,
    St::AlteredByte,
    St::Appended,
    St::Crlf,
    St::HighByte,
    St::FinalNewline,
];

impl St {
    fn name(self) -> &'static str {
        match self {
            St::Identical => "identical",
            St::Missing => "missing",
            St::AlteredByte => "altered-byte",
            St::Appended => "appended-byte",
            St::Crlf => "crlf",
            St::HighByte => "high-byte-flipped",
            St::FinalNewline => "final-newline-changed",
        }
    }
    fn parse(s: &str) -> St {
        *STATES.iter().find(|x| x.name() == s).unwrap_or_else(|| vcommon::machinery(&format!("bad state {s}")))
    }
}

fn worlds(thorough: bool) -> Vec<(&'static str, &'static str)> {
    let mut v = vec![
        (
            "funcs",
            "package t:c33;\n\n/// na\u{ef}ve caf\u{e9} \u{2014} documentation with multi-byte characters\nworld w {\n  /// pr\u{e9}fixe\n  import f: func(x: u32) -> string;\n  /// r\u{e9}sultat\n  export g: func(a: list<u8>) -> string;\n}\n",
        ),
        (
            "exported-resource",
            "package t:c33;\n\ninterface i {\n  record r {\n    a: u32,\n    b: string,\n  }\n  resource thing {\n    constructor(a: u32);\n    get: func() -> r;\n  }\n  f: func(x: r) -> option<r>;\n}\n\nworld w {\n  export i;\n}\n",
        ),
    ];
    if thorough {
        v.push(
        (
            "two-interfaces",
            "package t:c33;\n\ninterface a {\n  enum e {\n    x,\n    y,\n  }\n  variant v {\n    n,\n    s(string),\n  }\n  f: func(e: e) -> v;\n}\n\ninterface b {\n  use a.{e};\n  flags fl {\n    p,\n    q,\n  }\n  g: func(x: list<e>, y: fl) -> result<u64, string>;\n}\n\nworld w {\n  import a;\n  import b;\n  export b;\n  export run: func();\n}\n",
        )
        );
        v.push((
            "imported-resource",
            "package t:c33;\n\ninterface i {\n  resource thing {\n    constructor(a: u32);\n    get: func() -> tuple<u32, option<string>>;\n    make: static func() -> thing;\n  }\n  f: func(x: borrow<thing>) -> own<thing>;\n}\n\nworld w {\n  import i;\n  export h: func(x: f32) -> f64;\n}\n",
        ));
        v.push(("empty", "package t:c33;\n\nworld w {\n}\n"));
    }
    v
}

type Snapshot = BTreeMap<String, (bool, Vec<u8>, u128)>;

fn snapshot(dir: &Path) -> Snapshot {
    fn walk(root: &Path, d: &Path, out: &mut Snapshot) {
        let md = std::fs::metadata(d).unwrap();
        let mt = md.modified().unwrap().duration_since(SystemTime::UNIX_EPOCH).unwrap().as_nanos();
        let rel = d.strip_prefix(root).unwrap().to_string_lossy().into_owned();
        out.insert(format!("{rel}/"), (true, vec![], mt));
        let mut es: Vec<_> = std::fs::read_dir(d).unwrap().filter_map(|e| e.ok()).collect();
        es.sort_by_key(|e| e.file_name());
        for e in es {
            let p = e.path();
            if p.is_dir() {
                walk(root, &p, out);
            } else {
                let md = std::fs::metadata(&p).unwrap();
                let mt = md.modified().unwrap().duration_since(SystemTime::UNIX_EPOCH).unwrap().as_nanos();
                let rel = p.strip_prefix(root).unwrap().to_string_lossy().into_owned();
                out.insert(rel, (false, std::fs::read(&p).unwrap(), mt));
            }
        }
    }
    let mut out = Snapshot::new();
    walk(dir, dir, &mut out);
    out
}

fn files_of(s: &Snapshot) -> BTreeMap<String, Vec<u8>> {
    s.iter().filter(|(_, v)| !v.0).map(|(k, v)| (k.clone(), v.1.clone())).collect()
}

/// give everything an old, fixed mtime so that any write is visible
fn age(dir: &Path) {
    let t = SystemTime::UNIX_EPOCH + Duration::from_secs(1_000_000_000);
    fn walk(d: &Path, t: SystemTime) {
        for e in std::fs::read_dir(d).unwrap().filter_map(|e| e.ok()) {
            let p = e.path();
            if p.is_dir() {
                walk(&p, t);
            } else {
                std::fs::File::options().write(true).open(&p).unwrap().set_modified(t).unwrap();
            }
        }
        std::fs::File::open(d).unwrap().set_modified(t).unwrap();
    }
    walk(dir, t);
}

fn write_tree(dir: &Path, files: &BTreeMap<String, Vec<u8>>) {
    let _ = std::fs::remove_dir_all(dir);
    std::fs::create_dir_all(dir).unwrap();
    for (name, bytes) in files {
        let p = dir.join(name);
        std::fs::create_dir_all(p.parent().unwrap()).unwrap();
        std::fs::write(p, bytes).unwrap();
    }
}

fn mutate(bytes: &[u8], st: St) -> Option<Vec<u8>> {
    match st {
        St::Identical => Some(bytes.to_vec()),
        St::Missing => None,
        St::AlteredByte => {
            let mut b = bytes.to_vec();
            // first byte that is not part of a line ending
            match b.iter().position(|c| *c != b'\n' && *c != b'\r') {
                Some(i) => b[i] = if b[i] == b'#' { b'$' } else { b'#' },
                None => b.push(b'#'),
            }
            Some(b)
        }
        St::Appended => {
            let mut b = bytes.to_vec();
            b.push(b'x');
            Some(b)
        }
        St::HighByte => {
            let mut b = bytes.to_vec();
            let at = match std::str::from_utf8(bytes) {
                // not UTF-8: the first offending byte (never ASCII)
                Err(e) => Some(e.valid_up_to()),
                // UTF-8: last byte of the first multi-byte character, if there is one
                Ok(t) => t.char_indices().find(|(_, c)| c.len_utf8() > 1).map(|(i, c)| i + c.len_utf8() - 1),
            };
            if let Some(i) = at {
                debug_assert!(b[i] >= 0x80);
                b[i] ^= 1;
            }
            Some(b)
        }
        St::FinalNewline => {
            let mut b = bytes.to_vec();
            if b.last() == Some(&b'\n') {
                b.pop();
            } else {
                b.push(b'\n');
            }
            Some(b)
        }
        St::Crlf => {
            let mut b = Vec::with_capacity(bytes.len() + 64);
            for c in bytes {
                if *c == b'\n' {
                    b.push(b'\r');
                }
                b.push(*c);
            }
            Some(b)
        }
    }
}

struct Cli {
    bin: PathBuf,
    so: PathBuf,
}

impl Cli {
    fn run(&self, backend: &str, args: &[&str], wit: &Path, out: &Path, check: bool, cwd: &Path) -> (i32, String) {
        let mut cmd = Command::new(&self.bin);
        cmd.arg(backend).args(args).arg("--out-dir").arg(out).arg(wit).current_dir(cwd);
        if check {
            cmd.arg("--check");
        }
        cmd.env_remove("RUST_LOG").env_remove("RUST_BACKTRACE");
        shim::seeded(&mut cmd, &self.so, 0);
        let o = cmd.output().unwrap_or_else(|e| vcommon::machinery(&format!("cannot run {:?}: {e}", self.bin)));
        (o.status.code().unwrap_or(-1), String::from_utf8_lossy(&o.stderr).into_owned())
    }
}

fn build_cli() -> (PathBuf, f64) {
    let repo = vcommon::repo_root();
    let target = format!("{}/target/cli-{:016x}", vcommon::verif_root(), vcommon::fnv(repo.as_bytes()));
    let t0 = std::time::Instant::now();
    let out = Command::new("cargo")
        .args(["build", "--release", "--offline", "--manifest-path"])
        .arg(format!("{repo}/Cargo.toml"))
        .current_dir(&repo)
        .env("CARGO_TARGET_DIR", &target)
        .env_remove("RUSTFLAGS")
        .env_remove("CARGO_ENCODED_RUSTFLAGS")
        .env_remove("CARGO_BUILD_RUSTFLAGS")
        .output()
        .unwrap_or_else(|e| vcommon::machinery(&format!("cannot run cargo: {e}")));
    if !out.status.success() {
        let err = String::from_utf8_lossy(&out.stderr);
        let tail: Vec<&str> = err.lines().rev().take(30).collect();
        vcommon::machinery(&format!(
            "building the wit-bindgen CLI from {repo} failed:\n{}",
            tail.into_iter().rev().collect::<Vec<_>>().join("\n")
        ));
    }
    let bin = PathBuf::from(format!("{target}/release/wit-bindgen"));
    if !bin.exists() {
        vcommon::machinery(&format!("{bin:?} missing after build"));
    }
    (bin, t0.elapsed().as_secs_f64())
}

fn is_text(b: &[u8]) -> bool {
    match std::str::from_utf8(b) {
        Ok(s) => !s.chars().any(|c| c.is_control() && !matches!(c, '\n' | '\r' | '\t')),
        Err(_) => false,
    }
}

fn strip_cr(b: &[u8]) -> Vec<u8> {
    let mut o = Vec::with_capacity(b.len());
    for (i, c) in b.iter().enumerate() {
        if *c == b'\r' && b.get(i + 1) == Some(&b'\n') {
            continue;
        }
        o.push(*c);
    }
    o
}

/// Same sequence of lines when line terminators (LF / CRLF, final newline or not) are ignored.
fn same_lines(a: &[u8], b: &[u8]) -> bool {
    fn lines(x: &[u8]) -> Vec<&[u8]> {
        let mut v: Vec<&[u8]> = x.split(|c| *c == b'\n').collect();
        if v.last().map(|l| l.is_empty()).unwrap_or(false) {
            v.pop();
        }
        v.into_iter().map(|l| l.strip_suffix(b"\r").unwrap_or(l)).collect()
    }
    lines(a) == lines(b)
}

/// One directory state: returns (violations [(kind, message)], facts)
fn explore_state(
    cli: &Cli,
    backend: &str,
    args: &[&str],
    wit: &Path,
    work: &Path,
    baseline: &BTreeMap<String, Vec<u8>>,
    assignment: &[(String, St)],
    extra_file: bool,
) -> (Vec<(String, String)>, Value) {
    // ---- build the directory state
    let mut files = baseline.clone();
    for (name, st) in assignment {
        match mutate(&baseline[name], *st) {
            Some(b) => {
                files.insert(name.clone(), b);
            }
            None => {
                files.remove(name);
            }
        }
    }
    if extra_file {
        files.insert("zz-unrelated-notes.txt".into(), b"not generated by wit-bindgen\n".to_vec());
    }
    let case = work.join("case");
    let copy = work.join("copy");
    write_tree(&case, &files);
    write_tree(&copy, &files);
    age(&case);
    age(&copy);
    // ---- oracle: what would a real generation do to this directory?
    let before_copy = files_of(&snapshot(&copy));
    let (grc, gerr) = cli.run(backend, args, wit, &copy, false, work);
    if grc != 0 {
        vcommon::machinery(&format!("generation into a prepared directory failed for {backend}: {gerr}"));
    }
    let after_copy = files_of(&snapshot(&copy));
    let changed: Vec<String> = after_copy
        .iter()
        .filter(|(n, b)| before_copy.get(*n) != Some(b))
        .map(|(n, _)| n.clone())
        .collect();
    let up_to_date = changed.is_empty();
    let crlf_only: Vec<bool> = changed
        .iter()
        .map(|n| match before_copy.get(n) {
            Some(old) => {
                let new = &after_copy[n];
                old != new && is_text(old) && is_text(new) && &strip_cr(old) == new
            }
            None => false,
        })
        .collect();
    // differs in line terminators only, in the wider sense (CRLF and/or the final newline)
    let eol_only: Vec<bool> = changed
        .iter()
        .map(|n| match before_copy.get(n) {
            Some(old) => {
                let new = &after_copy[n];
                old != new && is_text(old) && is_text(new) && same_lines(old, new)
            }
            None => false,
        })
        .collect();
    // ---- the transition under test
    let snap0 = snapshot(&case);
    let (rc, err) = cli.run(backend, args, wit, &case, true, work);
    let snap1 = snapshot(&case);
    let mut v = Vec::new();
    let last = err.lines().last().unwrap_or("").to_string();
    if rc == 0 && !up_to_date {
        v.push((
            "check-passed-but-outputs-stale".to_string(),
            format!("--check exits 0 although generating for real would write {changed:?}"),
        ));
    }
    if rc != 0 && up_to_date {
        v.push((
            "check-failed-but-outputs-up-to-date".to_string(),
            format!("--check exits {rc} ({last}) although generating for real changes nothing"),
        ));
    }
    if snap0 != snap1 {
        let diff: Vec<&String> = snap1
            .keys()
            .chain(snap0.keys())
            .filter(|k| snap0.get(*k) != snap1.get(*k))
            .collect::<BTreeSet<_>>()
            .into_iter()
            .collect();
        v.push((
            "check-modified-directory".to_string(),
            format!("--check created/modified/touched {diff:?}"),
        ));
    }
    let mentions = err.to_lowercase().contains("line ending") || err.contains("CRLF");
    if rc != 0 && !changed.is_empty() {
        if crlf_only.iter().all(|x| *x) && !mentions {
            v.push((
                "crlf-only-difference-not-reported-as-such".to_string(),
                format!("only line endings differ in {changed:?} but the message is: {last}"),
            ));
        }
        if eol_only.iter().all(|x| !*x) && mentions {
            v.push((
                "difference-misreported-as-line-endings".to_string(),
                format!("no file differs only in line terminators ({changed:?}) but the message is: {last}"),
            ));
        }
    }
    let facts = json!({"exit": rc, "up_to_date": up_to_date, "would_write": changed, "message": last,
                       "crlf_only": !crlf_only.is_empty() && crlf_only.iter().all(|x| *x)});
    (v, facts)
}

/// The k files put through every state: first the generated files that are not valid UTF-8
/// (the `*_component_type.o` of C and C++), then the first, last and middle name.
fn choose(baseline: &BTreeMap<String, Vec<u8>>, k: usize) -> Vec<String> {
    let names: Vec<String> = baseline.keys().cloned().collect();
    let names = &names;
    let n = names.len();
    let mut idx: Vec<usize> = (0..n).filter(|i| std::str::from_utf8(&baseline[&names[*i]]).is_err()).collect();
    idx.extend([0usize, n.saturating_sub(1), n / 2]);
    let mut out: Vec<String> = Vec::new();
    for i in idx {
        if out.len() < k && i < n && !out.contains(&names[i]) {
            out.push(names[i].clone());
        }
    }
    out
}

fn main() {
    let mut run = Run::from_args("C33", "model_checking");
    let (bin, build_s) = build_cli();
    let t_explore = std::time::Instant::now();
    let tmp = std::env::temp_dir().join(format!("e7-c33-{}", std::process::id()));
    let _ = std::fs::remove_dir_all(&tmp);
    std::fs::create_dir_all(&tmp).unwrap();
    let so = shim::build(&tmp);
    let cli = Cli { bin, so };
    let bvs: Vec<backends::Bv> = backends::all_bvs().into_iter().filter(|b| b.variant.is_empty()).collect();
    let k = run.pick(2usize, 3);
    let ws = worlds(run.thorough() || run.replay.is_some());

    // ---- replay --------------------------------------------------------------------------
    if let Some(d) = run.replay_detail() {
        let backend = d["backend"].as_str().unwrap().to_string();
        let bv = bvs.iter().find(|b| b.backend == backend).unwrap();
        let work = tmp.join("replay");
        std::fs::create_dir_all(&work).unwrap();
        let wit = work.join("world.wit");
        std::fs::write(&wit, d["wit_text"].as_str().unwrap()).unwrap();
        let base = work.join("base");
        std::fs::create_dir_all(&base).unwrap();
        let (rc, err) = cli.run(&backend, &bv.args, &wit, &base, false, &work);
        if rc != 0 {
            vcommon::machinery(&format!("baseline generation failed: {err}"));
        }
        let baseline = files_of(&snapshot(&base));
        let assignment: Vec<(String, St)> = d["assignment"]
            .as_array()
            .unwrap()
            .iter()
            .map(|a| (a[0].as_str().unwrap().to_string(), St::parse(a[1].as_str().unwrap())))
            .collect();
        let (v, facts) = explore_state(&cli, &backend, &bv.args, &wit, &work, &baseline, &assignment, d["extra_file"].as_bool().unwrap_or(false));
        println!("state {assignment:?} extra_file={}: {facts}", d["extra_file"]);
        for (kind, msg) in &v {
            println!("REPLAY: {kind}: {msg}");
        }
        let _ = std::fs::remove_dir_all(&tmp);
        std::process::exit(if v.is_empty() { 0 } else { 1 })
    }

    // ---- explore ---------------------------------------------------------------------------
    let pairs: Vec<(usize, usize)> = (0..ws.len()).flat_map(|w| (0..bvs.len()).map(move |b| (w, b))).collect();
    let results = vcommon::par_map(pairs.len(), vcommon::ncpu(), |i| {
        let (wi, bi) = pairs[i];
        let (wname, wtext) = ws[wi];
        let bv = &bvs[bi];
        let work = tmp.join(format!("{wname}-{}", bv.backend));
        std::fs::create_dir_all(&work).unwrap();
        let wit = work.join("world.wit");
        std::fs::write(&wit, wtext).unwrap();
        let base = work.join("base");
        std::fs::create_dir_all(&base).unwrap();
        let (rc, err) = cli.run(bv.backend, &bv.args, &wit, &base, false, &work);
        if rc != 0 {
            return json!({"w": wi, "b": bi, "skipped": err.lines().last().unwrap_or("").to_string()});
        }
        let baseline = files_of(&snapshot(&base));
        let names: Vec<String> = baseline.keys().cloned().collect();
        let chosen = choose(&baseline, k);
        // per file: the states of the alphabet that give pairwise different contents (a state
        // that does not apply to the file — CRLF without LF, high byte in pure ASCII —
        // coincides with `identical` and is not run twice)
        let applicable: Vec<Vec<St>> = chosen
            .iter()
            .map(|n| {
                let mut seen: Vec<Option<Vec<u8>>> = Vec::new();
                STATES
                    .iter()
                    .filter(|s| {
                        let m = mutate(&baseline[n], **s);
                        if seen.contains(&m) {
                            false
                        } else {
                            seen.push(m);
                            true
                        }
                    })
                    .copied()
                    .collect()
            })
            .collect();
        // all combinations
        let mut assignments: Vec<Vec<St>> = vec![vec![]];
        for app in &applicable {
            assignments = assignments
                .into_iter()
                .flat_map(|a| app.iter().map(move |s| { let mut a = a.clone(); a.push(*s); a }))
                .collect();
        }
        let mut cases: Vec<(Vec<(String, St)>, bool)> = assignments
            .into_iter()
            .map(|a| (chosen.iter().cloned().zip(a).collect(), false))
            .collect();
        // "extra unrelated file present": with everything identical, and with the first file missing
        cases.push((chosen.iter().cloned().map(|n| (n, St::Identical)).collect(), true));
        if !chosen.is_empty() {
            let mut a: Vec<(String, St)> = chosen.iter().cloned().map(|n| (n, St::Identical)).collect();
            a[0].1 = St::Missing;
            cases.push((a, true));
        }
        let mut out = Vec::new();
        let mut outcomes: BTreeSet<String> = BTreeSet::new();
        let mut first_gen_then_check = Value::Null;
        for (assignment, extra) in &cases {
            let (v, facts) = explore_state(&cli, bv.backend, &bv.args, &wit, &work, &baseline, assignment, *extra);
            outcomes.insert(format!("{}|{}|{}", facts["exit"], facts["up_to_date"], facts["crlf_only"]));
            if assignment.iter().all(|(_, s)| *s == St::Identical) && !extra {
                first_gen_then_check = facts.clone();
            }
            out.push(json!({
                "assignment": assignment.iter().map(|(n, s)| json!([n, s.name()])).collect::<Vec<_>>(),
                "extra_file": extra, "facts": facts,
                "violations": v.iter().map(|(k, m)| json!([k, m])).collect::<Vec<_>>(),
            }));
        }
        let _ = std::fs::remove_dir_all(&work);
        json!({"w": wi, "b": bi, "files": names, "chosen": chosen, "cases": out,
               "applicable": chosen.iter().zip(&applicable).map(|(n, a)| json!({"file": n, "binary": std::str::from_utf8(&baseline[n]).is_err(), "states": a.iter().map(|s| s.name()).collect::<Vec<_>>()})).collect::<Vec<_>>(),
               "outcomes": outcomes, "generate_then_check": first_gen_then_check})
    });

    // ---- aggregate ---------------------------------------------------------------------------
    let mut states = 0usize;
    let mut transitions = 0usize;
    let mut samples = vcommon::Samples::new(12);
    let mut skipped = Vec::new();
    let mut outcomes: BTreeSet<String> = BTreeSet::new();
    let mut gen_then_check_fails = Vec::new();
    let mut per_pair = Vec::new();
    struct V { what: String, detail: Value, weight: usize, n: usize }
    let mut viol: BTreeMap<String, V> = BTreeMap::new();
    for r in &results {
        let (wi, bi) = (r["w"].as_u64().unwrap() as usize, r["b"].as_u64().unwrap() as usize);
        let backend = bvs[bi].backend;
        if let Some(s) = r.get("skipped") {
            skipped.push(json!({"world": ws[wi].0, "backend": backend, "generation_error": s}));
            continue;
        }
        per_pair.push(json!({"world": ws[wi].0, "backend": backend, "generated_files": r["files"], "files_put_through_all_states": r["applicable"], "states": r["cases"].as_array().unwrap().len()}));
        if r["generate_then_check"]["exit"].as_i64() != Some(0) {
            gen_then_check_fails.push(json!({"world": ws[wi].0, "backend": backend, "check_after_fresh_generation": r["generate_then_check"]}));
        }
        for o in r["outcomes"].as_array().unwrap() {
            outcomes.insert(o.as_str().unwrap().to_string());
        }
        for c in r["cases"].as_array().unwrap() {
            states += 1;
            transitions += 1;
            samples.offer(|| json!({"world": ws[wi].0, "backend": backend, "state": c["assignment"], "extra_file": c["extra_file"], "observed": c["facts"]}));
            for v in c["violations"].as_array().unwrap() {
                let kind = v[0].as_str().unwrap();
                let nonid: BTreeSet<&str> = c["assignment"].as_array().unwrap().iter().map(|a| a[1].as_str().unwrap()).filter(|s| *s != "identical").collect();
                let mut sig = nonid.into_iter().collect::<Vec<_>>().join("+");
                if sig.is_empty() {
                    sig = "all-identical".into();
                }
                if c["extra_file"].as_bool() == Some(true) {
                    sig.push_str("+extra-file");
                }
                let key = format!("{backend}:{kind}:{sig}");
                let weight = c["assignment"].as_array().unwrap().iter().filter(|a| a[1] != "identical").count() * 10 + ws[wi].1.len() / 100;
                let what = format!(
                    "`wit-bindgen {backend} --check` on world `{}` with output directory state {} (extra file: {}): {}",
                    ws[wi].0, c["assignment"], c["extra_file"], v[1].as_str().unwrap()
                );
                let detail = json!({"backend": backend, "world": ws[wi].0, "wit_text": ws[wi].1, "assignment": c["assignment"],
                                    "extra_file": c["extra_file"], "observed": c["facts"], "args": bvs[bi].args});
                let e = viol.entry(key).or_insert(V { what: what.clone(), detail: detail.clone(), weight, n: 0 });
                e.n += 1;
                if weight < e.weight {
                    e.weight = weight;
                    e.what = what;
                    e.detail = detail;
                }
            }
        }
    }
    for (key, v) in &viol {
        let mut d = v.detail.clone();
        d["states_with_this_key"] = json!(v.n);
        run.violation(key, &v.what, d);
    }
    if states < 100 {
        vcommon::machinery(&format!("only {states} directory states explored"));
    }
    let coverage = json!({
        "states": states,
        "transitions": transitions,
        "traces_validated_against_impl": states,
        "evaluations": transitions * 2,
        "exhaustive": true,
        "state_alphabet_per_file": STATES.iter().map(|s| s.name()).collect::<Vec<_>>(),
        "k_files_put_through_every_state": k,
        "state_alphabet_note": "a state that leaves a file's bytes equal to an earlier state of the alphabet (CRLF in a file without LF, high-byte flip in pure ASCII) is merged with it; files that are not valid UTF-8 are always among the k files",
        "extra_cases": ["unrelated extra file + all identical", "unrelated extra file + first file missing"],
        "worlds": ws.iter().map(|w| w.0).collect::<Vec<_>>(),
        "backends": bvs.iter().map(|b| json!({"backend": b.backend, "args": b.args})).collect::<Vec<_>>(),
        "pairs": per_pair,
        "pairs_skipped_generation_failed": skipped,
        "distinct_outcomes": outcomes.len(),
        "distinct_outcome_classes_exit_uptodate_crlfonly": outcomes,
        "generate_then_check_fails_without_any_edit": gen_then_check_fails,
        "oracle": "`--check` exits 0 ⇔ really generating into a copy of the same directory changes no byte and creates no file; if every file such a generation would rewrite differs only by CR before LF (and is text) the message must mention line endings, if none differs only in line terminators (CRLF / final newline) it must not; names, bytes and mtimes of the checked directory (recursively, directories included) are identical before and after `--check`",
        "cli_build_s_not_part_of_the_budget": (build_s * 10.0).round() / 10.0,
        "exploration_s_after_the_cli_build": (t_explore.elapsed().as_secs_f64() * 10.0).round() / 10.0,
        "hash_seed": "every CLI process runs with the getrandom shim and VERIF_HASH_SEED=0, so MoonBit's seed-dependent output order (C15) cannot blur this check",
        "samples": samples.items,
    });
    let _ = std::fs::remove_dir_all(&tmp);
    run.finish(
        coverage,
        vec![
            "\"every file it would generate\" is read per directory state: the C++ generator emits `<class>.h.template` instead of `<class>.h` when the latter exists, so the expected verdict comes from a real generation into a copy of the same directory, not from the first generation's file list".into(),
            "all processes share hash seed 0 (LD_PRELOAD shim); nondeterminism across seeds is C15's subject".into(),
            "only the default option set of each backend is used (check mode is option-independent code in src/bin/wit-bindgen.rs)".into(),
            "a difference in the final newline only may be reported either as a line-ending difference (the CLI does) or as not up to date".into(),
        ],
    )
}
