//! C16 — generators never panic on valid worlds.
//!
//! Space: every WIT type constructor over every leaf (depth 1; thorough adds depth 2) at every
//! position of a world × sync/async × every backend × its option variants, plus the
//! tests/codegen corpus. Oracle: `Ok` or `Err`, never a panic/abort — except on the features
//! the repository declares unsupported for the backend (exclusions.rs).

use e7_gen::backends::{self, Bv, Wit};
use e7_gen::exclusions;
use e7_gen::universe::{self as uni, Pos, Ty};
use serde_json::{json, Value};
use std::collections::{BTreeMap, BTreeSet};
use vcommon::{catch, isolated, Outcome, Run};

struct WorldSpec {
    /// kind|inner|position|sync-or-async
    class: String,
    wit: Wit,
}

fn build_worlds(thorough: bool) -> (Vec<WorldSpec>, Value) {
    let mut ws = Vec::new();
    let u1 = if thorough { uni::u1() } else { uni::u1_quick() };
    let mut n_a = 0;
    let push = |ws: &mut Vec<WorldSpec>, t: &Ty, pos: Pos, is_async: bool, tag: &str| {
        ws.push(WorldSpec {
            class: format!(
                "{}{}|{}|{}|{}",
                tag,
                t.kind(),
                t.inner_kind(),
                pos.name(),
                if is_async { "async" } else { "sync" }
            ),
            wit: Wit::Text(uni::world_text(t, pos, is_async)),
        });
    };
    for t in &u1 {
        for pos in uni::POSITIONS {
            push(&mut ws, t, pos, false, "");
            if pos.has_async_form() {
                push(&mut ws, t, pos, true, "");
            }
            n_a += 1;
        }
    }
    // nested payload of option/list/result/future/stream
    let mut n_nested = 0;
    // quick: the payload is a constructor over {u8, string, own}; thorough: all of U1
    let nested_inner: Vec<Ty> = if thorough {
        u1.clone()
    } else {
        [Ty::Prim("u8"), Ty::Prim("string"), Ty::Own]
            .iter()
            .flat_map(|l| uni::apply_all(l, false))
            .chain([Ty::Enum(2), Ty::Flags(9)])
            .collect()
    };
    for t in &nested_inner {
        if t.depth() == 0 && !matches!(t, Ty::Enum(_) | Ty::Flags(_)) {
            continue; // wrapper(leaf) is already in U1
        }
        for w in uni::wrappers(t) {
            for pos in uni::CORE_POSITIONS {
                // param positions sync, result positions async in the quick tier; both in thorough
                let result_pos = matches!(pos, Pos::ImpResult | Pos::ExpResult);
                for is_async in [false, true] {
                    if !thorough && is_async != result_pos {
                        continue;
                    }
                    push(&mut ws, &w, pos, is_async, "nested:");
                    n_nested += 1;
                }
            }
        }
    }
    let mut n_u2 = 0;
    let mut u2_len = 0;
    if thorough {
        let u2 = uni::u2_only();
        u2_len = u2.len();
        for t in &u2 {
            for (pi, pos) in uni::POSITIONS.iter().enumerate() {
                push(&mut ws, t, *pos, false, "");
                // depth 2: `async func` at the eight plain function positions only
                if pi < 8 {
                    push(&mut ws, t, *pos, true, "");
                }
                n_u2 += 1;
            }
        }
    }
    let specials = uni::special_worlds();
    for (name, text) in &specials {
        ws.push(WorldSpec {
            class: format!("special:{name}|-|-|-"),
            wit: Wit::Text(text.clone()),
        });
    }
    let corpus = e7_gen::corpus();
    for p in &corpus {
        let rel = p
            .strip_prefix(&format!("{}/", vcommon::repo_root()))
            .unwrap_or(p);
        ws.push(WorldSpec {
            class: format!("corpus:{rel}|-|-|-"),
            wit: Wit::Path(p.clone()),
        });
    }
    let bounds = json!({
        "leaves": uni::leaves().iter().map(|t| t.kind()).collect::<Vec<_>>(),
        "leaves_below_constructors": if thorough { uni::leaves() } else { uni::leaves_quick() }.iter().map(|t| t.kind()).collect::<Vec<_>>(),
        "quick_tier_note": "quick: every leaf bare; every constructor over the 9 class-representative leaves; list/option over the other leaves; record/tuple/variant holding all 13 primitives; thorough: every constructor over every leaf, depth 2. Both tiers: rust variants other than the default run without --format (a pure post-processing step of the finished text)",
        "reduced_leaves_depth2": uni::leaves_reduced().iter().map(|t| t.kind()).collect::<Vec<_>>(),
        "constructors": uni::apply_all(&Ty::Prim("T"), true).iter().map(|t| t.kind()).chain(uni::nullary().iter().map(|t| t.kind())).collect::<BTreeSet<_>>(),
        "positions": uni::POSITIONS.iter().map(|p| p.name()).collect::<Vec<_>>(),
        "nested_payload_wrappers": ["option", "list", "result<T,_>", "future", "stream"],
        "depth": if thorough { 2 } else { 1 },
        "types_depth_le1": u1.len(),
        "types_depth2": u2_len,
        "type_x_position_pairs_depth_le1": n_a,
        "nested_payload_worlds": n_nested,
        "type_x_position_pairs_depth2": n_u2,
        "special_worlds": specials.len(),
        "corpus_entries": corpus.len(),
        "function_forms": ["func", "async func"],
    });
    (ws, bounds)
}

/// Outcome of one world in one process. `codes`: one char per backend-variant:
/// o = Ok, e = Err, p = panic (judged), O/E/P = same but the world uses an excluded feature.
fn run_world(spec: &WorldSpec, bvs: &[Bv]) -> Value {
    let t_start = std::time::Instant::now();
    let loaded = catch(|| backends::load(&spec.wit));
    let (resolve, world) = match loaded {
        Err(p) => return json!({"invalid": format!("wit-parser panicked: {p}")}),
        Ok(Err(m)) => return json!({"invalid": m}),
        Ok(Ok(x)) => x,
    };
    match catch(|| e7_gen::component_valid(&resolve, world)) {
        Err(p) => return json!({"invalid": format!("wit-component panicked: {p}")}),
        Ok(Err(m)) => return json!({"invalid": format!("component encoding invalid: {m}")}),
        Ok(Ok(())) => {}
    }
    let feats = exclusions::features(&resolve, world);
    let t_front = t_start.elapsed().as_micros() as u64;
    let mut codes = String::new();
    let mut panics = Vec::new();
    let mut errs = Vec::new();
    let mut t_us = Vec::new();
    for (bi, bv) in bvs.iter().enumerate() {
        let excl = exclusions::excluded(bv.backend, bv.variant, &feats);
        let t0 = std::time::Instant::now();
        let r = catch(|| backends::generate(&resolve, world, bv, None));
        t_us.push(t0.elapsed().as_micros() as u64);
        let c = match r {
            Ok(Ok(files)) => {
                if files.iter().all(|(_, b)| b.is_empty()) && bv.backend != "markdown" {
                    // an empty output set is suspicious but not a violation of this property
                }
                'o'
            }
            Ok(Err(m)) => {
                if m.starts_with("option parse:") || m.starts_with("unknown backend") {
                    vcommon::machinery(&format!("{}: {m}", bv.label()));
                }
                errs.push(json!([bi, m]));
                'e'
            }
            Err(p) => {
                panics.push(json!([bi, p, excl]));
                'p'
            }
        };
        codes.push(if excl.is_some() {
            c.to_ascii_uppercase()
        } else {
            c
        });
    }
    json!({"codes": codes, "panics": panics, "errs": errs, "feats": feats, "t_us": t_us, "t_front": t_front})
}

fn run_chunk(specs: &[WorldSpec], bvs: &[Bv]) -> Vec<Value> {
    let out = isolated(300_000, || {
        let v: Vec<Value> = specs.iter().map(|s| run_world(s, bvs)).collect();
        serde_json::to_vec(&v).unwrap()
    });
    if let Outcome::Ok(bytes) = &out {
        if let Ok(Value::Array(v)) = serde_json::from_slice::<Value>(bytes) {
            if v.len() == specs.len() {
                return v;
            }
        }
    }
    // Something killed the chunk (stack overflow, abort, hang): redo it one generation per process.
    specs
        .iter()
        .map(|s| {
            let probe = isolated(60_000, || {
                serde_json::to_vec(&run_world(s, &[])).unwrap()
            });
            let base: Value = match &probe {
                Outcome::Ok(b) => serde_json::from_slice(b).unwrap_or(Value::Null),
                o => return json!({"invalid": format!("front end died: {}", o.describe())}),
            };
            if base.get("invalid").is_some() {
                return base;
            }
            let mut codes = String::new();
            let mut panics = Vec::new();
            let mut errs = Vec::new();
            for (bi, bv) in bvs.iter().enumerate() {
                let one = isolated(60_000, || {
                    serde_json::to_vec(&run_world(s, std::slice::from_ref(bv))).unwrap()
                });
                match one {
                    Outcome::Ok(b) => {
                        let v: Value = serde_json::from_slice(&b).unwrap();
                        codes.push_str(v["codes"].as_str().unwrap_or("?"));
                        for p in v["panics"].as_array().into_iter().flatten() {
                            panics.push(json!([bi, p[1], p[2]]));
                        }
                        for e in v["errs"].as_array().into_iter().flatten() {
                            errs.push(json!([bi, e[1]]));
                        }
                    }
                    o => {
                        // crash / hang of a single generation: judged like a panic
                        let feats: BTreeSet<&'static str> = BTreeSet::new();
                        let _ = feats;
                        let excl = base["feats"]
                            .as_array()
                            .map(|a| {
                                let set: BTreeSet<&'static str> = exclusions::ROWS
                                    .iter()
                                    .map(|r| r.feature)
                                    .filter(|f| a.iter().any(|x| x.as_str() == Some(f)))
                                    .collect();
                                exclusions::excluded(bv.backend, bv.variant, &set)
                            })
                            .unwrap_or(None);
                        panics.push(json!([bi, format!("process died: {} @ :", o.describe()), excl]));
                        codes.push(if excl.is_some() { 'P' } else { 'p' });
                    }
                }
            }
            json!({"codes": codes, "panics": panics, "errs": errs, "feats": base["feats"]})
        })
        .collect()
}

fn wit_json(w: &Wit) -> Value {
    match w {
        Wit::Text(t) => json!({"wit_text": t}),
        Wit::Path(p) => json!({"wit_path_in_repo": p.strip_prefix(&format!("{}/", vcommon::repo_root())).unwrap_or(p)}),
    }
}

fn replay(run: &Run, d: Value) -> ! {
    let wit = if let Some(t) = d["wit_text"].as_str() {
        Wit::Text(t.to_string())
    } else {
        Wit::Path(format!(
            "{}/{}",
            vcommon::repo_root(),
            d["wit_path_in_repo"].as_str().unwrap_or("")
        ))
    };
    let label = d["backend_variant"].as_str().unwrap_or("");
    let bv = backends::bvs_format_once()
        .into_iter()
        .find(|b| b.label() == label)
        .unwrap_or_else(|| vcommon::machinery(&format!("replay: unknown backend {label}")));
    if let Wit::Text(t) = &wit {
        println!("--- WIT ---\n{t}-----------");
    }
    println!("backend {} args {:?}", bv.label(), bv.args);
    let spec = WorldSpec {
        class: String::new(),
        wit,
    };
    let out = isolated(60_000, || {
        serde_json::to_vec(&run_world(&spec, std::slice::from_ref(&bv))).unwrap()
    });
    let _ = run;
    match out {
        Outcome::Ok(b) => {
            let v: Value = serde_json::from_slice(&b).unwrap();
            println!("{}", serde_json::to_string_pretty(&v).unwrap());
            let code = v["codes"].as_str().unwrap_or("");
            if code == "p" {
                println!("REPLAY: still panics");
                std::process::exit(1)
            }
            println!("REPLAY: no judged panic (code {code:?})");
            std::process::exit(0)
        }
        o => {
            println!("REPLAY: generation process died: {}", o.describe());
            std::process::exit(1)
        }
    }
}

fn main() {
    let mut run = Run::from_args("C16", "exploration");
    vcommon::install_quiet_panic_hook();
    e7_gen::tune_malloc();
    if let Some(d) = run.replay_detail() {
        replay(&run, d);
    }
    let table = exclusions::verify_tables();
    let mut bvs = backends::bvs_format_once();
    let (mut worlds, bounds) = build_worlds(run.thorough());
    // debugging knobs (never used by ./check)
    if let Ok(only) = std::env::var("E7_ONLY") {
        bvs.retain(|b| only.split(',').any(|o| o == b.label()));
    }
    if let Ok(n) = std::env::var("E7_STRIDE") {
        let n: usize = n.parse().unwrap();
        let mut i = 0;
        worlds.retain(|_| {
            i += 1;
            i % n == 0
        });
    }
    let chunk = 48usize;
    let nchunks = worlds.len().div_ceil(chunk);
    let rot = (run.seed as usize) % nchunks.max(1);
    let results = vcommon::par_map(nchunks, vcommon::ncpu(), |i| {
        let ci = (i + rot) % nchunks;
        let lo = ci * chunk;
        let hi = (lo + chunk).min(worlds.len());
        json!([ci, run_chunk(&worlds[lo..hi], &bvs)])
    });
    let mut per_world: Vec<Value> = vec![Value::Null; worlds.len()];
    for r in results {
        let ci = r[0].as_u64().unwrap() as usize;
        for (k, v) in r[1].as_array().unwrap().iter().enumerate() {
            per_world[ci * chunk + k] = v.clone();
        }
    }

    // ---- aggregate ------------------------------------------------------------------------
    let mut invalid: BTreeMap<String, (usize, String)> = BTreeMap::new();
    let mut n_valid = 0usize;
    let mut n_invalid = 0usize;
    let mut per_bv: Vec<BTreeMap<char, usize>> = vec![BTreeMap::new(); bvs.len()];
    let mut err_classes: BTreeMap<String, (usize, String)> = BTreeMap::new();
    let mut tuples: BTreeSet<String> = BTreeSet::new();
    // key -> (count, judged, shortest wit index, raw panic, bv index)
    struct P {
        count: usize,
        wi: usize,
        len: usize,
        raw: String,
        bi: usize,
        excl: Option<String>,
    }
    let mut panics: BTreeMap<(bool, String), P> = BTreeMap::new();
    let mut evaluations = 0usize;
    let mut samples = vcommon::Samples::new(12);
    let mut worlds_with_excluded = 0usize;
    let mut cpu_us = vec![0u64; bvs.len()];
    let mut front_us = 0u64;
    let mut dump = std::env::var("E7_DUMP").ok().map(|p| std::fs::File::create(p).unwrap());
    for (wi, v) in per_world.iter().enumerate() {
        let spec = &worlds[wi];
        if let Some(f) = dump.as_mut() {
            use std::io::Write;
            writeln!(f, "{}\t{}", spec.class, v).ok();
        }
        front_us += v["t_front"].as_u64().unwrap_or(0);
        for (bi, t) in v["t_us"].as_array().into_iter().flatten().enumerate() {
            cpu_us[bi] += t.as_u64().unwrap_or(0);
        }
        if let Some(m) = v.get("invalid").and_then(|m| m.as_str()) {
            n_invalid += 1;
            if m.contains("panicked") || m.contains("died") {
                println!("note: front end failure on {}: {m}", spec.class);
            }
            let first = m.lines().next().unwrap_or("");
            let cls = e7_gen::normalise_msg(first);
            let e = invalid.entry(cls).or_insert((0, spec.class.clone()));
            e.0 += 1;
            continue;
        }
        n_valid += 1;
        let codes = v["codes"].as_str().unwrap_or("");
        if codes.len() != bvs.len() {
            vcommon::machinery(&format!("world {wi}: result has {} codes", codes.len()));
        }
        if codes.chars().any(|c| c.is_ascii_uppercase()) {
            worlds_with_excluded += 1;
        }
        for (bi, c) in codes.chars().enumerate() {
            evaluations += 1;
            *per_bv[bi].entry(c).or_insert(0) += 1;
            if c == 'o' {
                tuples.insert(format!("{}|{}", spec.class, bvs[bi].label()));
            }
        }
        for e in v["errs"].as_array().into_iter().flatten() {
            let bi = e[0].as_u64().unwrap() as usize;
            let cls = format!(
                "{}: {}",
                bvs[bi].backend,
                e7_gen::normalise_msg(e[1].as_str().unwrap_or("").lines().next().unwrap_or(""))
            );
            let ent = err_classes.entry(cls).or_insert((0, spec.class.clone()));
            ent.0 += 1;
        }
        for p in v["panics"].as_array().into_iter().flatten() {
            let bi = p[0].as_u64().unwrap() as usize;
            let raw = p[1].as_str().unwrap_or("").to_string();
            let excl = p[2].as_str().map(|s| s.to_string());
            let (key, _at) = e7_gen::panic_key(bvs[bi].backend, &raw);
            let len = match &spec.wit {
                Wit::Text(t) => t.len(),
                Wit::Path(_) => usize::MAX / 2,
            };
            let ent = panics.entry((excl.is_none(), key)).or_insert(P {
                count: 0,
                wi,
                len,
                raw: raw.clone(),
                bi,
                excl: excl.clone(),
            });
            ent.count += 1;
            if len < ent.len {
                ent.len = len;
                ent.wi = wi;
                ent.raw = raw;
                ent.bi = bi;
                ent.excl = excl;
            }
        }
        samples.offer(|| {
            json!({"world": spec.class, "wit": wit_json(&spec.wit), "outcomes_per_backend_variant": codes,
                   "features": v["feats"]})
        });
    }
    let mut judged_keys = Vec::new();
    let mut unjudged = Vec::new();
    for ((judged, key), p) in &panics {
        let spec = &worlds[p.wi];
        let (file, _msg, line) = e7_gen::split_panic(&p.raw);
        if *judged {
            judged_keys.push(json!({"key": key, "count": p.count, "at": format!("{file}:{line}"), "minimal_world": spec.class}));
            let mut detail = wit_json(&spec.wit);
            detail["backend_variant"] = json!(bvs[p.bi].label());
            detail["args"] = json!(bvs[p.bi].args);
            detail["panic"] = json!(p.raw);
            detail["world_class"] = json!(spec.class);
            detail["occurrences_in_this_run"] = json!(p.count);
            let what = format!(
                "`wit-bindgen {}` panics on a valid world: {} at {file}:{line} [{} occurrence(s); smallest: {}]{}",
                bvs[p.bi].label().replace(':', " variant "),
                p.raw.split(" @ ").next().unwrap_or(""),
                p.count,
                spec.class,
                match &spec.wit {
                    Wit::Text(t) => format!("\n{t}"),
                    Wit::Path(p) => format!(" {p}"),
                }
            );
            run.violation(key, &what, detail);
        } else {
            unjudged.push(json!({"key": key, "count": p.count, "at": format!("{file}:{line}"),
                "excluded_feature": p.excl, "example_world": spec.class}));
        }
    }
    if n_valid < worlds.len() / 3 {
        vcommon::machinery(&format!(
            "only {n_valid} of {} enumerated worlds are valid — enumerator broken",
            worlds.len()
        ));
    }
    let per_bv_json: BTreeMap<String, Value> = bvs
        .iter()
        .enumerate()
        .map(|(i, b)| {
            let g = |c: char| per_bv[i].get(&c).copied().unwrap_or(0);
            (
                b.label(),
                json!({"args": b.args, "cpu_ms": cpu_us[i] / 1000, "ok": g('o'), "err": g('e'), "panic_judged": g('p'),
                       "excluded_ok": g('O'), "excluded_err": g('E'), "excluded_panic": g('P')}),
            )
        })
        .collect();
    let mut top_invalid: Vec<_> = invalid.iter().collect();
    top_invalid.sort_by(|a, b| b.1 .0.cmp(&a.1 .0));
    let mut distinct_outcomes: BTreeSet<String> = BTreeSet::new();
    distinct_outcomes.insert("ok".into());
    for k in err_classes.keys() {
        distinct_outcomes.insert(format!("err {k}"));
    }
    for (j, k) in panics.keys() {
        distinct_outcomes.insert(format!("panic{} {k}", if *j { "" } else { " (excluded)" }));
    }
    let coverage = json!({
        "evaluations": evaluations,
        "distinct_nontrivial": tuples.len(),
        "rule": "distinct (outer constructor, inner constructor/leaf, position, sync/async, backend:variant) tuples (or corpus/special world × backend:variant) whose generation was judged and returned Ok; evaluations = valid worlds × backend variants (each one a real in-process generator run)",
        "exhaustive": true,
        "bounds": bounds,
        "worlds_enumerated": worlds.len(),
        "worlds_valid": n_valid,
        "worlds_dropped_invalid": n_invalid,
        "dropped_invalid_by_parser_message": top_invalid.iter().take(25).map(|(m, (c, ex))| json!({"message": m, "count": c, "example": ex})).collect::<Vec<_>>(),
        "validity": "wit-parser parse+resolve+select_world, then wit_component::encode + wasmparser validation (all proposals)",
        "backend_variants": per_bv_json,
        "front_end_ms_parse_validate_classify": front_us / 1000,
        "worlds_using_an_excluded_feature_for_some_backend": worlds_with_excluded,
        "exclusion_table": table,
        "panic_keys_judged": judged_keys,
        "panic_keys_in_excluded_combinations_not_judged": unjudged,
        "err_classes": err_classes.iter().map(|(k, (c, ex))| json!({"class": k, "count": c, "example": ex})).collect::<Vec<_>>(),
        "distinct_outcomes": distinct_outcomes.len(),
        "oracle": "each generation returns Ok or Err; a panic / abort / hang is a violation unless the world uses a feature the repository declares unsupported for that backend(:variant)",
        "samples": samples.items,
    });
    run.finish(
        coverage,
        vec![
            "validity is decided by wit-parser plus component encoding/validation, not by the generators".into(),
            "should_fail_verify exclusions (file names / test flags) are read as WIT features; where a row is ambiguous the wider reading is excluded (demanding less)".into(),
            "depth-2 types use the reduced leaf alphabet; names are plain (keyword/collision names belong to C09/C12/C31)".into(),
            "generators run in-process through the same clap-parsed Opts + build() as the CLI; external formatters (gofmt, clang-format) are not installed and not requested".into(),
        ],
    )
}
