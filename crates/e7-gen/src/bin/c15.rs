//! C15 — binding generation is deterministic across processes.
//!
//! Space: (composed worlds with several packages/interfaces/types + the tests/codegen corpus)
//! × every backend × its option variants × hash seeds 0..K-1, one *process* per (world, seed)
//! that runs every backend:variant in a fixed order (process creation is the dominant cost). The std `RandomState` keys of each child are owned by the
//! harness: an `LD_PRELOAD` shim (built at run time) answers `getrandom` from `VERIF_HASH_SEED`.
//! ASLR stays on. Oracle: outcome, file names and file bytes identical to the seed-0 run.

use e7_gen::backends::{self, Bv, Wit};
use e7_gen::shim;
use e7_gen::universe as uni;
use serde_json::{json, Value};
use std::collections::{BTreeMap, BTreeSet};
use std::path::{Path, PathBuf};
use std::process::Command;
use vcommon::Run;

// ------------------------------------------------------------------------------------------
// child

fn child(args: &[String]) -> ! {
    // --child <text|path> <wit file or path> <label,label,..> [--dump <dir>]
    use std::io::Write;
    println!("PROBE {}", shim::probe_fingerprint());
    if args.get(1).map(|s| s.as_str()) == Some("probe") {
        std::process::exit(0);
    }
    let kind = &args[1];
    let wit = if kind == "text" {
        Wit::Text(std::fs::read_to_string(&args[2]).expect("read wit"))
    } else {
        Wit::Path(args[2].clone())
    };
    let labels: Vec<&str> = args[3].split(',').collect();
    let dump = args
        .iter()
        .position(|a| a == "--dump")
        .map(|i| PathBuf::from(&args[i + 1]));
    vcommon::install_quiet_panic_hook();
    let all = backends::bvs_with_multi();
    // the front end runs once per process, like in the CLI
    let loaded = vcommon::catch(|| backends::load(&wit));
    if let Ok(Ok((resolve, world))) = &loaded {
        println!("WORLD {}", resolve.worlds[*world].name);
    }
    for label in labels {
        let bv = all
            .iter()
            .find(|b| b.label() == label)
            .expect("unknown backend variant");
        println!("BV {label}");
        let r = match &loaded {
            Err(p) => Err(p.clone()),
            Ok(Err(m)) => Ok(Err(m.clone())),
            Ok(Ok((resolve, world))) => vcommon::catch(|| backends::generate(resolve, *world, bv, None)),
        };
        match r {
            Err(p) => println!("STATUS panic {}", p.replace('\n', " ")),
            Ok(Err(m)) => println!("STATUS err {}", m.replace('\n', " ")),
            Ok(Ok(files)) => {
                println!("STATUS ok");
                for (name, bytes) in &files {
                    println!("FILE {:016x} {} {}", vcommon::fnv(bytes), bytes.len(), name);
                    if let Some(d) = &dump {
                        let sub = d.join(label.replace(':', "+"));
                        std::fs::create_dir_all(&sub).expect("dump dir");
                        std::fs::write(sub.join(name.replace('/', "__")), bytes).expect("dump");
                    }
                }
            }
        }
        std::io::stdout().flush().ok();
    }
    std::process::exit(0)
}

// ------------------------------------------------------------------------------------------
// parent

struct Ctx {
    exe: PathBuf,
    so: PathBuf,
    tmp: PathBuf,
}

fn run_child(ctx: &Ctx, seed: u64, args: &[String]) -> String {
    let mut cmd = Command::new(&ctx.exe);
    cmd.arg("--child").args(args);
    shim::seeded(&mut cmd, &ctx.so, seed);
    let out = cmd
        .output()
        .unwrap_or_else(|e| vcommon::machinery(&format!("cannot spawn child: {e}")));
    let mut text = String::from_utf8_lossy(&out.stdout).into_owned();
    if !out.status.success() {
        // the child catches panics itself; dying is an abort/stack overflow of a generator:
        // keep what was printed, the backend that was running gets STATUS died
        text.push_str(&format!("\nSTATUS died {:?}\n", out.status));
    }
    text
}

fn split_out(s: &str) -> (String, String) {
    let mut probe = String::new();
    let mut rest = String::new();
    for l in s.lines() {
        if let Some(p) = l.strip_prefix("PROBE ") {
            probe = p.to_string();
        } else {
            rest.push_str(l);
            rest.push('\n');
        }
    }
    (probe, rest)
}

/// child output → label → (status line + FILE lines)
fn per_label(s: &str) -> BTreeMap<String, String> {
    let mut m = BTreeMap::new();
    let mut cur: Option<String> = None;
    for l in s.lines() {
        if let Some(b) = l.strip_prefix("BV ") {
            cur = Some(b.to_string());
            m.insert(b.to_string(), String::new());
        } else if let Some(w) = l.strip_prefix("WORLD ") {
            m.insert("__world".to_string(), w.to_string());
        } else if l.starts_with("PROBE ") || l.is_empty() {
        } else if let Some(c) = &cur {
            let e: &mut String = m.get_mut(c).unwrap();
            e.push_str(l);
            e.push('\n');
        }
    }
    m
}

const KEYWORDS: &[&str] = &[
    "pub", "fn", "extern", "unsafe", "static", "const", "struct", "enum", "impl", "mod", "use",
    "type", "let", "func", "import", "package", "typedef", "void", "#include", "#define",
    "namespace", "class", "using", "public", "private", "internal", "interface", "alias",
    "template", "priv", "fnalias", "trait", "union", "var", "export", "async", "module",
    "#[derive", "#[allow", "#[doc", "#[unsafe", "#[repr", "#[cfg", "inline", "#ifdef", "#ifndef",
    "#endif", "return", "if", "match", "case", "suberror", "test", "partial", "abstract",
];

/// Names the construct a line starts: its leading keywords, `comment`, `closing-brace` …
fn construct_kind(line: &str) -> String {
    let t = line.trim_start();
    if t.is_empty() {
        return "blank-line".into();
    }
    if t.starts_with("//") || t.starts_with("/*") || t.starts_with('*') || t.starts_with("<!--") {
        return "comment".into();
    }
    if t.starts_with('}') || t.starts_with(')') || t.starts_with(']') {
        return "closing-bracket".into();
    }
    if t.starts_with('"') {
        return "string-literal/json-key".into();
    }
    if t.starts_with("- ") || t.starts_with('#') && t[1..].starts_with([' ', '#']) {
        return "markdown-item".into();
    }
    let mut words = Vec::new();
    for w in t.split_whitespace().take(4) {
        let w0: String = w
            .chars()
            .take_while(|c| c.is_ascii_alphanumeric() || *c == '#' || *c == '[' || *c == '_')
            .collect();
        if KEYWORDS.contains(&w0.as_str()) {
            words.push(w0.trim_start_matches("#[").to_string());
        } else {
            break;
        }
    }
    if words.is_empty() {
        "statement/expression".into()
    } else {
        words.join(" ")
    }
}

/// World-independent file name: the directory is dropped; a base name that is derived from the
/// world / package / interface names (contains the world name, or is a dotted C# path) becomes
/// `*.<ext>`, fixed names (`ffi.mbt`, `wit_bindings.go`, ..) are kept.
fn generic_name(name: &str, world: &str) -> String {
    let base = name.rsplit('/').next().unwrap_or(name);
    let norm = |s: &str| s.chars().filter(|c| c.is_ascii_alphanumeric()).collect::<String>().to_lowercase();
    let (stem, ext) = base.rsplit_once('.').unwrap_or((base, ""));
    let w = norm(world);
    if (!w.is_empty() && norm(stem).contains(&w)) || stem.contains('.') {
        format!("*.{ext}")
    } else {
        base.to_string()
    }
}

/// Run one seed with `--dump`: every backend's files land in `<dir>/<label>/`.
fn dump_run(ctx: &Ctx, job: &[String], seed: u64, dir: &Path) -> BTreeMap<String, String> {
    let _ = std::fs::remove_dir_all(dir);
    std::fs::create_dir_all(dir).unwrap();
    let mut a = job.to_vec();
    a.push("--dump".into());
    a.push(dir.to_string_lossy().into_owned());
    per_label(&run_child(ctx, seed, &a))
}

/// Describe the first difference between two dumped runs for one backend:variant.
fn describe_diff(
    label: &str,
    run0: &(PathBuf, BTreeMap<String, String>),
    run1: &(PathBuf, BTreeMap<String, String>),
) -> (String, Value) {
    let d0 = run0.0.join(label.replace(':', "+"));
    let d1 = run1.0.join(label.replace(':', "+"));
    let o0 = run0.1.get(label).cloned().unwrap_or_default();
    let o1 = run1.1.get(label).cloned().unwrap_or_default();
    let files = |o: &str| -> BTreeMap<String, String> {
        o.lines()
            .filter_map(|l| l.strip_prefix("FILE "))
            .filter_map(|l| {
                let mut it = l.splitn(3, ' ');
                let h = it.next()?;
                let _len = it.next()?;
                Some((it.next()?.to_string(), h.to_string()))
            })
            .collect()
    };
    let (f0, f1) = (files(&o0), files(&o1));
    let status = |o: &str| o.lines().find(|l| l.starts_with("STATUS")).unwrap_or("").to_string();
    let mut result = ("-:outcome".to_string(), json!({"seed0": status(&o0), "seed": status(&o1)}));
    if status(&o0) == status(&o1) {
        let names0: Vec<_> = f0.keys().collect();
        let names1: Vec<_> = f1.keys().collect();
        if names0 != names1 {
            let only0: Vec<_> = f0.keys().filter(|k| !f1.contains_key(*k)).collect();
            let only1: Vec<_> = f1.keys().filter(|k| !f0.contains_key(*k)).collect();
            result = (
                "-:file-set".into(),
                json!({"only_with_seed0": only0, "only_with_other_seed": only1}),
            );
        } else if let Some((name, _)) = f0.iter().find(|(n, h)| f1.get(*n) != Some(h)) {
            let read = |d: &Path| std::fs::read(d.join(name.replace('/', "__"))).unwrap_or_default();
            let (b0, b1) = (read(&d0), read(&d1));
            let (t0, t1) = (String::from_utf8_lossy(&b0), String::from_utf8_lossy(&b1));
            let l0: Vec<&str> = t0.lines().collect();
            let l1: Vec<&str> = t1.lines().collect();
            let i = l0
                .iter()
                .zip(l1.iter())
                .position(|(a, b)| a != b)
                .unwrap_or(l0.len().min(l1.len()));
            let mut s0: Vec<&str> = l0.clone();
            let mut s1: Vec<&str> = l1.clone();
            s0.sort();
            s1.sort();
            let how = if s0 == s1 { "order-of" } else { "content-of" };
            let line0 = l0.get(i).copied().unwrap_or("<end of file>");
            let line1 = l1.get(i).copied().unwrap_or("<end of file>");
            // an attribute line (`#owned(str)`, `#[inline]`, `@Foo`) belongs to the item below it
            let is_attr = |l: &str| {
                let t = l.trim_start();
                (t.starts_with("#[") || t.starts_with('@') || t.starts_with('#') && t[1..].starts_with(|c: char| c.is_ascii_lowercase()))
                    && !["#include", "#define", "#if", "#endif", "#else", "#pragma"].iter().any(|p| t.starts_with(p))
            };
            let item_line = l0[i.min(l0.len())..]
                .iter()
                .find(|l| !is_attr(l))
                .copied()
                .unwrap_or(line0);
            result = (
                format!("{}:{how}:{}", generic_name(name, run0.1.get("__world").map(|s| s.as_str()).unwrap_or("")), construct_kind(item_line)),
                json!({"file": name, "first_differing_line": i + 1, "seed0_line": line0, "other_seed_line": line1,
                       "same_lines_different_order": s0 == s1}),
            );
        } else {
            // the difference did not reproduce when re-run: address-dependent (ASLR) or racy
            result = ("-:not-reproduced-on-rerun".into(), json!({"seed0": o0, "seed": o1}));
        }
    }
    result
}

fn main() {
    let mut run = Run::from_args("C15", "exploration");
    if run.extra_args.first().map(|s| s.as_str()) == Some("--child") {
        let a = run.extra_args.clone();
        child(&a);
    }
    let exe = std::env::current_exe().unwrap_or_else(|e| vcommon::machinery(&format!("current_exe: {e}")));
    let tmp = std::env::temp_dir().join(format!("e7-c15-{}", std::process::id()));
    let _ = std::fs::remove_dir_all(&tmp);
    std::fs::create_dir_all(&tmp).unwrap_or_else(|e| vcommon::machinery(&format!("mkdir {tmp:?}: {e}")));
    let so = shim::build(&tmp);
    let ctx = Ctx { exe, so, tmp: tmp.clone() };
    let k: u64 = run.pick(8, 64);
    // the corpus worlds are many and mostly small: fewer seeds than the composed worlds
    let k_corpus: u64 = run.pick(4, 16);

    // ---- the seeds must really own the hash order ---------------------------------------
    let probe = |seed: u64| split_out(&run_child(&ctx, seed, &["probe".to_string()])).0;
    let p0 = probe(0);
    let p0b = probe(0);
    let others: BTreeSet<String> = (1..k).map(probe).collect();
    let unseeded = {
        // without the shim two processes almost surely disagree — shows the probe is sensitive
        let o = |_: u32| {
            String::from_utf8_lossy(&Command::new(&ctx.exe).args(["--child", "probe"]).output().unwrap().stdout).into_owned()
        };
        (o(0), o(1))
    };
    if p0.is_empty() || p0 != p0b {
        vcommon::machinery(&format!("getrandom interposition does not take effect: seed 0 gave {p0:?} then {p0b:?}"));
    }
    if others.len() < (k as usize - 1) / 2 || others.contains(&p0) && others.len() == 1 {
        vcommon::machinery(&format!("getrandom interposition does not take effect: seeds 1..{k} gave only {} distinct HashSet orders", others.len()));
    }

    // ---- replay --------------------------------------------------------------------------
    if let Some(d) = run.replay_detail() {
        let job: Vec<String> = d["child_args"].as_array().unwrap().iter().map(|x| x.as_str().unwrap().to_string()).collect();
        let mut job = job;
        if job[0] == "text" {
            let p = tmp.join("replay.wit");
            std::fs::write(&p, d["wit_text"].as_str().unwrap()).unwrap();
            job[1] = p.to_string_lossy().into_owned();
        } else {
            job[1] = format!("{}/{}", vcommon::repo_root(), d["wit_path_in_repo"].as_str().unwrap());
        }
        let seed = d["seed"].as_u64().unwrap();
        let label = d["backend_variant"].as_str().unwrap().to_string();
        let r0 = (tmp.join("replay-0"), dump_run(&ctx, &job, 0, &tmp.join("replay-0")));
        let r1 = (tmp.join("replay-s"), dump_run(&ctx, &job, seed, &tmp.join("replay-s")));
        let (kind, info) = if r0.1.get(&label) == r1.1.get(&label) {
            ("-:not-reproduced-on-rerun".to_string(), json!({}))
        } else {
            describe_diff(&label, &r0, &r1)
        };
        println!("seed 0 vs seed {seed}: {kind}\n{}", serde_json::to_string_pretty(&info).unwrap());
        let _ = std::fs::remove_dir_all(&tmp);
        std::process::exit(if kind == "-:not-reproduced-on-rerun" { 0 } else { 1 })
    }

    // ---- worlds --------------------------------------------------------------------------
    let mut worlds: Vec<(String, Vec<String>, Value)> = Vec::new(); // (label, child args prefix, replay info)
    let per_flavour = run.pick(4usize, 12);
    let mut composed_ok = 0;
    for fl in uni::FLAVOURS {
        for j in 0..per_flavour {
            let text = uni::rich_world(fl, j);
            let valid = backends::load(&Wit::Text(text.clone()))
                .and_then(|(r, w)| e7_gen::component_valid(&r, w));
            if valid.is_err() {
                continue;
            }
            composed_ok += 1;
            let p = tmp.join(format!("w-{}-{j}.wit", fl.name()));
            std::fs::write(&p, &text).unwrap();
            worlds.push((
                format!("composed:{}:{j}", fl.name()),
                vec!["text".into(), p.to_string_lossy().into_owned()],
                json!({"wit_text": text}),
            ));
        }
    }
    if composed_ok < uni::FLAVOURS.len() * per_flavour * 4 / 5 {
        vcommon::machinery(&format!("only {composed_ok} composed worlds are valid"));
    }
    let corpus = e7_gen::corpus();
    for p in &corpus {
        let rel = p.strip_prefix(&format!("{}/", vcommon::repo_root())).unwrap_or(p).to_string();
        worlds.push((
            format!("corpus:{rel}"),
            vec!["path".into(), p.clone()],
            json!({"wit_path_in_repo": rel}),
        ));
    }
    let bvs: Vec<Bv> = backends::bvs_with_multi();
    let all_labels = bvs.iter().map(|b| b.label()).collect::<Vec<_>>().join(",");
    let rot = (run.seed as usize) % worlds.len();

    // ---- run: one process per (world, seed); it runs every backend:variant in a fixed order
    let per_world = vcommon::par_map(worlds.len(), vcommon::ncpu(), |i| {
        let wi = (i + rot) % worlds.len();
        let mut args = worlds[wi].1.clone();
        args.push(all_labels.clone());
        let mut procs = 0u64;
        let mut run_seed = |seed: u64| -> BTreeMap<String, String> {
            procs += 1;
            let mut m = per_label(&run_child(&ctx, seed, &args));
            // a backend that killed the process hides the ones after it: run those alone
            for b in &bvs {
                let l = b.label();
                let missing = m.get(&l).map(|t| t.is_empty() || t.contains("STATUS died")).unwrap_or(true);
                if missing {
                    let mut a = worlds[wi].1.clone();
                    a.push(l.clone());
                    procs += 1;
                    let one = per_label(&run_child(&ctx, seed, &a));
                    m.insert(l.clone(), one.get(&l).cloned().unwrap_or_else(|| "STATUS died\n".into()));
                }
            }
            m
        };
        let base = run_seed(0);
        let kw = if worlds[wi].0.starts_with("corpus:") { k_corpus } else { k };
        let others: Vec<(u64, BTreeMap<String, String>)> = (1..kw).map(|s| (s, run_seed(s))).collect();
        let mut out = Vec::new();
        let mut dumps: BTreeMap<u64, (PathBuf, BTreeMap<String, String>)> = BTreeMap::new();
        for (bi, b) in bvs.iter().enumerate() {
            let l = b.label();
            let b0 = base.get(&l).cloned().unwrap_or_default();
            let status0 = b0.lines().next().unwrap_or("").to_string();
            let nfiles = b0.lines().filter(|x| x.starts_with("FILE ")).count();
            let mut differing = Vec::new();
            if status0 == "STATUS ok" {
                for (s, m) in &others {
                    if m.get(&l) != Some(&b0) {
                        differing.push(*s);
                    }
                }
            }
            let mut diff = Value::Null;
            if let Some(seed) = differing.first() {
                for s in [0, *seed] {
                    if !dumps.contains_key(&s) {
                        let d = ctx.tmp.join(format!("dump-{wi}-{s}"));
                        let m = dump_run(&ctx, &args, s, &d);
                        procs += 1;
                        dumps.insert(s, (d, m));
                    }
                }
                let (kind, info) = if dumps[&0].1.get(&l) == dumps[seed].1.get(&l) {
                    ("-:not-reproduced-on-rerun".to_string(), json!({"seed0": b0}))
                } else {
                    describe_diff(&l, &dumps[&0], &dumps[seed])
                };
                diff = json!({"kind": kind, "info": info, "seed": seed});
            }
            out.push(json!({"w": wi, "b": bi, "status0": status0, "files": nfiles,
                   "differing_seeds": differing, "diff": diff,
                   "out_hash": format!("{:016x}", vcommon::fnv(b0.as_bytes()))}));
        }
        for (_, (d, _)) in dumps {
            let _ = std::fs::remove_dir_all(d);
        }
        json!({"procs": procs, "rows": out})
    });
    let mut results: Vec<Value> = Vec::new();
    let mut evaluations = 0u64;
    let mut generations = 0u64;
    for w in &per_world {
        evaluations += w["procs"].as_u64().unwrap();
        for r in w["rows"].as_array().unwrap() {
            results.push(r.clone());
        }
    }

    // ---- aggregate -----------------------------------------------------------------------
    let mut compared = 0usize;
    let mut not_generated: BTreeMap<String, usize> = BTreeMap::new();
    let mut distinct_outputs: BTreeSet<String> = BTreeSet::new();
    let mut samples = vcommon::Samples::new(10);
    let mut per_bv: BTreeMap<String, (usize, usize)> = BTreeMap::new();
    struct V { count: usize, what: String, detail: Value, size: usize }
    let mut viol: BTreeMap<String, V> = BTreeMap::new();
    for r in &results {
        let (wi, bi) = (r["w"].as_u64().unwrap() as usize, r["b"].as_u64().unwrap() as usize);
        let label = bvs[bi].label();
        let st = r["status0"].as_str().unwrap_or("");
        let e = per_bv.entry(label.clone()).or_insert((0, 0));
        if st.starts_with("STATUS err option parse") || st.starts_with("STATUS err unknown backend") {
            vcommon::machinery(&format!("{label} on {}: {st}", worlds[wi].0));
        }
        if st != "STATUS ok" {
            *not_generated.entry(format!("{label}: {}", e7_gen::normalise_msg(&st.chars().take(90).collect::<String>()))).or_insert(0) += 1;
            continue;
        }
        compared += 1;
        generations += if worlds[wi].0.starts_with("corpus:") { k_corpus } else { k };
        e.0 += 1;
        distinct_outputs.insert(format!("{label}|{}", r["out_hash"].as_str().unwrap()));
        samples.offer(|| json!({"world": worlds[wi].0, "backend_variant": label, "files": r["files"], "seeds_compared": if worlds[wi].0.starts_with("corpus:") { k_corpus } else { k }, "differing_seeds": r["differing_seeds"]}));
        if !r["diff"].is_null() {
            e.1 += 1;
            let key = format!("{label}:{}", r["diff"]["kind"].as_str().unwrap());
            let mut args = worlds[wi].1.clone();
            args.push(all_labels.clone());
            let mut detail = worlds[wi].2.clone();
            detail["child_args"] = json!(args);
            detail["backend_variant"] = json!(label);
            detail["seed"] = r["diff"]["seed"].clone();
            detail["differing_seeds"] = r["differing_seeds"].clone();
            detail["difference"] = r["diff"]["info"].clone();
            let size = worlds[wi].2["wit_text"].as_str().map(|t| t.len()).unwrap_or(1 << 20);
            let what = format!(
                "`wit-bindgen {}` on {} produces different output in processes with hash seed 0 and seed {} ({} of {} other seeds differ): {}",
                label.replace(':', " variant "), worlds[wi].0, r["diff"]["seed"], r["differing_seeds"].as_array().unwrap().len(), if worlds[wi].0.starts_with("corpus:") { k_corpus } else { k } - 1, r["diff"]["info"]
            );
            let v = viol.entry(key).or_insert(V { count: 0, what: what.clone(), detail: detail.clone(), size });
            v.count += 1;
            if size < v.size {
                v.size = size;
                v.what = what;
                v.detail = detail;
            }
        }
    }
    let mut keys = Vec::new();
    for (key, v) in &viol {
        if key.ends_with("-:not-reproduced-on-rerun") {
            // still a difference between two processes; reported, key names the phenomenon
        }
        keys.push(json!({"key": key, "world_x_variant_pairs": v.count}));
        let mut d = v.detail.clone();
        d["pairs_with_this_key"] = json!(v.count);
        run.violation(key, &v.what, d);
    }
    if compared < 200 {
        vcommon::machinery(&format!("only {compared} (world, backend) pairs generated successfully"));
    }
    let coverage = json!({
        "evaluations": generations,
        "processes": evaluations,
        "distinct_nontrivial": distinct_outputs.len(),
        "rule": "distinct (backend:variant, hash of all generated file names+bytes at seed 0) pairs among the (world, backend:variant) pairs that generated successfully and were compared across all K seeds; evaluations = real generations compared (pairs × K); processes = child processes, one per (world, seed), each running every backend:variant in the same fixed order",
        "exhaustive": true,
        "seeds_K": k,
        "seeds_K_for_corpus_worlds": k_corpus,
        "seed_alphabet": "VERIF_HASH_SEED = 0..K-1 → splitmix64 stream returned by the interposed getrandom(); ASLR on",
        "interposition_probe": {"seed0_twice_same_order": p0 == p0b, "distinct_HashSet_orders_among_seeds_1_to_K-1": others.len(),
                                 "two_unseeded_processes_differ": unseeded.0 != unseeded.1},
        "worlds": worlds.len(),
        "composed_worlds": composed_ok,
        "composed_world_shape": "3 packages, 7 interfaces x (4 typedefs + 5 resources + 4-8 functions), 3 world-level typedefs, 6 world-level functions, 4 imports + 3 exports; 5 feature flavours",
        "corpus_entries": corpus.len(),
        "backend_variants": bvs.len(),
        "configurations": bvs.iter().map(|b| json!({"label": b.label(), "args": b.args, "plus_world_derived_values_for_multi_valued_options": b.dynamic})).collect::<Vec<_>>(),
        "multi_variants": "rust: 4 additional derives, 3 derive-ignore, 4 type attributes and 4 member attributes on each of <=3 types, 3 --with, 3 --skip, 3 --async directives, --type-section-suffix; c: 3 --rename, 3 --async directives, --type-section-suffix; cpp: 3 --with; go, moonbit: 3 --async directives; d: 3 --required-d-versions, --type-section-suffix (csharp and markdown have no list-valued options)",
        "pairs_compared_across_all_seeds": compared,
        "pairs_not_generated_at_seed0_skipped": not_generated,
        "per_backend_variant_compared_and_differing": per_bv.iter().map(|(k, v)| (k.clone(), json!({"compared": v.0, "differing": v.1}))).collect::<BTreeMap<_, _>>(),
        "violation_keys": keys,
        "distinct_outcomes": distinct_outputs.len() + viol.len(),
        "oracle": "status, file names and file bytes of every seed's process identical to the seed-0 process",
        "samples": samples.items,
    });
    let _ = std::fs::remove_dir_all(&tmp);
    run.finish(
        coverage,
        vec![
            "K seeds is a bounded alphabet of hash-iteration orders, not all of them; a map with n keys has n! orders".into(),
            "only std RandomState (and everything else that calls getrandom) is owned by the seed; hashers seeded from addresses vary with ASLR, which is left on and would show up as a difference too".into(),
            "pairs whose seed-0 generation returns Err or panics (unsupported features, see C16) are skipped and counted".into(),
            "go runs with --format=false (gofmt is not installed; the default only tries to spawn it)".into(),
            "rust --format is applied on the default variant only (it post-processes the finished text and is 3/4 of the Rust generator's cost)".into(),
        ],
    )
}
