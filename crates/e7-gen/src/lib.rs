//! E7 — checks that run the real generators: C16 (no panic on valid worlds), C15 (determinism
//! across processes with harness-owned hash seeds), C33 (CLI `--check` mode).

pub mod backends;
pub mod exclusions;
pub mod shim;
pub mod universe;

use wit_parser::{Resolve, WorldId};

/// "Valid world" = accepted by wit-parser (parse + resolve + world selection, done by
/// `backends::load`) *and* encodable as a component-model WIT package that passes the
/// wasmparser validator with every proposal enabled. The second half drops inputs such as
/// `flags` with more than 32 members or `stream<borrow<..>>` that wit-parser alone lets through.
pub fn component_valid(resolve: &Resolve, world: WorldId) -> Result<(), String> {
    let pkg = resolve.worlds[world]
        .package
        .ok_or_else(|| "world without package".to_string())?;
    let bytes = wit_component::encode(resolve, pkg).map_err(|e| format!("{e:#}"))?;
    let mut v = wasmparser::Validator::new_with_features(wasmparser::WasmFeatures::all());
    v.validate_all(&bytes).map_err(|e| format!("{e:#}"))?;
    Ok(())
}

/// `message @ /abs/path/file.rs:LINE` → (`repo-relative file`, `normalised message`, line)
pub fn split_panic(p: &str) -> (String, String, String) {
    let (msg, loc) = match p.rfind(" @ ") {
        Some(i) => (&p[..i], &p[i + 3..]),
        None => (p, ""),
    };
    let (file, line) = match loc.rfind(':') {
        Some(i) => (&loc[..i], &loc[i + 1..]),
        None => (loc, ""),
    };
    let root = vcommon::repo_root();
    let file = if let Some(rest) = file.strip_prefix(&format!("{root}/")) {
        rest.to_string()
    } else if let Some(i) = file.find("/registry/src/") {
        // third-party crate: registry/<crate-version>/<path>
        let rest = &file[i + "/registry/src/".len()..];
        let rest = rest.split_once('/').map(|x| x.1).unwrap_or(rest);
        format!("registry:{rest}")
    } else if let Some(i) = file.find("/library/") {
        format!("std:{}", &file[i + 1..])
    } else {
        file.to_string()
    };
    (file, normalise_msg(msg), line.to_string())
}

/// digits → N, whitespace collapsed, at most 100 characters: one defect = one key.
pub fn normalise_msg(m: &str) -> String {
    let mut out = String::new();
    let mut last_digit = false;
    let mut last_space = false;
    for c in m.chars() {
        if c.is_ascii_digit() {
            if !last_digit {
                out.push('N');
            }
            last_digit = true;
            last_space = false;
        } else if c.is_whitespace() {
            if !last_space {
                out.push(' ');
            }
            last_space = true;
            last_digit = false;
        } else {
            out.push(c);
            last_digit = false;
            last_space = false;
        }
    }
    let out = out.trim().to_string();
    if out.chars().count() > 100 {
        out.chars().take(100).collect()
    } else {
        out
    }
}

/// The tests/codegen corpus: every `*.wit` file and every directory, sorted.
pub fn corpus() -> Vec<String> {
    let dir = format!("{}/tests/codegen", vcommon::repo_root());
    let mut v: Vec<String> = std::fs::read_dir(&dir)
        .unwrap_or_else(|e| vcommon::machinery(&format!("cannot read {dir}: {e}")))
        .filter_map(|e| e.ok())
        .map(|e| e.path())
        .filter(|p| p.is_dir() || p.extension().map(|x| x == "wit").unwrap_or(false))
        .map(|p| p.to_string_lossy().into_owned())
        .collect();
    v.sort();
    if v.len() < 50 {
        vcommon::machinery(&format!("corpus {dir} has only {} entries", v.len()));
    }
    v
}
