//! E7 — checks that run the real generators: C16 (no panic on valid worlds), C15 (determinism
//! across processes with harness-owned hash seeds), C33 (CLI `--check` mode).

pub mod backends;
pub mod exclusions;
pub mod shim;
pub mod universe;

use wit_parser::{Resolve, WorldId};

/// Keep glibc malloc from returning memory to the kernel after every generation (the
/// mmap/munmap + page-fault churn was half of the run time).
pub fn tune_malloc() {
    unsafe {
        libc::mallopt(libc::M_MMAP_THRESHOLD, 1 << 30);
        libc::mallopt(libc::M_TRIM_THRESHOLD, 1 << 30);
        libc::mallopt(libc::M_TOP_PAD, 64 << 20);
    }
}

/// "Valid world" = accepted by wit-parser (parse + resolve + world selection, done by
/// `backends::load`) *and* encodable as a component-model WIT package that passes the
/// wasmparser validator with every proposal enabled. The second half drops inputs such as
/// `flags` with more than 32 members or `stream<borrow<..>>` that wit-parser alone lets through.
pub fn component_valid(resolve: &Resolve, world: WorldId) -> Result<(), String> {
    // The component-model explainer forbids `borrow` inside the element type of a `future` /
    // `stream`; wit-parser and wasmparser 0.257 let it through. Such worlds are treated as
    // not valid (dropped and counted) rather than judged.
    for (_, def) in resolve.types.iter() {
        if let wit_parser::TypeDefKind::Future(Some(p)) | wit_parser::TypeDefKind::Stream(Some(p)) =
            &def.kind
        {
            if contains_borrow(resolve, p, 0) {
                return Err("`borrow` inside the element type of a future/stream (disallowed by the component-model spec; the validators are lenient)".into());
            }
        }
    }
    let pkg = resolve.worlds[world]
        .package
        .ok_or_else(|| "world without package".to_string())?;
    let bytes = wit_component::encode(resolve, pkg).map_err(|e| format!("{e:#}"))?;
    let mut v = wasmparser::Validator::new_with_features(wasmparser::WasmFeatures::all());
    v.validate_all(&bytes).map_err(|e| format!("{e:#}"))?;
    Ok(())
}

fn contains_borrow(resolve: &Resolve, ty: &wit_parser::Type, depth: usize) -> bool {
    use wit_parser::{Handle, Type, TypeDefKind as K};
    let Type::Id(id) = ty else { return false };
    if depth > 64 {
        return false;
    }
    let rec = |t: &Type| contains_borrow(resolve, t, depth + 1);
    match &resolve.types[*id].kind {
        K::Handle(Handle::Borrow(_)) => true,
        K::Record(r) => r.fields.iter().any(|f| rec(&f.ty)),
        K::Tuple(t) => t.types.iter().any(rec),
        K::Variant(v) => v.cases.iter().any(|c| c.ty.as_ref().map(&rec).unwrap_or(false)),
        K::Option(t) | K::List(t) | K::FixedLengthList(t, _) | K::Type(t) => rec(t),
        K::Map(k, v) => rec(k) || rec(v),
        K::Result(r) => {
            r.ok.as_ref().map(&rec).unwrap_or(false) || r.err.as_ref().map(&rec).unwrap_or(false)
        }
        K::Future(t) | K::Stream(t) => t.as_ref().map(&rec).unwrap_or(false),
        _ => false,
    }
}

/// Name of the function enclosing `line` of the source file `abs` (nearest preceding `fn name`),
/// so that two `todo!()` in one file are two keys while line shifts do not change a key.
pub fn enclosing_fn(abs: &str, line: &str) -> Option<String> {
    let n: usize = line.parse().ok()?;
    let src = std::fs::read_to_string(abs).ok()?;
    let lines: Vec<&str> = src.lines().collect();
    for l in lines[..n.min(lines.len())].iter().rev() {
        if let Some(i) = l.find("fn ") {
            let before_ok = i == 0 || !l[..i].chars().last().map(|c| c.is_alphanumeric() || c == '_').unwrap_or(false);
            let name: String = l[i + 3..]
                .chars()
                .take_while(|c| c.is_alphanumeric() || *c == '_')
                .collect();
            if before_ok && !name.is_empty() && !l.trim_start().starts_with("//") {
                return Some(name);
            }
        }
    }
    None
}

/// Violation key of a panic: `<backend>:<repo-relative file>#<enclosing fn>:<normalised message>`.
pub fn panic_key(backend: &str, raw: &str) -> (String, String) {
    let (file, msg, line) = split_panic(raw);
    let abs = raw.rfind(" @ ").map(|i| &raw[i + 3..]).unwrap_or("");
    let abs = abs.rfind(':').map(|i| &abs[..i]).unwrap_or(abs);
    thread_local! {
        static CACHE: std::cell::RefCell<std::collections::HashMap<(String, String), String>> = Default::default();
    }
    let f = CACHE.with(|c| {
        c.borrow_mut()
            .entry((abs.to_string(), line.clone()))
            .or_insert_with(|| enclosing_fn(abs, &line).map(|f| format!("#{f}")).unwrap_or_default())
            .clone()
    });
    (format!("{backend}:{file}{f}:{msg}"), format!("{file}:{line}"))
}

/// `message @ /abs/path/file.rs:LINE` → (`repo-relative file`, `normalised message`, line)
pub fn split_panic(p: &str) -> (String, String, String) {
    let (msg, loc) = match p.rfind(" @ ") {
        Some(i) => (&p[..i], &p[i + 3..]),
        None => (p, ""),
    };
    let (file, line) = match loc.rfind(':') {
        Some(i) => (&loc[..i], &loc[i + 1..]),
        None => (loc, ""),
    };
    let root = vcommon::repo_root();
    let file = if let Some(rest) = file.strip_prefix(&format!("{root}/")) {
        rest.to_string()
    } else if let Some(i) = file.find("/registry/src/") {
        // third-party crate: registry/<crate-version>/<path>
        let rest = &file[i + "/registry/src/".len()..];
        let rest = rest.split_once('/').map(|x| x.1).unwrap_or(rest);
        format!("registry:{rest}")
    } else if let Some(i) = file.find("/library/") {
        format!("std:{}", &file[i + 1..])
    } else {
        file.to_string()
    };
    (file, normalise_msg(msg), line.to_string())
}

/// digits → N, whitespace collapsed, Debug-printed values cut after their type name
/// (`FixedLengthListLift { element: .. }` → `FixedLengthListLift`), at most 100 characters:
/// one defect = one key.
pub fn normalise_msg(m: &str) -> String {
    let m = cut_debug(m);
    let m = m.as_str();
    let mut out = String::new();
    let mut last_digit = false;
    let mut last_space = false;
    for c in m.chars() {
        if c.is_ascii_digit() {
            if !last_digit {
                out.push('N');
            }
            last_digit = true;
            last_space = false;
        } else if c.is_whitespace() {
            if !last_space {
                out.push(' ');
            }
            last_space = true;
            last_digit = false;
        } else {
            out.push(c);
            last_digit = false;
            last_space = false;
        }
    }
    let out = out.trim().to_string();
    if out.chars().count() > 100 {
        out.chars().take(100).collect()
    } else {
        out
    }
}

/// Cut at the first `(` or ` {` that directly follows a CamelCase identifier.
fn cut_debug(m: &str) -> String {
    let b: Vec<char> = m.chars().collect();
    let mut i = 0;
    while i < b.len() {
        if b[i].is_ascii_uppercase() && (i == 0 || !(b[i - 1].is_alphanumeric() || b[i - 1] == '_' || b[i - 1] == ':')) {
            let mut j = i;
            while j < b.len() && (b[j].is_ascii_alphanumeric() || b[j] == '_') {
                j += 1;
            }
            let has_lower = b[i..j].iter().any(|c| c.is_ascii_lowercase());
            let brace = j + 1 < b.len() && b[j] == ' ' && b[j + 1] == '{';
            if has_lower && j < b.len() && (b[j] == '(' || brace) {
                return b[..j].iter().collect();
            }
            i = j.max(i + 1);
        } else {
            i += 1;
        }
    }
    m.to_string()
}

/// The tests/codegen corpus, sorted.
pub fn corpus() -> Vec<String> {
    let dir = format!("{}/tests/codegen", vcommon::repo_root());
    let mut v: Vec<String> = std::fs::read_dir(&dir)
        .unwrap_or_else(|e| vcommon::machinery(&format!("cannot read {dir}: {e}")))
        .filter_map(|e| e.ok())
        .map(|e| e.path())
        // like crates/test: `*.wit` files, and `<dir>/wit` for directories that have one
        // (the wasi-* directories are unpopulated submodules and are skipped there too)
        .filter_map(|p| {
            if p.is_dir() {
                let w = p.join("wit");
                w.is_dir().then_some(w)
            } else {
                p.extension().map(|x| x == "wit").unwrap_or(false).then_some(p)
            }
        })
        .map(|p| p.to_string_lossy().into_owned())
        .collect();
    v.sort();
    if v.len() < 50 {
        vcommon::machinery(&format!("corpus {dir} has only {} entries", v.len()));
    }
    v
}
