//! Deterministic enumerator of WIT types (every constructor over every leaf, depth 1 / depth 2)
//! and of the positions a type can occupy in a world. No randomness; the order is fixed.

#[derive(Clone, Debug, PartialEq, Eq, Hash)]
pub enum Ty {
    /// bool u8 … string, error-context
    Prim(&'static str),
    /// own / borrow of the resource `res` that is in scope at the position (imported when the
    /// position is an import or world level, exported when the enclosing interface is exported)
    Own,
    Borrow,
    List(Box<Ty>),
    Fll(Box<Ty>, u32),
    Map(Box<Ty>, Box<Ty>),
    Opt(Box<Ty>),
    Res(Option<Box<Ty>>, Option<Box<Ty>>),
    Tuple(Vec<Ty>),
    Future(Option<Box<Ty>>),
    Stream(Option<Box<Ty>>),
    Record(Vec<Ty>),
    Variant(Vec<Option<Ty>>),
    Enum(usize),
    Flags(usize),
}

fn b(t: &Ty) -> Box<Ty> {
    Box::new(t.clone())
}

impl Ty {
    pub fn kind(&self) -> String {
        match self {
            Ty::Prim(p) => p.to_string(),
            Ty::Own => "own".into(),
            Ty::Borrow => "borrow".into(),
            Ty::List(_) => "list".into(),
            Ty::Fll(_, n) => format!("fixed-list{n}"),
            Ty::Map(k, _) => format!("map<{}>", k.kind()),
            Ty::Opt(_) => "option".into(),
            Ty::Res(a, e) => format!(
                "result<{},{}>",
                if a.is_some() { "T" } else { "_" },
                if e.is_some() { "E" } else { "_" }
            ),
            Ty::Tuple(v) => format!("tuple{}", v.len()),
            Ty::Future(p) => if p.is_some() { "future<T>" } else { "future" }.into(),
            Ty::Stream(p) => if p.is_some() { "stream<T>" } else { "stream" }.into(),
            Ty::Record(v) => format!("record{}", v.len()),
            Ty::Variant(v) => format!("variant{}", v.len()),
            Ty::Enum(n) => format!("enum{n}"),
            Ty::Flags(n) => format!("flags{n}"),
        }
    }

    fn children(&self) -> Vec<&Ty> {
        match self {
            Ty::Prim(_) | Ty::Own | Ty::Borrow | Ty::Enum(_) | Ty::Flags(_) => vec![],
            Ty::List(t) | Ty::Fll(t, _) | Ty::Opt(t) => vec![t],
            Ty::Map(k, v) => vec![k, v],
            Ty::Res(a, e) => a.iter().chain(e.iter()).map(|x| &**x).collect(),
            Ty::Future(p) | Ty::Stream(p) => p.iter().map(|x| &**x).collect(),
            Ty::Tuple(v) | Ty::Record(v) => v.iter().collect(),
            Ty::Variant(v) => v.iter().flatten().collect(),
        }
    }

    /// kind of the first payload (the "inner" constructor), "-" for leaves
    pub fn inner_kind(&self) -> String {
        self.children()
            .first()
            .map(|c| c.kind())
            .unwrap_or_else(|| "-".into())
    }

    pub fn uses_handle(&self) -> bool {
        matches!(self, Ty::Own | Ty::Borrow) || self.children().iter().any(|c| c.uses_handle())
    }

    pub fn uses_borrow(&self) -> bool {
        matches!(self, Ty::Borrow) || self.children().iter().any(|c| c.uses_borrow())
    }

    pub fn depth(&self) -> usize {
        self.children()
            .iter()
            .map(|c| 1 + c.depth())
            .max()
            .unwrap_or(0)
    }
}

/// Renders a type expression; named types (record/variant/enum/flags) are appended to `decls`.
pub struct Render {
    pub decls: Vec<String>,
    n: usize,
}

impl Render {
    pub fn new() -> Self {
        Render {
            decls: vec![],
            n: 0,
        }
    }
    fn fresh(&mut self, p: &str) -> String {
        let s = format!("{p}{}", self.n);
        self.n += 1;
        s
    }
    pub fn ty(&mut self, t: &Ty) -> String {
        match t {
            Ty::Prim(p) => p.to_string(),
            Ty::Own => "own<res>".into(),
            Ty::Borrow => "borrow<res>".into(),
            Ty::List(t) => format!("list<{}>", self.ty(t)),
            Ty::Fll(t, n) => format!("list<{}, {n}>", self.ty(t)),
            Ty::Map(k, v) => format!("map<{}, {}>", self.ty(k), self.ty(v)),
            Ty::Opt(t) => format!("option<{}>", self.ty(t)),
            Ty::Res(None, None) => "result".into(),
            Ty::Res(Some(a), None) => format!("result<{}>", self.ty(a)),
            Ty::Res(None, Some(e)) => format!("result<_, {}>", self.ty(e)),
            Ty::Res(Some(a), Some(e)) => format!("result<{}, {}>", self.ty(a), self.ty(e)),
            Ty::Tuple(v) => {
                let parts: Vec<_> = v.iter().map(|t| self.ty(t)).collect();
                format!("tuple<{}>", parts.join(", "))
            }
            Ty::Future(None) => "future".into(),
            Ty::Future(Some(t)) => format!("future<{}>", self.ty(t)),
            Ty::Stream(None) => "stream".into(),
            Ty::Stream(Some(t)) => format!("stream<{}>", self.ty(t)),
            Ty::Record(v) => {
                let parts: Vec<_> = v
                    .iter()
                    .enumerate()
                    .map(|(i, t)| format!("f{i}: {}", self.ty(t)))
                    .collect();
                let name = self.fresh("rec");
                self.decls
                    .push(format!("record {name} {{ {} }}", parts.join(", ")));
                name
            }
            Ty::Variant(v) => {
                let parts: Vec<_> = v
                    .iter()
                    .enumerate()
                    .map(|(i, t)| match t {
                        Some(t) => format!("c{i}({})", self.ty(t)),
                        None => format!("c{i}"),
                    })
                    .collect();
                let name = self.fresh("var");
                self.decls
                    .push(format!("variant {name} {{ {} }}", parts.join(", ")));
                name
            }
            Ty::Enum(n) => {
                let parts: Vec<_> = (0..*n).map(|i| format!("e{i}")).collect();
                let name = self.fresh("enu");
                self.decls
                    .push(format!("enum {name} {{ {} }}", parts.join(", ")));
                name
            }
            Ty::Flags(n) => {
                let parts: Vec<_> = (0..*n).map(|i| format!("b{i}")).collect();
                let name = self.fresh("flg");
                self.decls
                    .push(format!("flags {name} {{ {} }}", parts.join(", ")));
                name
            }
        }
    }
}

pub const PRIMS: [&str; 13] = [
    "bool", "u8", "s8", "u16", "s16", "u32", "s32", "u64", "s64", "f32", "f64", "char", "string",
];

/// Leaf alphabet L: the 13 primitives, error-context, own/borrow of the scope resource.
pub fn leaves() -> Vec<Ty> {
    let mut v: Vec<Ty> = PRIMS.iter().map(|p| Ty::Prim(p)).collect();
    v.push(Ty::Prim("error-context"));
    v.push(Ty::Own);
    v.push(Ty::Borrow);
    v
}

/// Reduced leaf alphabet used below the top constructor at depth 2.
pub fn leaves_reduced() -> Vec<Ty> {
    vec![
        Ty::Prim("u8"),
        Ty::Prim("f64"),
        Ty::Prim("string"),
        Ty::Prim("error-context"),
        Ty::Own,
        Ty::Borrow,
    ]
}

/// Payload-free types: enum sizes around the discriminant-width steps, flags around the
/// 8/16/32 representation steps (33+ is rejected by the validity filter and counted).
pub fn nullary() -> Vec<Ty> {
    let mut v = vec![Ty::Enum(1), Ty::Enum(2), Ty::Enum(256), Ty::Enum(257)];
    for n in [1, 8, 9, 16, 17, 32, 33] {
        v.push(Ty::Flags(n));
    }
    v.push(Ty::Future(None));
    v.push(Ty::Stream(None));
    v.push(Ty::Res(None, None));
    v
}

/// Every one-hole constructor applied to `t` (the constructor alphabet K).
pub fn apply_all(t: &Ty, full: bool) -> Vec<Ty> {
    let s = Ty::Prim("string");
    let u = Ty::Prim("u32");
    let mut v = vec![
        Ty::List(b(t)),
        Ty::Fll(b(t), 3),
        Ty::Opt(b(t)),
        Ty::Res(Some(b(t)), None),
        Ty::Res(None, Some(b(t))),
        Ty::Res(Some(b(t)), Some(b(&s))),
        Ty::Tuple(vec![t.clone()]),
        Ty::Tuple(vec![t.clone(), Ty::Prim("u8")]),
        Ty::Record(vec![t.clone()]),
        Ty::Record(vec![Ty::Prim("u8"), t.clone(), Ty::Prim("u8")]),
        Ty::Variant(vec![Some(t.clone()), None]),
        Ty::Future(Some(b(t))),
        Ty::Stream(Some(b(t))),
        // value position of a map
        Ty::Map(b(&s), b(t)),
        // key position of a map (non-key types are dropped by the validity filter and counted)
        Ty::Map(b(t), b(&u)),
    ];
    if full {
        v.push(Ty::Fll(b(t), 1));
        v.push(Ty::Res(Some(b(&u)), Some(b(t))));
        v.push(Ty::Variant(vec![None, Some(t.clone()), Some(Ty::Prim("f64"))]));
        v.push(Ty::Map(b(&u), b(t)));
    }
    v
}

/// U1: leaves, payload-free types and every constructor over every leaf.
pub fn u1() -> Vec<Ty> {
    let mut v = leaves();
    v.extend(nullary());
    for l in leaves() {
        v.extend(apply_all(&l, true));
    }
    dedup(v)
}

/// The quick tier's U1: every leaf bare, every constructor over the 9 class-representative
/// leaves, `list`/`option` over the remaining leaves, and three aggregates holding all 13
/// primitives at once (so that every primitive occurs below every aggregate kind).
pub fn u1_quick() -> Vec<Ty> {
    let mut v = leaves();
    v.extend(nullary());
    let rep = leaves_quick();
    for l in &rep {
        v.extend(apply_all(l, false));
    }
    for l in leaves() {
        if !rep.contains(&l) {
            v.push(Ty::List(b(&l)));
            v.push(Ty::Opt(b(&l)));
        }
    }
    let prims: Vec<Ty> = PRIMS.iter().map(|p| Ty::Prim(p)).collect();
    v.push(Ty::Record(prims.clone()));
    v.push(Ty::Tuple(prims.clone()));
    v.push(Ty::Variant(prims.iter().cloned().map(Some).collect()));
    dedup(v)
}

/// One representative per primitive class + error-context + both handles.
pub fn leaves_quick() -> Vec<Ty> {
    vec![
        Ty::Prim("bool"),
        Ty::Prim("u8"),
        Ty::Prim("u64"),
        Ty::Prim("f32"),
        Ty::Prim("char"),
        Ty::Prim("string"),
        Ty::Prim("error-context"),
        Ty::Own,
        Ty::Borrow,
    ]
}

/// U2 \ U1: every constructor over (every constructor over the reduced leaves + payload-free types).
pub fn u2_only() -> Vec<Ty> {
    let mut inner = Vec::new();
    for l in leaves_reduced() {
        inner.extend(apply_all(&l, false));
    }
    inner.extend([
        Ty::Enum(2),
        Ty::Flags(9),
        Ty::Future(None),
        Ty::Stream(None),
        Ty::Res(None, None),
    ]);
    let inner = dedup(inner);
    let mut v = Vec::new();
    for i in &inner {
        v.extend(apply_all(i, false));
    }
    dedup(v)
}

fn dedup(v: Vec<Ty>) -> Vec<Ty> {
    let mut seen = std::collections::HashSet::new();
    v.into_iter().filter(|t| seen.insert(t.clone())).collect()
}

/// The five "nested payload" wrappers of the position list.
pub fn wrappers(t: &Ty) -> Vec<Ty> {
    vec![
        Ty::Opt(b(t)),
        Ty::List(b(t)),
        Ty::Res(Some(b(t)), None),
        Ty::Future(Some(b(t))),
        Ty::Stream(Some(b(t))),
    ]
}

#[derive(Clone, Copy, Debug, PartialEq, Eq, Hash)]
pub enum Pos {
    /// function of an imported / exported interface
    ImpParam,
    ImpResult,
    ExpParam,
    ExpResult,
    /// freestanding world-level function (named types become world-level typedefs)
    WorldImpParam,
    WorldImpResult,
    WorldExpParam,
    WorldExpResult,
    /// `type t = T` in an interface that is imported / exported / both / never used by a function
    TypedefImp,
    TypedefExp,
    TypedefBoth,
    TypedefUnused,
    /// `type t = T` at world level, used by an imported and an exported function
    TypedefWorld,
    /// `type t = T` in interface `a`, `use a.{t}` in exported interface `b`
    TypedefUseExp,
    /// `import x: i;` named import of a declared interface whose function takes T
    NamedImport,
    /// constructor / method / static of an imported / exported resource
    ResImpParam,
    ResImpResult,
    ResExpParam,
    ResExpResult,
}

pub const POSITIONS: [Pos; 19] = [
    Pos::ImpParam,
    Pos::ImpResult,
    Pos::ExpParam,
    Pos::ExpResult,
    Pos::WorldImpParam,
    Pos::WorldImpResult,
    Pos::WorldExpParam,
    Pos::WorldExpResult,
    Pos::TypedefImp,
    Pos::TypedefExp,
    Pos::TypedefBoth,
    Pos::TypedefUnused,
    Pos::TypedefWorld,
    Pos::TypedefUseExp,
    Pos::NamedImport,
    Pos::ResImpParam,
    Pos::ResImpResult,
    Pos::ResExpParam,
    Pos::ResExpResult,
];

/// The positions used for the "nested payload" dimension in the quick tier.
pub const CORE_POSITIONS: [Pos; 4] = [Pos::ImpParam, Pos::ImpResult, Pos::ExpParam, Pos::ExpResult];

impl Pos {
    pub fn name(self) -> &'static str {
        match self {
            Pos::ImpParam => "import-param",
            Pos::ImpResult => "import-result",
            Pos::ExpParam => "export-param",
            Pos::ExpResult => "export-result",
            Pos::WorldImpParam => "world-import-param",
            Pos::WorldImpResult => "world-import-result",
            Pos::WorldExpParam => "world-export-param",
            Pos::WorldExpResult => "world-export-result",
            Pos::TypedefImp => "typedef-imported-iface",
            Pos::TypedefExp => "typedef-exported-iface",
            Pos::TypedefBoth => "typedef-imported+exported-iface",
            Pos::TypedefUnused => "typedef-unused",
            Pos::TypedefWorld => "typedef-world-level",
            Pos::TypedefUseExp => "typedef-used-across-ifaces",
            Pos::NamedImport => "named-interface-import",
            Pos::ResImpParam => "imported-resource-ctor/method/static-param",
            Pos::ResImpResult => "imported-resource-method/static-result",
            Pos::ResExpParam => "exported-resource-ctor/method/static-param",
            Pos::ResExpResult => "exported-resource-method/static-result",
        }
    }
    /// Does the position have a function whose `async`-ness can be toggled?
    pub fn has_async_form(self) -> bool {
        !matches!(self, Pos::TypedefUnused)
    }
}

/// WIT text of the world that places `t` at `pos` (combinations WIT does not allow, e.g. a
/// `borrow` in a result, are rejected — and counted — by the validity filter, not here).
pub fn world_text(t: &Ty, pos: Pos, is_async: bool) -> String {
    let mut r = Render::new();
    let te = r.ty(t);
    let decls = r.decls;
    let func = if is_async { "async func" } else { "func" };
    let res_decl = if t.uses_handle() {
        vec!["resource res;".to_string()]
    } else {
        vec![]
    };
    let iface = |name: &str, items: Vec<String>| -> String {
        let mut s = format!("interface {name} {{\n");
        for d in res_decl.iter().chain(decls.iter()).chain(items.iter()) {
            s.push_str("  ");
            s.push_str(d);
            if !d.ends_with('}') && !d.ends_with(';') {
                s.push(';');
            }
            s.push('\n');
        }
        s.push_str("}\n");
        s
    };
    let mut out = String::from("package t:c;\n\n");
    match pos {
        Pos::ImpParam | Pos::ExpParam | Pos::ImpResult | Pos::ExpResult | Pos::NamedImport => {
            let f = if matches!(pos, Pos::ImpResult | Pos::ExpResult) {
                format!("f: {func}() -> {te};")
            } else {
                format!("f: {func}(x: {te});")
            };
            out.push_str(&iface("i", vec![f]));
            let w = match pos {
                Pos::ImpParam | Pos::ImpResult => "import i;",
                Pos::NamedImport => "import x: i;",
                _ => "export i;",
            };
            out.push_str(&format!("\nworld w {{\n  {w}\n}}\n"));
        }
        Pos::WorldImpParam | Pos::WorldImpResult | Pos::WorldExpParam | Pos::WorldExpResult => {
            let mut body = Vec::new();
            if t.uses_handle() {
                out.push_str("interface ri {\n  resource res;\n}\n\n");
                body.push("use ri.{res};".to_string());
            }
            for d in &decls {
                body.push(d.clone());
            }
            let dir = if matches!(pos, Pos::WorldImpParam | Pos::WorldImpResult) {
                "import"
            } else {
                "export"
            };
            if matches!(pos, Pos::WorldImpResult | Pos::WorldExpResult) {
                body.push(format!("{dir} f: {func}() -> {te};"));
            } else {
                body.push(format!("{dir} f: {func}(x: {te});"));
            }
            out.push_str("world w {\n");
            for l in body {
                out.push_str(&format!("  {l}\n"));
            }
            out.push_str("}\n");
        }
        Pos::TypedefImp | Pos::TypedefExp | Pos::TypedefBoth | Pos::TypedefUnused => {
            let mut items = vec![format!("type t = {te};")];
            if pos != Pos::TypedefUnused {
                items.push(format!("f: {func}(x: t);"));
                if !t.uses_borrow() {
                    items.push(format!("g: {func}() -> t;"));
                }
            }
            out.push_str(&iface("i", items));
            let w = match pos {
                Pos::TypedefImp | Pos::TypedefUnused => "import i;",
                Pos::TypedefExp => "export i;",
                _ => "import i;\n  export i;",
            };
            out.push_str(&format!("\nworld w {{\n  {w}\n}}\n"));
        }
        Pos::TypedefWorld => {
            out.push_str("world w {\n");
            if t.uses_handle() {
                out.push_str("  resource res;\n");
            }
            for d in &decls {
                out.push_str(&format!("  {d}\n"));
            }
            out.push_str(&format!("  type t = {te};\n"));
            out.push_str(&format!("  import f: {func}(x: t);\n"));
            out.push_str(&format!("  export g: {func}(x: t);\n"));
            if !t.uses_borrow() {
                out.push_str(&format!("  export h: {func}() -> t;\n"));
            }
            out.push_str("}\n");
        }
        Pos::TypedefUseExp => {
            out.push_str(&iface("a", vec![format!("type t = {te};")]));
            out.push_str("\ninterface b {\n  use a.{t};\n");
            out.push_str(&format!("  f: {func}(x: t);\n"));
            if !t.uses_borrow() {
                out.push_str(&format!("  g: {func}() -> t;\n"));
            }
            out.push_str("}\n\nworld w {\n  export b;\n}\n");
        }
        Pos::ResImpParam | Pos::ResExpParam | Pos::ResImpResult | Pos::ResExpResult => {
            let body = if matches!(pos, Pos::ResImpParam | Pos::ResExpParam) {
                format!(
                    "resource thing {{\n    constructor(x: {te});\n    m: {func}(x: {te});\n    s: static {func}(x: {te});\n  }}"
                )
            } else {
                format!(
                    "resource thing {{\n    m: {func}() -> {te};\n    s: static {func}() -> {te};\n  }}"
                )
            };
            out.push_str(&iface("i", vec![body]));
            let w = if matches!(pos, Pos::ResImpParam | Pos::ResImpResult) {
                "import i;"
            } else {
                "export i;"
            };
            out.push_str(&format!("\nworld w {{\n  {w}\n}}\n"));
        }
    }
    out
}

/// A handful of worlds that are not "one type at one position": the shapes named in the
/// repository's exclusions (so that the exclusion rows are exercised and counted) and a few
/// structural corner cases.
pub fn special_worlds() -> Vec<(&'static str, String)> {
    vec![
        ("empty-world", "package t:c;\n\nworld w {\n}\n".into()),
        (
            "fallible-constructor",
            "package t:c;\n\ninterface i {\n  resource thing {\n    constructor(s: string) -> result<thing, string>;\n  }\n}\n\nworld w {\n  import i;\n  export i;\n}\n".into(),
        ),
        (
            "same-resource-imported-and-exported",
            "package t:c;\n\ninterface i {\n  resource thing {\n    constructor();\n    m: func() -> u32;\n  }\n  f: func(x: borrow<thing>) -> own<thing>;\n}\n\nworld w {\n  import i;\n  export i;\n}\n".into(),
        ),
        (
            "variant-case-named-like-variant",
            "package t:c;\n\ninterface i {\n  variant v {\n    v,\n  }\n  f: func(x: v);\n}\n\nworld w {\n  export i;\n}\n".into(),
        ),
        (
            "export-stream-of-used-record",
            "package t:c;\n\ninterface a {\n  record r {\n    x: u32,\n  }\n}\n\nworld w {\n  use a.{r};\n  export f: func(p: stream<r>);\n}\n".into(),
        ),
        (
            "export-async-future-result-of-used-record",
            "package t:c;\n\ninterface a {\n  record r {\n    x: u32,\n  }\n}\n\nworld w {\n  use a.{r};\n  export f: async func() -> future<result<r, string>>;\n}\n".into(),
        ),
        (
            "same-interface-imported-twice-by-name",
            "package t:c;\n\ninterface s {\n  resource bucket {\n    open: static func(id: string) -> result<bucket, string>;\n  }\n}\n\nworld w {\n  import primary: s;\n  import secondary: s;\n  import s;\n}\n".into(),
        ),
        (
            "resource-own-self-and-borrow-self",
            "package t:c;\n\ninterface i {\n  resource thing {\n    constructor();\n    merge: func(other: borrow<thing>) -> own<thing>;\n    take: static func(a: own<thing>, b: list<own<thing>>) -> option<thing>;\n  }\n}\n\nworld w {\n  import i;\n  export i;\n}\n".into(),
        ),
        (
            "many-params-17",
            format!(
                "package t:c;\n\nworld w {{\n  import f: func({});\n  export g: func({}) -> tuple<u64, f64, string>;\n}}\n",
                (0..17).map(|i| format!("p{i}: u32")).collect::<Vec<_>>().join(", "),
                (0..17).map(|i| format!("p{i}: f64")).collect::<Vec<_>>().join(", ")
            ),
        ),
        (
            "inline-interfaces",
            "package t:c;\n\nworld w {\n  import x: interface {\n    record r { a: u8 }\n    f: func(x: r) -> list<r>;\n  }\n  export y: interface {\n    enum e { a, b }\n    g: func(x: e) -> option<e>;\n  }\n}\n".into(),
        ),
        (
            "versioned-packages",
            "package t:c@1.2.3;\n\ninterface i {\n  type t = u32;\n  f: func(x: t) -> t;\n}\n\nworld w {\n  import i;\n  export i;\n}\n".into(),
        ),
    ]
}

// ------------------------------------------------------------------------------------------
// C15: composed worlds with several packages / interfaces / types, so that every map a
// generator keeps (interfaces, types, packages, resources, futures/streams) holds >= 3 keys.

#[derive(Clone, Copy, Debug, PartialEq, Eq)]
pub enum Flavour {
    Base,
    Async,
    Map,
    Fll,
    ErrorContext,
}

pub const FLAVOURS: [Flavour; 5] = [
    Flavour::Base,
    Flavour::Async,
    Flavour::Map,
    Flavour::Fll,
    Flavour::ErrorContext,
];

impl Flavour {
    pub fn name(self) -> &'static str {
        match self {
            Flavour::Base => "base",
            Flavour::Async => "async",
            Flavour::Map => "map",
            Flavour::Fll => "fixed-length-list",
            Flavour::ErrorContext => "error-context",
        }
    }
}

fn mentions(t: &Ty, p: &dyn Fn(&Ty) -> bool) -> bool {
    p(t) || t.children().iter().any(|c| mentions(c, p))
}

/// Types (depth <= 2) a flavour may use: the base pool never contains async/map/fll/error-context
/// types, every other flavour adds exactly its own feature.
pub fn pool(fl: Flavour) -> Vec<Ty> {
    let mut all = Vec::new();
    let leaves = [
        Ty::Prim("u8"),
        Ty::Prim("u64"),
        Ty::Prim("f32"),
        Ty::Prim("string"),
        Ty::Prim("char"),
        Ty::Prim("bool"),
        Ty::Own,
        Ty::Borrow,
        Ty::Prim("error-context"),
    ];
    for l in &leaves {
        for t in apply_all(l, false) {
            all.push(t.clone());
        }
    }
    all.extend([Ty::Enum(3), Ty::Flags(9), Ty::Flags(3), Ty::Enum(2)]);
    // a few depth-2 shapes
    for l in [Ty::Prim("string"), Ty::Prim("u64"), Ty::Own] {
        for inner in [Ty::List(b(&l)), Ty::Opt(b(&l)), Ty::Record(vec![l.clone(), Ty::Prim("u8")])] {
            for t in apply_all(&inner, false) {
                all.push(t);
            }
        }
    }
    let is_async = |t: &Ty| matches!(t, Ty::Future(_) | Ty::Stream(_));
    let is_map = |t: &Ty| matches!(t, Ty::Map(..));
    let is_fll = |t: &Ty| matches!(t, Ty::Fll(..));
    let is_ec = |t: &Ty| matches!(t, Ty::Prim("error-context"));
    let borrow_in_async = |t: &Ty| {
        mentions(t, &|x| {
            matches!(x, Ty::Future(_) | Ty::Stream(_)) && x.uses_borrow()
        })
    };
    let bad_key = |t: &Ty| {
        mentions(t, &|x| match x {
            Ty::Map(k, _) => !matches!(**k, Ty::Prim("u8" | "u64" | "string" | "char" | "bool" | "u32")),
            _ => false,
        })
    };
    let bad_stream = |t: &Ty| mentions(t, &|x| matches!(x, Ty::Stream(Some(p)) if **p == Ty::Prim("char")));
    let v: Vec<Ty> = dedup(all)
        .into_iter()
        .filter(|t| !borrow_in_async(t) && !bad_key(t) && !bad_stream(t))
        .filter(|t| {
            let a = mentions(t, &is_async);
            let m = mentions(t, &is_map);
            let f = mentions(t, &is_fll);
            let e = mentions(t, &is_ec);
            match fl {
                Flavour::Base => !a && !m && !f && !e,
                Flavour::Async => !m && !f && !e,
                Flavour::Map => !a && !f && !e,
                Flavour::Fll => !a && !m && !e,
                Flavour::ErrorContext => !m && !f,
            }
        })
        .collect();
    // put the flavour's own types first so that every world of the flavour has some
    let own: Vec<Ty> = v
        .iter()
        .filter(|t| match fl {
            Flavour::Base => false,
            Flavour::Async => mentions(t, &is_async),
            Flavour::Map => mentions(t, &is_map),
            Flavour::Fll => mentions(t, &is_fll),
            Flavour::ErrorContext => mentions(t, &is_ec),
        })
        .cloned()
        .collect();
    let rest: Vec<Ty> = v.iter().filter(|t| !own.contains(t)).cloned().collect();
    // interleave: own, rest, rest, own, rest, rest ...
    let mut out = Vec::new();
    let (mut i, mut j) = (0, 0);
    while i < own.len() || j < rest.len() {
        if i < own.len() {
            out.push(own[i].clone());
            i += 1;
        }
        for _ in 0..2 {
            if j < rest.len() {
                out.push(rest[j].clone());
                j += 1;
            }
        }
    }
    out
}

/// World number `j` of a flavour: 2 dependency packages + main package, 6 interfaces with 4
/// types and one resource each, world-level typedefs and functions, imports and exports.
pub fn rich_world(fl: Flavour, j: usize) -> String {
    let pool = pool(fl);
    let with_async_funcs = fl == Flavour::Async || fl == Flavour::ErrorContext;
    let mut next = j * 23;
    let mut take = |n: usize| -> Vec<Ty> {
        let v: Vec<Ty> = (0..n).map(|k| pool[(next + k) % pool.len()].clone()).collect();
        next += n;
        v
    };
    let iface = |name: &str, tys: &[Ty], uses: &str, k: usize| -> String {
        let mut r = Render::new();
        let exprs: Vec<String> = tys.iter().map(|t| r.ty(t)).collect();
        let mut s = format!("  interface {name} {{\n");
        if !uses.is_empty() {
            s.push_str(&format!("    {uses}\n"));
        }
        s.push_str("    resource res {\n      constructor(a: u32);\n      get: func() -> u32;\n      make: static func(a: string) -> res;\n    }\n");
        // several resources in one interface: the order of their export traits must not depend on hashing
        for extra in ["res-b", "res-c", "res-d", "res-e"] {
            s.push_str(&format!("    resource {extra} {{\n      constructor();\n      poke: func();\n    }}\n"));
        }
        for d in &r.decls {
            s.push_str(&format!("    {d}\n"));
        }
        for (n, (t, e)) in tys.iter().zip(&exprs).enumerate() {
            s.push_str(&format!("    type t{n} = {e};\n"));
            let func = if with_async_funcs && (n + k) % 2 == 0 { "async func" } else { "func" };
            if t.uses_borrow() {
                s.push_str(&format!("    f{n}: {func}(a: t{n}, b: {e});\n"));
            } else {
                s.push_str(&format!("    f{n}: {func}(a: t{n}, b: {e}) -> t{n};\n"));
                s.push_str(&format!("    g{n}: {func}() -> {e};\n"));
            }
        }
        s.push_str("  }\n");
        s
    };
    let strip = |s: String| -> String {
        // top-level items of the main package are not nested: drop two spaces of indentation
        s.lines().map(|l| l.strip_prefix("  ").unwrap_or(l)).collect::<Vec<_>>().join("\n") + "\n"
    };
    let mut out = format!("package t:main{j};\n\n");
    out.push_str(&strip(iface("alpha", &take(4), "", 0)));
    out.push_str(&strip(iface("beta", &take(4), "", 1)));
    out.push_str(&strip(iface("gamma", &take(4), "use alpha.{t0 as alpha-t0};", 2)));
    out.push_str(&strip(iface("delta", &take(4), "use beta.{t1 as beta-t1};", 3)));
    let wt = take(3);
    let mut r = Render::new();
    let exprs: Vec<String> = wt.iter().map(|t| r.ty(t)).collect();
    out.push_str("world w {\n");
    out.push_str("  import alpha;\n  import beta;\n  import t:dep-a/types;\n  import t:dep-b/types;\n");
    out.push_str("  export gamma;\n  export delta;\n  export t:dep-b/more;\n");
    out.push_str("  use alpha.{t1 as a-t1};\n  use t:dep-a/types.{t2 as d-t2};\n");
    if wt.iter().any(|t| t.uses_handle()) {
        out.push_str("  use alpha.{res};\n");
    }
    for d in &r.decls {
        out.push_str(&format!("  {d}\n"));
    }
    for (n, (t, e)) in wt.iter().zip(&exprs).enumerate() {
        out.push_str(&format!("  type wt{n} = {e};\n"));
        let func = if with_async_funcs && n == 1 { "async func" } else { "func" };
        out.push_str(&format!("  import wi{n}: {func}(a: wt{n}, b: a-t1);\n"));
        if t.uses_borrow() {
            out.push_str(&format!("  export we{n}: {func}(a: wt{n}, c: d-t2);\n"));
        } else {
            out.push_str(&format!("  export we{n}: {func}(a: wt{n}, c: d-t2) -> {e};\n"));
        }
    }
    out.push_str("}\n\n");
    out.push_str("package t:dep-a {\n");
    out.push_str(&iface("types", &take(4), "", 4));
    out.push_str("}\n\npackage t:dep-b {\n");
    out.push_str(&iface("types", &take(4), "", 5));
    out.push_str(&iface("more", &take(4), "use types.{t3 as types-t3};", 6));
    out.push_str("}\n");
    out
}
