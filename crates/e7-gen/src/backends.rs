//! The eight real generators, built in-process from CLI-style argument lists exactly the way
//! `src/bin/wit-bindgen.rs` builds them (clap-parsed `Opts` + `.build()`), and the table of
//! option variants exercised by the repository's own codegen tests
//! (`crates/test/src/<lang>.rs`: `default_bindgen_args`, `default_bindgen_args_for_codegen`,
//! `codegen_test_variants`).

use std::path::PathBuf;
use wit_bindgen_core::{Files, WorldGenerator};
use wit_parser::{Resolve, WorldId};

#[derive(Clone, Debug)]
pub struct Bv {
    pub backend: &'static str,
    /// "" for the default configuration
    pub variant: &'static str,
    pub args: Vec<&'static str>,
}

impl Bv {
    pub fn label(&self) -> String {
        if self.variant.is_empty() {
            self.backend.to_string()
        } else {
            format!("{}:{}", self.backend, self.variant)
        }
    }
}

pub const BACKENDS: [&str; 8] = [
    "rust", "c", "cpp", "csharp", "go", "moonbit", "d", "markdown",
];

/// (backend, args always passed by the codegen tests, [(variant name, extra args)])
/// — transcribed from crates/test/src/<lang>.rs; `verify_tables()` in `exclusions.rs` fails
/// the run (exit 2) when those functions change.
fn table() -> Vec<(&'static str, Vec<&'static str>, Vec<(&'static str, Vec<&'static str>)>)> {
    vec![
        (
            "rust",
            // default_bindgen_args + default_bindgen_args_for_codegen (rust.rs:111-117)
            vec!["--generate-all", "--format", "--stubs"],
            vec![
                ("borrowed", vec!["--ownership=borrowing"]),
                (
                    "borrowed-duplicate",
                    vec!["--ownership=borrowing-duplicate-if-necessary"],
                ),
                ("async", vec!["--async=all"]),
                ("no-std", vec!["--std-feature"]),
                ("merge-equal", vec!["--merge-structurally-equal-types"]),
                ("hashmap", vec!["--map-type=std::collections::HashMap"]),
            ],
        ),
        (
            "c",
            vec![],
            vec![
                ("no-sig-flattening", vec!["--no-sig-flattening"]),
                ("autodrop", vec!["--autodrop-borrows=yes"]),
                ("async", vec!["--async=all"]),
            ],
        ),
        ("cpp", vec![], vec![]),
        (
            "csharp",
            vec!["--runtime=native-aot", "--generate-stub"],
            vec![],
        ),
        // `--format=false`: the default `--format` only tries to spawn `gofmt` (not installed
        // here) several times per generation and falls back to the unformatted text.
        ("go", vec!["--generate-stubs", "--format=false"], vec![]),
        (
            "moonbit",
            vec![
                "--derive-debug",
                "--derive-show",
                "--derive-eq",
                "--derive-error",
            ],
            vec![("async", vec!["--async=all"])],
        ),
        ("d", vec!["--emit-export-stubs"], vec![]),
        ("markdown", vec![], vec![]),
    ]
}

/// `all_bvs()` with `--format` kept only on the default Rust variant: formatting (syn +
/// prettyplease over the finished text) is 3/4 of the Rust generator's run time and is
/// independent of the other options, so every world goes through it once, not seven times.
pub fn bvs_format_once() -> Vec<Bv> {
    let mut v = all_bvs();
    for b in v.iter_mut() {
        if b.backend == "rust" && !b.variant.is_empty() {
            b.args.retain(|a| *a != "--format");
        }
    }
    v
}

pub fn all_bvs() -> Vec<Bv> {
    let mut out = Vec::new();
    for (backend, base, variants) in table() {
        out.push(Bv {
            backend,
            variant: "",
            args: base.clone(),
        });
        for (variant, extra) in variants {
            let mut args = base.clone();
            args.extend(extra);
            out.push(Bv {
                backend,
                variant,
                args,
            });
        }
    }
    out
}

fn parse<T: clap::Args>(args: &[&str]) -> Result<T, String> {
    let cmd = T::augment_args(clap::Command::new("wit-bindgen"));
    let m = cmd
        .try_get_matches_from(std::iter::once("wit-bindgen").chain(args.iter().copied()))
        .map_err(|e| format!("option parse: {e}"))?;
    T::from_arg_matches(&m).map_err(|e| format!("option parse: {e}"))
}

/// Mirrors the `match Opt::parse()` of src/bin/wit-bindgen.rs.
pub fn build_generator(
    backend: &str,
    args: &[&str],
    out_dir: Option<&PathBuf>,
) -> Result<Box<dyn WorldGenerator>, String> {
    Ok(match backend {
        "markdown" => parse::<wit_bindgen_markdown::Opts>(args)?.build(),
        "moonbit" => parse::<wit_bindgen_moonbit::Opts>(args)?.build(),
        "c" => parse::<wit_bindgen_c::Opts>(args)?.build(),
        "cpp" => parse::<wit_bindgen_cpp::Opts>(args)?.build(out_dir),
        "rust" => Box::new(parse::<wit_bindgen_rust::Opts>(args)?.build()) as Box<dyn WorldGenerator>,
        "go" => parse::<wit_bindgen_go::Opts>(args)?.build(),
        "csharp" => parse::<wit_bindgen_csharp::Opts>(args)?.build(),
        "d" => parse::<wit_bindgen_d::Opts>(args)?.build(out_dir),
        other => return Err(format!("unknown backend {other}")),
    })
}

/// A WIT input: inline text (enumerated worlds) or a path in the repository corpus.
#[derive(Clone, Debug)]
pub enum Wit {
    Text(String),
    Path(String),
}

/// Parse + resolve + select the world like the CLI (`gen_world`) / the codegen test driver
/// (`Runner::codegen_test`: no world name, falling back to `imports`).
pub fn load(wit: &Wit) -> Result<(Resolve, WorldId), String> {
    let mut resolve = Resolve::default();
    let pkg = match wit {
        Wit::Text(t) => resolve
            .push_str("world.wit", t)
            .map_err(|e| format!("{e:#}"))?,
        Wit::Path(p) => resolve.push_path(p).map_err(|e| format!("{e:#}"))?.0,
    };
    let world = resolve
        .select_world(&[pkg], None)
        .or_else(|err| resolve.select_world(&[pkg], Some("imports")).map_err(|_| err))
        .map_err(|e| format!("{e:#}"))?;
    Ok((resolve, world))
}

/// One generation: fresh generator, fresh `Files`. `Ok(files)` / `Err(message)`; a panic
/// propagates to the caller (which runs this under `vcommon::catch`).
pub fn generate(
    resolve: &Resolve,
    world: WorldId,
    bv: &Bv,
    out_dir: Option<&PathBuf>,
) -> Result<Vec<(String, Vec<u8>)>, String> {
    let mut generator = build_generator(bv.backend, &bv.args, out_dir)?;
    let mut resolve = resolve.clone();
    let mut files = Files::default();
    generator
        .generate(&mut resolve, world, &mut files)
        .map_err(|e| format!("{e:#}"))?;
    Ok(files
        .iter()
        .map(|(n, b)| (n.to_string(), b.to_vec()))
        .collect())
}
