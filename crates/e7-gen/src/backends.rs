//! The eight real generators, built in-process from CLI-style argument lists exactly the way
//! `src/bin/wit-bindgen.rs` builds them (clap-parsed `Opts` + `.build()`), and the table of
//! option variants exercised by the repository's own codegen tests
//! (`crates/test/src/<lang>.rs`: `default_bindgen_args`, `default_bindgen_args_for_codegen`,
//! `codegen_test_variants`).

use std::path::PathBuf;
use wit_bindgen_core::{Files, WorldGenerator};
use wit_parser::{Resolve, WorldId};

#[derive(Clone, Debug)]
pub struct Bv {
    pub backend: &'static str,
    /// "" for the default configuration
    pub variant: &'static str,
    pub args: Vec<&'static str>,
    /// `multi` variants: further arguments are derived from the world (`multi_args`)
    pub dynamic: bool,
}

impl Bv {
    pub fn label(&self) -> String {
        if self.variant.is_empty() {
            self.backend.to_string()
        } else {
            format!("{}:{}", self.backend, self.variant)
        }
    }
}

pub const BACKENDS: [&str; 8] = [
    "rust", "c", "cpp", "csharp", "go", "moonbit", "d", "markdown",
];

/// (backend, args always passed by the codegen tests, [(variant name, extra args)])
/// — transcribed from crates/test/src/<lang>.rs; `verify_tables()` in `exclusions.rs` fails
/// the run (exit 2) when those functions change.
fn table() -> Vec<(&'static str, Vec<&'static str>, Vec<(&'static str, Vec<&'static str>)>)> {
    vec![
        (
            "rust",
            // default_bindgen_args + default_bindgen_args_for_codegen (rust.rs:111-117)
            vec!["--generate-all", "--format", "--stubs"],
            vec![
                ("borrowed", vec!["--ownership=borrowing"]),
                (
                    "borrowed-duplicate",
                    vec!["--ownership=borrowing-duplicate-if-necessary"],
                ),
                ("async", vec!["--async=all"]),
                ("no-std", vec!["--std-feature"]),
                ("merge-equal", vec!["--merge-structurally-equal-types"]),
                ("hashmap", vec!["--map-type=std::collections::HashMap"]),
            ],
        ),
        (
            "c",
            vec![],
            vec![
                ("no-sig-flattening", vec!["--no-sig-flattening"]),
                ("autodrop", vec!["--autodrop-borrows=yes"]),
                ("async", vec!["--async=all"]),
            ],
        ),
        ("cpp", vec![], vec![]),
        (
            "csharp",
            vec!["--runtime=native-aot", "--generate-stub"],
            vec![],
        ),
        // `--format=false`: the default `--format` only tries to spawn `gofmt` (not installed
        // here) several times per generation and falls back to the unformatted text.
        ("go", vec!["--generate-stubs", "--format=false"], vec![]),
        (
            "moonbit",
            vec![
                "--derive-debug",
                "--derive-show",
                "--derive-eq",
                "--derive-error",
            ],
            vec![("async", vec!["--async=all"])],
        ),
        ("d", vec!["--emit-export-stubs"], vec![]),
        ("markdown", vec![], vec![]),
    ]
}

/// `all_bvs()` with `--format` kept only on the default Rust variant: formatting (syn +
/// prettyplease over the finished text) is 3/4 of the Rust generator's run time and is
/// independent of the other options, so every world goes through it once, not seven times.
pub fn bvs_format_once() -> Vec<Bv> {
    let mut v = all_bvs();
    for b in v.iter_mut() {
        if b.backend == "rust" && !b.variant.is_empty() {
            b.args.retain(|a| *a != "--format");
        }
    }
    v
}

/// C15's configuration space: the codegen-test variants (formatting once) plus, for every
/// backend that has list-/set-/map-valued options, one `multi` variant that passes every such
/// option with >= 3 values (so that any hash-ordered container they end up in has several keys).
/// The values name things of the world at hand and are computed by `multi_args`.
pub fn bvs_with_multi() -> Vec<Bv> {
    let mut v = bvs_format_once();
    let multi: [(&'static str, Vec<&'static str>); 6] = [
        ("rust", vec!["--generate-all", "--stubs", "--type-section-suffix=multi"]),
        ("c", vec!["--type-section-suffix=multi"]),
        ("cpp", vec![]),
        ("go", vec!["--generate-stubs", "--format=false"]),
        (
            "moonbit",
            vec!["--derive-debug", "--derive-show", "--derive-eq", "--derive-error"],
        ),
        (
            "d",
            vec![
                "--emit-export-stubs",
                "--type-section-suffix=multi",
                "--required-d-versions=VerA",
                "--required-d-versions=VerC",
                "--required-d-versions=VerB",
            ],
        ),
    ];
    for (backend, args) in multi {
        v.push(Bv {
            backend,
            variant: "multi",
            args,
            dynamic: true,
        });
    }
    v
}

/// World-dependent values for the multi-valued options of `backend`.
pub fn multi_args(backend: &str, resolve: &Resolve, world: WorldId) -> Vec<String> {
    use wit_parser::{FunctionKind, TypeDefKind, WorldItem};
    let w = &resolve.worlds[world];
    // interfaces of the world by the name the generators know them under
    let mut imports: Vec<String> = Vec::new();
    let mut all_ifaces: Vec<String> = Vec::new();
    // freestanding functions: (is_import, name as `--async` knows it, plain function name)
    let mut funcs: Vec<(bool, String, String)> = Vec::new();
    // named record / variant / enum types of interfaces: (selector, first member)
    let mut types: Vec<(String, String, String)> = Vec::new();
    for (is_import, items) in [(true, &w.imports), (false, &w.exports)] {
        for (key, item) in items.iter() {
            match item {
                WorldItem::Interface { id, .. } => {
                    let name = resolve.name_world_key(key);
                    if is_import {
                        imports.push(name.clone());
                    }
                    if !all_ifaces.contains(&name) {
                        all_ifaces.push(name.clone());
                    }
                    for (_, f) in resolve.interfaces[*id].functions.iter() {
                        if matches!(f.kind, FunctionKind::Freestanding | FunctionKind::AsyncFreestanding) {
                            funcs.push((is_import, format!("{name}#{}", f.name), f.name.clone()));
                        }
                    }
                    if let Some(iface_id) = resolve.id_of(*id) {
                        for (tname, tid) in resolve.interfaces[*id].types.iter() {
                            let member = match &resolve.types[*tid].kind {
                                TypeDefKind::Record(r) => r.fields.first().map(|f| f.name.clone()),
                                TypeDefKind::Variant(v) => v.cases.first().map(|c| c.name.clone()),
                                TypeDefKind::Enum(e) => e.cases.first().map(|c| c.name.clone()),
                                _ => None,
                            };
                            let sel = format!("{iface_id}/{tname}");
                            if let Some(m) = member {
                                if !types.iter().any(|t| t.0 == sel) {
                                    types.push((sel, m, tname.clone()));
                                }
                            }
                        }
                    }
                }
                WorldItem::Function(f) => {
                    if matches!(f.kind, FunctionKind::Freestanding | FunctionKind::AsyncFreestanding) {
                        funcs.push((is_import, f.name.clone(), f.name.clone()));
                    }
                }
                WorldItem::Type { .. } => {}
            }
        }
    }
    let mut a: Vec<String> = Vec::new();
    // three `--async` directives, one of each form, on the first three functions
    let async_directives = |a: &mut Vec<String>| {
        for (i, (is_import, name, _)) in funcs.iter().take(3).enumerate() {
            let dir = if *is_import { "import" } else { "export" };
            a.push(match i {
                0 => format!("--async={dir}:{name}"),
                1 => format!("--async={name}"),
                _ => format!("--async=-{dir}:{name}"),
            });
        }
    };
    match backend {
        "rust" => {
            for d in ["PartialEq", "Hash", "Eq", "PartialOrd"] {
                a.push(format!("--additional-derive-attributes={d}"));
            }
            for t in types.iter().take(3) {
                a.push(format!("--additional-derive-ignore={}", t.2));
            }
            let attrs = ["#[doc = \"zeta\"]", "#[allow(dead_code)]", "#[cfg_attr(test, derive(Debug))]", "#[doc = \"alpha\"]"];
            for t in types.iter().take(3) {
                for at in attrs {
                    a.push(format!("--additional-type-attributes={}={at}", t.0));
                }
                for at in attrs {
                    a.push(format!("--additional-member-attributes={}.{}={at}", t.0, t.1));
                }
            }
            for i in imports.iter().take(3) {
                a.push(format!("--with={i}=generate"));
            }
            // skip the last three functions (the first three carry the async directives)
            if funcs.len() >= 6 {
                for f in funcs.iter().rev().take(3) {
                    a.push(format!("--skip={}", f.2));
                }
            }
            async_directives(&mut a);
        }
        "c" => {
            for (i, name) in all_ifaces.iter().take(3).enumerate() {
                a.push(format!("--rename={name}=ren{}", ["c", "a", "b"][i]));
            }
            async_directives(&mut a);
        }
        "cpp" => {
            for (i, name) in imports.iter().take(3).enumerate() {
                a.push(format!("--with={name}=custom_{}.h", ["c", "a", "b"][i]));
            }
        }
        "go" | "moonbit" => async_directives(&mut a),
        _ => {}
    }
    a
}

pub fn all_bvs() -> Vec<Bv> {
    let mut out = Vec::new();
    for (backend, base, variants) in table() {
        out.push(Bv {
            backend,
            variant: "",
            args: base.clone(),
            dynamic: false,
        });
        for (variant, extra) in variants {
            let mut args = base.clone();
            args.extend(extra);
            out.push(Bv {
                backend,
                variant,
                args,
                dynamic: false,
            });
        }
    }
    out
}

fn parse<T: clap::Args>(args: &[&str]) -> Result<T, String> {
    let cmd = T::augment_args(clap::Command::new("wit-bindgen"));
    let m = cmd
        .try_get_matches_from(std::iter::once("wit-bindgen").chain(args.iter().copied()))
        .map_err(|e| format!("option parse: {e}"))?;
    T::from_arg_matches(&m).map_err(|e| format!("option parse: {e}"))
}

/// Mirrors the `match Opt::parse()` of src/bin/wit-bindgen.rs.
pub fn build_generator(
    backend: &str,
    args: &[&str],
    out_dir: Option<&PathBuf>,
) -> Result<Box<dyn WorldGenerator>, String> {
    Ok(match backend {
        "markdown" => parse::<wit_bindgen_markdown::Opts>(args)?.build(),
        "moonbit" => parse::<wit_bindgen_moonbit::Opts>(args)?.build(),
        "c" => parse::<wit_bindgen_c::Opts>(args)?.build(),
        "cpp" => parse::<wit_bindgen_cpp::Opts>(args)?.build(out_dir),
        "rust" => Box::new(parse::<wit_bindgen_rust::Opts>(args)?.build()) as Box<dyn WorldGenerator>,
        "go" => parse::<wit_bindgen_go::Opts>(args)?.build(),
        "csharp" => parse::<wit_bindgen_csharp::Opts>(args)?.build(),
        "d" => parse::<wit_bindgen_d::Opts>(args)?.build(out_dir),
        other => return Err(format!("unknown backend {other}")),
    })
}

/// A WIT input: inline text (enumerated worlds) or a path in the repository corpus.
#[derive(Clone, Debug)]
pub enum Wit {
    Text(String),
    Path(String),
}

/// Parse + resolve + select the world like the CLI (`gen_world`) / the codegen test driver
/// (`Runner::codegen_test`: no world name, falling back to `imports`).
pub fn load(wit: &Wit) -> Result<(Resolve, WorldId), String> {
    let mut resolve = Resolve::default();
    let pkg = match wit {
        Wit::Text(t) => resolve
            .push_str("world.wit", t)
            .map_err(|e| format!("{e:#}"))?,
        Wit::Path(p) => resolve.push_path(p).map_err(|e| format!("{e:#}"))?.0,
    };
    let world = resolve
        .select_world(&[pkg], None)
        .or_else(|err| resolve.select_world(&[pkg], Some("imports")).map_err(|_| err))
        .map_err(|e| format!("{e:#}"))?;
    Ok((resolve, world))
}

/// One generation: fresh generator, fresh `Files`. `Ok(files)` / `Err(message)`; a panic
/// propagates to the caller (which runs this under `vcommon::catch`).
pub fn generate(
    resolve: &Resolve,
    world: WorldId,
    bv: &Bv,
    out_dir: Option<&PathBuf>,
) -> Result<Vec<(String, Vec<u8>)>, String> {
    let dynamic = if bv.dynamic {
        multi_args(bv.backend, resolve, world)
    } else {
        vec![]
    };
    let args: Vec<&str> = bv
        .args
        .iter()
        .copied()
        .chain(dynamic.iter().map(|s| s.as_str()))
        .collect();
    let mut generator = build_generator(bv.backend, &args, out_dir)?;
    let mut resolve = resolve.clone();
    let mut files = Files::default();
    generator
        .generate(&mut resolve, world, &mut files)
        .map_err(|e| format!("{e:#}"))?;
    Ok(files
        .iter()
        .map(|(n, b)| (n.to_string(), b.to_vec()))
        .collect())
}
