//! Source extraction for checks whose subject is not reachable through a public path
//! on this target. Nothing is copied by hand: the items are read from the repository
//! working tree at build time and compiled into the check as they are.
//!
//! * C24: `pub unsafe fn cabi_realloc` from crates/guest-rust/src/rt/mod.rs (cfg'd out on
//!   linux-gnu) — the fn item with only its outer `#[cfg]`/doc attributes removed; and the
//!   `cabi_dealloc` runtime item, which the Rust generator carries as a string literal in
//!   crates/rust/src/lib.rs.
//! * C34: crates/test/src/config.rs (`mod config` is private in wit-bindgen-test) — the
//!   whole file, byte for byte, compiled as a module.
use std::path::PathBuf;
use syn::visit::Visit;

fn repo_root() -> String {
    println!("cargo:rerun-if-env-changed=VERIF_REPO");
    if let Ok(r) = std::env::var("VERIF_REPO") {
        return r;
    }
    // Same tree as the cargo path dependencies: read it from the workspace manifest.
    let ws = PathBuf::from(std::env::var("CARGO_MANIFEST_DIR").unwrap()).join("../../Cargo.toml");
    println!("cargo:rerun-if-changed={}", ws.display());
    if let Ok(text) = std::fs::read_to_string(&ws) {
        for line in text.lines() {
            if line.starts_with("wit-bindgen-core") {
                if let Some(i) = line.find("path = \"") {
                    let rest = &line[i + 8..];
                    if let Some(j) = rest.find("/crates/core\"") {
                        return rest[..j].to_string();
                    }
                }
            }
        }
    }
    "/repo".to_string()
}

struct FindLit {
    needle: &'static str,
    found: Vec<String>,
}
impl<'ast> Visit<'ast> for FindLit {
    fn visit_lit_str(&mut self, l: &'ast syn::LitStr) {
        let v = l.value();
        if v.contains(self.needle) {
            self.found.push(v);
        }
    }
}

fn main() {
    let repo = repo_root();
    let out = PathBuf::from(std::env::var("OUT_DIR").unwrap());

    // ---- C24: cabi_realloc -------------------------------------------------------------
    let rt = format!("{repo}/crates/guest-rust/src/rt/mod.rs");
    println!("cargo:rerun-if-changed={rt}");
    let text = std::fs::read_to_string(&rt).unwrap_or_else(|e| panic!("read {rt}: {e}"));
    let file = syn::parse_file(&text).unwrap_or_else(|e| panic!("parse {rt}: {e}"));
    let mut found = None;
    for item in &file.items {
        if let syn::Item::Fn(f) = item {
            if f.sig.ident == "cabi_realloc" {
                let mut f = f.clone();
                f.attrs
                    .retain(|a| !a.path().is_ident("cfg") && !a.path().is_ident("doc"));
                found = Some(f);
            }
        }
    }
    let f = found.unwrap_or_else(|| panic!("no `fn cabi_realloc` item in {rt}"));
    let gen = syn::File {
        shebang: None,
        attrs: vec![],
        items: vec![syn::Item::Fn(f)],
    };
    std::fs::write(
        out.join("cabi_realloc.rs"),
        format!(
            "// extracted by build.rs from {rt}\n{}",
            prettyplease::unparse(&gen)
        ),
    )
    .unwrap();

    // ---- C24: cabi_dealloc runtime item (string literal inside the Rust generator) -----
    let rl = format!("{repo}/crates/rust/src/lib.rs");
    println!("cargo:rerun-if-changed={rl}");
    let text = std::fs::read_to_string(&rl).unwrap_or_else(|e| panic!("read {rl}: {e}"));
    let file = syn::parse_file(&text).unwrap_or_else(|e| panic!("parse {rl}: {e}"));
    let mut v = FindLit {
        needle: "fn cabi_dealloc",
        found: vec![],
    };
    v.visit_file(&file);
    // macros (uwriteln!(..)) hide their literals from the visitor; the item is a plain
    // `push_str("...")` argument. Exactly one literal must define the function.
    let defs: Vec<_> = v
        .found
        .iter()
        .filter(|s| s.contains("pub unsafe fn cabi_dealloc"))
        .collect();
    if defs.len() != 1 {
        panic!(
            "expected exactly one string literal defining cabi_dealloc in {rl}, found {}",
            defs.len()
        );
    }
    let item: syn::File =
        syn::parse_str(defs[0]).unwrap_or_else(|e| panic!("cabi_dealloc literal: {e}"));
    std::fs::write(
        out.join("cabi_dealloc.rs"),
        format!(
            "// extracted by build.rs from the RuntimeItem::CabiDealloc literal in {rl}\n{}",
            prettyplease::unparse(&item)
        ),
    )
    .unwrap();

    // ---- C34: config.rs ---------------------------------------------------------------
    let cfg = format!("{repo}/crates/test/src/config.rs");
    println!("cargo:rerun-if-changed={cfg}");
    let text = std::fs::read_to_string(&cfg).unwrap_or_else(|e| panic!("read {cfg}: {e}"));
    let copy = out.join("test_config.rs");
    std::fs::write(&copy, text).unwrap();
    std::fs::write(
        out.join("test_config_mod.rs"),
        format!(
            "#[allow(dead_code, unused_imports)]\n#[path = {:?}]\npub mod config;\n",
            copy.display().to_string()
        ),
    )
    .unwrap();
}
