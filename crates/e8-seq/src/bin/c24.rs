//! C24 — guest allocation entry points honour size, alignment and contents.
//!
//! Subjects (all compiled from the repository working tree):
//!  * `cabi_realloc` of crates/guest-rust/src/rt/mod.rs — cfg'd out on this target, so build.rs
//!    extracts the fn item with syn and strips only its outer `#[cfg]`;
//!  * `cabi_dealloc`, the runtime item the Rust generator emits (string literal in
//!    crates/rust/src/lib.rs), extracted the same way;
//!  * `wit_bindgen::rt::Cleanup` used directly.
//!
//! Space: all request sequences of exactly `depth` operations (shorter ones are prefixes, the
//! oracle runs after every step) over
//!   alloc(align,size) | realloc(block,new_size) | free(block)            (host side)
//!   cleanup_new(align,size) | cleanup_drop(block) | cleanup_forget(block) (scratch side)
//! with align ∈ {1,2,4,8,16,4096,65536}, size ∈ {0,1,7,8,9,4096,2^20}; realloc/free/drop/forget
//! always refer to a block produced earlier in the same sequence, with its current size and
//! the alignment it was allocated with.
//!
//! Oracle: shadow contents (every block is filled with its own byte pattern after each
//! (re)allocation) + a recording global allocator:
//!  * alloc/realloc result is non-null and a multiple of `align`; size 0 (from nothing or from
//!    a zero-sized block) returns exactly `align as *mut u8`;
//!  * result is the start of a live allocator block of at least the requested size;
//!  * after realloc the first min(old,new) bytes equal the old contents (blocks above 16 KiB are
//!    written/compared on windows: head, tail, 15 evenly spaced offsets, around every alphabet size);
//!  * blocks not named by a request keep their contents;
//!  * `Cleanup::new`: pointer null ⇔ size 0; dropping frees the block exactly once with the
//!    layout it was allocated with; `forget` frees nothing and leaves the contents alone;
//!  * ledger balanced: live allocator blocks == live non-empty blocks of the model; no free of
//!    a foreign pointer, no free/realloc with a layout different from the allocation's.
use serde_json::{json, Value};
use std::alloc::{GlobalAlloc, Layout, System};
use std::cell::UnsafeCell;
use std::collections::{BTreeMap, BTreeSet};

extern crate alloc;

mod subject {
    include!(concat!(env!("OUT_DIR"), "/cabi_realloc.rs"));
    pub mod generated_rt {
        // the generator's `_rt` module has `pub use alloc_crate::alloc;` in scope
        use std::alloc;
        include!(concat!(env!("OUT_DIR"), "/cabi_dealloc.rs"));
    }
}
use subject::cabi_realloc;
use subject::generated_rt::cabi_dealloc;
use wit_bindgen::rt::Cleanup;

// ---------------------------------------------------------------------------------------
// recording allocator
// ---------------------------------------------------------------------------------------

#[derive(Clone, Copy, Default, Debug)]
#[allow(dead_code)] // fields are printed in messages
struct Ev {
    kind: u8, // 1 alloc, 2 dealloc, 3 realloc
    ptr: usize,
    size: usize,
    align: usize,
    new_size: usize,
    ret: usize,
}

const MAXLIVE: usize = 64;
const MAXEV: usize = 32;

struct LedgerState {
    rec: bool,
    live: [(usize, usize, usize); MAXLIVE],
    nlive: usize,
    ev: [Ev; MAXEV],
    nev: usize,
    // misuse observed while recording
    foreign_free: usize,
    layout_mismatch: usize,
    overflow: bool,
}

struct Ledger(UnsafeCell<LedgerState>);
// The check is single-threaded whenever `rec` is on (forked workers have one thread).
unsafe impl Sync for Ledger {}

#[global_allocator]
static LEDGER: Ledger = Ledger(UnsafeCell::new(LedgerState {
    rec: false,
    live: [(0, 0, 0); MAXLIVE],
    nlive: 0,
    ev: [Ev {
        kind: 0,
        ptr: 0,
        size: 0,
        align: 0,
        new_size: 0,
        ret: 0,
    }; MAXEV],
    nev: 0,
    foreign_free: 0,
    layout_mismatch: 0,
    overflow: false,
}));

impl LedgerState {
    fn find(&self, p: usize) -> Option<usize> {
        (0..self.nlive).find(|i| self.live[*i].0 == p)
    }
    fn add(&mut self, p: usize, size: usize, align: usize) {
        if self.nlive < MAXLIVE {
            self.live[self.nlive] = (p, size, align);
            self.nlive += 1;
        } else {
            self.overflow = true;
        }
    }
    fn remove(&mut self, i: usize) {
        self.live[i] = self.live[self.nlive - 1];
        self.nlive -= 1;
    }
    fn log(&mut self, e: Ev) {
        if self.nev < MAXEV {
            self.ev[self.nev] = e;
            self.nev += 1;
        } else {
            self.overflow = true;
        }
    }
}

unsafe impl GlobalAlloc for Ledger {
    unsafe fn alloc(&self, l: Layout) -> *mut u8 {
        let st = unsafe { &mut *self.0.get() };
        let p = unsafe { System.alloc(l) };
        if st.rec {
            st.log(Ev {
                kind: 1,
                ptr: 0,
                size: l.size(),
                align: l.align(),
                new_size: 0,
                ret: p as usize,
            });
            if !p.is_null() {
                st.add(p as usize, l.size(), l.align());
            }
        }
        p
    }
    unsafe fn dealloc(&self, p: *mut u8, l: Layout) {
        let st = unsafe { &mut *self.0.get() };
        if !st.rec {
            return unsafe { System.dealloc(p, l) };
        }
        st.log(Ev {
            kind: 2,
            ptr: p as usize,
            size: l.size(),
            align: l.align(),
            new_size: 0,
            ret: 0,
        });
        match st.find(p as usize) {
            Some(i) => {
                let (_, size, align) = st.live[i];
                if size != l.size() || align != l.align() {
                    st.layout_mismatch += 1;
                }
                st.remove(i);
                // always release with the true layout so that a wrong request cannot corrupt the heap
                unsafe { System.dealloc(p, Layout::from_size_align_unchecked(size, align)) }
            }
            None => st.foreign_free += 1, // not freed: the pointer is not ours
        }
    }
    unsafe fn realloc(&self, p: *mut u8, l: Layout, new_size: usize) -> *mut u8 {
        let st = unsafe { &mut *self.0.get() };
        if !st.rec {
            return unsafe { System.realloc(p, l, new_size) };
        }
        let q;
        match st.find(p as usize) {
            Some(i) => {
                let (_, size, align) = st.live[i];
                if size != l.size() || align != l.align() {
                    st.layout_mismatch += 1;
                }
                st.remove(i);
                q = unsafe {
                    System.realloc(
                        p,
                        Layout::from_size_align_unchecked(size, align),
                        new_size.max(1),
                    )
                };
                if !q.is_null() {
                    st.add(q as usize, new_size, align);
                }
            }
            None => {
                st.foreign_free += 1;
                q = unsafe {
                    System.alloc(Layout::from_size_align_unchecked(new_size.max(1), l.align()))
                };
                if !q.is_null() {
                    st.add(q as usize, new_size, l.align());
                }
            }
        }
        st.log(Ev {
            kind: 3,
            ptr: p as usize,
            size: l.size(),
            align: l.align(),
            new_size,
            ret: q as usize,
        });
        q
    }
}

fn ledger() -> &'static mut LedgerState {
    unsafe { &mut *LEDGER.0.get() }
}

/// run `f` with recording on; returns the events of the call
fn recorded<R>(f: impl FnOnce() -> R) -> (R, Vec<Ev>) {
    let st = ledger();
    st.nev = 0;
    st.rec = true;
    let r = f();
    let st = ledger();
    st.rec = false;
    let evs = st.ev[..st.nev].to_vec();
    (r, evs)
}

fn ledger_reset() {
    let st = ledger();
    // release whatever a failed sequence left behind
    while st.nlive > 0 {
        let (p, size, align) = st.live[0];
        st.remove(0);
        unsafe { System.dealloc(p as *mut u8, Layout::from_size_align_unchecked(size, align)) }
    }
    st.foreign_free = 0;
    st.layout_mismatch = 0;
    st.overflow = false;
    st.nev = 0;
}

// ---------------------------------------------------------------------------------------
// space
// ---------------------------------------------------------------------------------------

const ALIGNS: [usize; 7] = [1, 2, 4, 8, 16, 4096, 65536];
const SIZES: [usize; 7] = [0, 1, 7, 8, 9, 4096, 1 << 20];

#[derive(Clone, Copy, Debug, PartialEq, Eq, PartialOrd, Ord)]
enum Op {
    Alloc(usize, usize),
    Realloc(usize, usize),
    Free(usize),
    CNew(usize, usize),
    CDrop(usize),
    CForget(usize),
}

fn op_json(o: &Op) -> Value {
    match *o {
        Op::Alloc(a, n) => json!({"op": "alloc", "align": a, "size": n}),
        Op::Realloc(b, n) => json!({"op": "realloc", "block": b, "new_size": n}),
        Op::Free(b) => json!({"op": "free", "block": b}),
        Op::CNew(a, n) => json!({"op": "cleanup_new", "align": a, "size": n}),
        Op::CDrop(b) => json!({"op": "cleanup_drop", "block": b}),
        Op::CForget(b) => json!({"op": "cleanup_forget", "block": b}),
    }
}

fn op_from_json(v: &Value) -> Op {
    let u = |k: &str| v[k].as_u64().unwrap_or(0) as usize;
    match v["op"].as_str().unwrap_or("") {
        "alloc" => Op::Alloc(u("align"), u("size")),
        "realloc" => Op::Realloc(u("block"), u("new_size")),
        "free" => Op::Free(u("block")),
        "cleanup_new" => Op::CNew(u("align"), u("size")),
        "cleanup_drop" => Op::CDrop(u("block")),
        "cleanup_forget" => Op::CForget(u("block")),
        o => vcommon::machinery(&format!("bad op {o:?} in replay")),
    }
}

fn seq_text(seq: &[Op]) -> String {
    seq.iter()
        .map(|o| match *o {
            Op::Alloc(a, n) => format!("alloc(align={a},size={n})"),
            Op::Realloc(b, n) => format!("realloc(#{b},{n})"),
            Op::Free(b) => format!("free(#{b})"),
            Op::CNew(a, n) => format!("cleanup_new(align={a},size={n})"),
            Op::CDrop(b) => format!("cleanup_drop(#{b})"),
            Op::CForget(b) => format!("cleanup_forget(#{b})"),
        })
        .collect::<Vec<_>>()
        .join(";")
}

/// symbolic block table used by the enumerator: (is_host, size, pending)
#[derive(Clone, Copy)]
struct Sym {
    host: bool,
    size: usize,
    live: bool,
}

fn next_ops(blocks: &[Sym], host: bool, scratch: bool, out: &mut Vec<Op>) {
    out.clear();
    if host {
        for a in ALIGNS {
            for n in SIZES {
                out.push(Op::Alloc(a, n));
            }
        }
    }
    if scratch {
        for a in ALIGNS {
            for n in SIZES {
                out.push(Op::CNew(a, n));
            }
        }
    }
    for (i, b) in blocks.iter().enumerate() {
        if !b.live {
            continue;
        }
        if b.host {
            for n in SIZES {
                // a non-empty block is never reallocated to size 0 (see assumptions)
                if n == 0 && b.size != 0 {
                    continue;
                }
                out.push(Op::Realloc(i, n));
            }
            out.push(Op::Free(i));
        } else {
            out.push(Op::CDrop(i));
            out.push(Op::CForget(i));
        }
    }
}

fn apply_sym(blocks: &mut Vec<Sym>, op: Op) {
    match op {
        Op::Alloc(_, n) => blocks.push(Sym {
            host: true,
            size: n,
            live: true,
        }),
        Op::CNew(_, n) => blocks.push(Sym {
            host: false,
            size: n,
            live: true,
        }),
        Op::Realloc(b, n) => blocks[b].size = n,
        Op::Free(b) | Op::CDrop(b) | Op::CForget(b) => blocks[b].live = false,
    }
}

// ---------------------------------------------------------------------------------------
// execution + oracle
// ---------------------------------------------------------------------------------------

struct Block {
    ptr: usize,
    size: usize,
    align: usize,
    seed: usize,
    cleanup: Option<Cleanup>,
    /// owned by the model (not yet freed / dropped)
    live: bool,
    /// forgotten scratch block: memory must stay allocated, harness frees it at the end
    forgotten: bool,
}

struct Fail {
    step: usize,
    kind: &'static str,
    sig: String,
    msg: String,
}

#[derive(Default)]
struct Stats {
    /// call signatures that reached the allocator
    nontrivial: BTreeSet<String>,
    outcomes: BTreeSet<String>,
}

static MASTER: std::sync::OnceLock<Vec<u8>> = std::sync::OnceLock::new();

fn master() -> &'static [u8] {
    MASTER.get_or_init(|| {
        let n = (1 << 20) + 1024;
        let mut v = Vec::with_capacity(n);
        let mut x: u32 = 0x9e3779b9;
        for _ in 0..n {
            x ^= x << 13;
            x ^= x >> 17;
            x ^= x << 5;
            v.push((x >> 11) as u8);
        }
        v
    })
}

/// Blocks above this size are written and compared on a fixed set of windows instead of
/// byte by byte: the first 4096 bytes, 64 bytes at 15 evenly spaced offsets, and 128 bytes
/// around every size of the alphabet (those are the only possible min(old,new) cut points),
/// plus the last 4096 bytes.
const SPARSE_ABOVE: usize = 16384;

fn windows(size: usize, f: &mut dyn FnMut(usize, usize)) {
    if size <= SPARSE_ABOVE {
        f(0, size);
        return;
    }
    f(0, 4096);
    let stride = (size / 16) & !63;
    let mut o = stride;
    while o + 64 <= size - 4096 {
        if o >= 4096 {
            f(o, o + 64);
        }
        o += stride;
    }
    for s in SIZES {
        if s > 4096 && s <= size {
            f(s - 64, s.min(size));
            if s + 64 <= size {
                f(s, s + 64);
            }
        }
    }
    f(size - 4096, size);
}

fn fill(b: &mut Block, counter: &mut usize) {
    *counter += 1;
    b.seed = (*counter * 37 + 11) % 1021;
    let (seed, ptr) = (b.seed, b.ptr);
    windows(b.size, &mut |lo, hi| {
        let m = &master()[seed + lo..seed + hi];
        unsafe { std::ptr::copy_nonoverlapping(m.as_ptr(), (ptr + lo) as *mut u8, hi - lo) };
    });
}

/// do the first `upto` bytes of the block still hold what `fill` wrote (on the windows of the
/// block's size that lie below `upto`)?
fn intact(b: &Block, upto: usize) -> bool {
    let mut ok = true;
    windows(b.size, &mut |lo, hi| {
        let hi = hi.min(upto);
        if lo >= hi {
            return;
        }
        let s = unsafe { std::slice::from_raw_parts((b.ptr + lo) as *const u8, hi - lo) };
        if s != &master()[b.seed + lo..b.seed + hi] {
            ok = false;
        }
    });
    ok
}

fn exec(seq: &[Op], stats: &mut Stats, verbose: bool) -> Option<Fail> {
    ledger_reset();
    let mut blocks: Vec<Block> = Vec::new();
    let mut counter = 0usize;
    let mut fail: Option<Fail> = None;
    macro_rules! bad {
        ($step:expr, $kind:expr, $sig:expr, $($m:tt)*) => {{
            fail = Some(Fail { step: $step, kind: $kind, sig: $sig.clone(), msg: format!($($m)*) });
        }};
    }
    'steps: for (step, op) in seq.iter().enumerate() {
        let sig;
        let evs: Vec<Ev>;
        match *op {
            Op::Alloc(a, n) => {
                sig = format!("alloc(align={a},size={n})");
                let (r, e) =
                    recorded(|| vcommon::catch(|| unsafe { cabi_realloc(std::ptr::null_mut(), 0, a, n) }));
                evs = e;
                let p = match r {
                    Ok(p) => p as usize,
                    Err(m) => {
                        bad!(step, "panic", sig, "cabi_realloc(null,0,{a},{n}) panicked: {m}");
                        break 'steps;
                    }
                };
                if verbose {
                    println!("  step {step}: {sig} -> {p:#x}  allocator events: {evs:?}");
                }
                blocks.push(Block {
                    ptr: p,
                    size: n,
                    align: a,
                    seed: 0,
                    cleanup: None,
                    live: true,
                    forgotten: false,
                });
                if let Some((k, m)) = check_result(p, a, n) {
                    bad!(step, k, sig, "cabi_realloc(null,0,{a},{n}) returned {p:#x}: {m}");
                    break 'steps;
                }
                stats.outcomes.insert(if n == 0 { "alloc:zero->align".into() } else { "alloc:fresh".into() });
                let b = blocks.last_mut().unwrap();
                fill(b, &mut counter);
            }
            Op::Realloc(bi, m) => {
                let (p, n, a) = (blocks[bi].ptr, blocks[bi].size, blocks[bi].align);
                sig = format!("realloc(align={a},old_size={n},new_size={m})");
                if !intact(&blocks[bi], n) {
                    bad!(step, "contents-clobbered", sig, "block #{bi} ({p:#x},{n}) no longer holds what was written to it before the request");
                    break 'steps;
                }
                let (r, e) = recorded(|| vcommon::catch(|| unsafe { cabi_realloc(p as *mut u8, n, a, m) }));
                evs = e;
                let q = match r {
                    Ok(q) => q as usize,
                    Err(msg) => {
                        bad!(step, "panic", sig, "cabi_realloc({p:#x},{n},{a},{m}) panicked: {msg}");
                        break 'steps;
                    }
                };
                if verbose {
                    println!("  step {step}: {sig} on #{bi} {p:#x} -> {q:#x}  allocator events: {evs:?}");
                }
                blocks[bi].ptr = q;
                if let Some((k, msg)) = check_result(q, a, m) {
                    blocks[bi].size = m;
                    bad!(step, k, sig, "cabi_realloc({p:#x},{n},{a},{m}) returned {q:#x}: {msg}");
                    break 'steps;
                }
                let keep = n.min(m);
                // compared on the windows of the old size, which is how the block was written
                let preserved = intact(&blocks[bi], keep);
                blocks[bi].size = m;
                if !preserved {
                    bad!(step, "contents-lost", sig, "after cabi_realloc({p:#x},{n},{a},{m}) -> {q:#x} the first {keep} bytes differ from the old contents");
                    break 'steps;
                }
                stats.outcomes.insert(
                    if n == 0 && m == 0 {
                        "realloc:zero->zero"
                    } else if n == 0 {
                        "realloc:zero->fresh"
                    } else if p == q {
                        "realloc:in-place"
                    } else {
                        "realloc:moved"
                    }
                    .into(),
                );
                fill(&mut blocks[bi], &mut counter);
            }
            Op::Free(bi) => {
                let (p, n, a) = (blocks[bi].ptr, blocks[bi].size, blocks[bi].align);
                sig = format!("free(align={a},size={n})");
                if !intact(&blocks[bi], n) {
                    bad!(step, "contents-clobbered", sig, "block #{bi} ({p:#x},{n}) no longer holds what was written to it before the request");
                    break 'steps;
                }
                let (r, e) = recorded(|| vcommon::catch(|| unsafe { cabi_dealloc(p as *mut u8, n, a) }));
                evs = e;
                if verbose {
                    println!("  step {step}: {sig} on #{bi} {p:#x}  allocator events: {evs:?}");
                }
                if let Err(msg) = r {
                    bad!(step, "panic", sig, "cabi_dealloc({p:#x},{n},{a}) panicked: {msg}");
                    break 'steps;
                }
                blocks[bi].live = false;
                stats.outcomes.insert(if n == 0 { "free:noop" } else { "free:dealloc" }.into());
            }
            Op::CNew(a, n) => {
                sig = format!("cleanup_new(align={a},size={n})");
                let layout = Layout::from_size_align(n, a).unwrap();
                let (r, e) = recorded(|| vcommon::catch(|| Cleanup::new(layout)));
                evs = e;
                let (p, c) = match r {
                    Ok(x) => x,
                    Err(msg) => {
                        bad!(step, "panic", sig, "Cleanup::new({n},{a}) panicked: {msg}");
                        break 'steps;
                    }
                };
                let p = p as usize;
                if verbose {
                    println!("  step {step}: {sig} -> ({p:#x}, cleanup {})  allocator events: {evs:?}", if c.is_some() { "Some" } else { "None" });
                }
                let has = c.is_some();
                blocks.push(Block {
                    ptr: p,
                    size: n,
                    align: a,
                    seed: 0,
                    cleanup: c,
                    live: true,
                    forgotten: false,
                });
                if (p == 0) != (n == 0) {
                    bad!(step, "scratch-null-iff-zero", sig, "Cleanup::new(size {n}, align {a}) returned pointer {p:#x}: must be null exactly when the size is zero");
                    break 'steps;
                }
                if n > 0 {
                    if p % a != 0 {
                        bad!(step, "misaligned", sig, "Cleanup::new(size {n}, align {a}) returned {p:#x}");
                        break 'steps;
                    }
                    if !has {
                        bad!(step, "scratch-never-freed", sig, "Cleanup::new(size {n}, align {a}) allocated {p:#x} but returned no cleanup: nothing will free it");
                        break 'steps;
                    }
                    if let Some(m) = backing(p, n) {
                        bad!(step, "not-backed", sig, "Cleanup::new(size {n}, align {a}) returned {p:#x}: {m}");
                        break 'steps;
                    }
                }
                stats.outcomes.insert(if n == 0 { "cleanup_new:null" } else { "cleanup_new:fresh" }.into());
                let b = blocks.last_mut().unwrap();
                fill(b, &mut counter);
            }
            Op::CDrop(bi) => {
                let (p, n, a) = (blocks[bi].ptr, blocks[bi].size, blocks[bi].align);
                sig = format!("cleanup_drop(align={a},size={n})");
                if !intact(&blocks[bi], n) {
                    bad!(step, "contents-clobbered", sig, "scratch block #{bi} ({p:#x},{n}) no longer holds what was written to it");
                    break 'steps;
                }
                let c = blocks[bi].cleanup.take();
                let (r, e) = recorded(|| vcommon::catch(move || drop(c)));
                evs = e;
                if verbose {
                    println!("  step {step}: {sig} on #{bi} {p:#x}  allocator events: {evs:?}");
                }
                if let Err(msg) = r {
                    bad!(step, "panic", sig, "dropping the Cleanup of ({p:#x},{n},{a}) panicked: {msg}");
                    break 'steps;
                }
                blocks[bi].live = false;
                let frees = evs.iter().filter(|e| e.kind == 2 && e.ptr == p).count();
                if n > 0 && frees != 1 {
                    bad!(step, "scratch-freed-exactly-once", sig, "dropping the Cleanup of ({p:#x}, size {n}, align {a}) released it {frees} times");
                    break 'steps;
                }
                stats.outcomes.insert(if n == 0 { "cleanup_drop:none" } else { "cleanup_drop:dealloc" }.into());
            }
            Op::CForget(bi) => {
                let (p, n, a) = (blocks[bi].ptr, blocks[bi].size, blocks[bi].align);
                sig = format!("cleanup_forget(align={a},size={n})");
                let c = blocks[bi].cleanup.take();
                let (r, e) = recorded(|| {
                    vcommon::catch(move || {
                        if let Some(c) = c {
                            c.forget()
                        }
                    })
                });
                evs = e;
                if verbose {
                    println!("  step {step}: {sig} on #{bi} {p:#x}  allocator events: {evs:?}");
                }
                if let Err(msg) = r {
                    bad!(step, "panic", sig, "Cleanup::forget of ({p:#x},{n},{a}) panicked: {msg}");
                    break 'steps;
                }
                blocks[bi].forgotten = true;
                if evs.iter().any(|e| e.kind == 2) {
                    bad!(step, "forget-freed", sig, "Cleanup::forget of ({p:#x}, size {n}) released memory");
                    break 'steps;
                }
                if !intact(&blocks[bi], n) {
                    bad!(step, "contents-clobbered", sig, "after Cleanup::forget the block ({p:#x},{n}) no longer holds what was written to it");
                    break 'steps;
                }
                stats.outcomes.insert("cleanup_forget".into());
            }
        }
        if !evs.is_empty() {
            stats.nontrivial.insert(sig.clone());
        }
        // ledger invariants after every step
        let st = ledger();
        if st.overflow {
            vcommon::machinery("C24 ledger overflow");
        }
        if st.foreign_free > 0 {
            bad!(step, "foreign-free", sig, "a pointer that is not a live allocation was passed to dealloc/realloc; allocator events: {evs:?}");
            break 'steps;
        }
        if st.layout_mismatch > 0 {
            bad!(step, "layout-mismatch", sig, "dealloc/realloc called with a layout different from the one the block was allocated with; allocator events: {evs:?}");
            break 'steps;
        }
        let expect_live = blocks
            .iter()
            .filter(|b| b.live && b.size > 0)
            .count();
        if st.nlive != expect_live {
            bad!(step, "ledger-unbalanced", sig, "{} live allocator blocks, the request history has {expect_live} live non-empty blocks; allocator events: {evs:?}", st.nlive);
            break 'steps;
        }
    }
    // end of sequence: pending cleanups are dropped (each exactly once), everything else must
    // still hold its contents
    if fail.is_none() {
        let step = seq.len();
        for bi in 0..blocks.len() {
            if !blocks[bi].live {
                continue;
            }
            let (p, n, a) = (blocks[bi].ptr, blocks[bi].size, blocks[bi].align);
            let sig = format!("end(align={a},size={n})");
            if !intact(&blocks[bi], n) {
                bad!(step, "contents-clobbered", sig, "at the end block #{bi} ({p:#x},{n}) no longer holds what was written to it");
                break;
            }
            if let Some(c) = blocks[bi].cleanup.take() {
                let (r, evs) = recorded(|| vcommon::catch(move || drop(c)));
                let frees = evs.iter().filter(|e| e.kind == 2 && e.ptr == p).count();
                if r.is_err() || frees != 1 || ledger().foreign_free > 0 || ledger().layout_mismatch > 0 {
                    let sig = format!("cleanup_drop(align={a},size={n})");
                    bad!(step, "scratch-freed-exactly-once", sig, "final drop of the Cleanup of ({p:#x}, size {n}, align {a}): released {frees} times, events {evs:?}");
                    break;
                }
                blocks[bi].live = false;
            }
        }
    }
    // release what the harness owns
    for b in &mut blocks {
        if let Some(c) = b.cleanup.take() {
            std::mem::forget(c);
        }
    }
    ledger_reset();
    fail
}

/// `p` must be the start of a live allocator block of at least `n` bytes
fn backing(p: usize, n: usize) -> Option<String> {
    let st = ledger();
    match st.find(p) {
        Some(i) if st.live[i].1 >= n => None,
        Some(i) => Some(format!(
            "the allocator block at this address has only {} bytes, {n} requested",
            st.live[i].1
        )),
        None => Some("not the start of a live allocator block".into()),
    }
}

fn check_result(p: usize, a: usize, n: usize) -> Option<(&'static str, String)> {
    if p == 0 {
        return Some(("null", "null pointer".into()));
    }
    if p % a != 0 {
        return Some(("misaligned", format!("not a multiple of {a}")));
    }
    if n == 0 {
        if p != a {
            return Some((
                "zero-size-not-align",
                format!("a zero-sized allocation must return the alignment value {a:#x}"),
            ));
        }
        return None;
    }
    backing(p, n).map(|m| ("not-backed", m))
}

// ---------------------------------------------------------------------------------------

struct Family {
    name: &'static str,
    host: bool,
    scratch: bool,
    depth: usize,
}

fn enumerate(
    fam: &Family,
    prefix: &[Op],
    f: &mut dyn FnMut(&[Op]),
) {
    fn rec(
        fam: &Family,
        blocks: &mut Vec<Sym>,
        seq: &mut Vec<Op>,
        f: &mut dyn FnMut(&[Op]),
    ) {
        if seq.len() == fam.depth {
            f(seq);
            return;
        }
        let mut ops = Vec::new();
        next_ops(blocks, fam.host, fam.scratch, &mut ops);
        for op in ops {
            let saved = blocks.clone();
            apply_sym(blocks, op);
            seq.push(op);
            rec(fam, blocks, seq, f);
            seq.pop();
            *blocks = saved;
        }
    }
    let mut blocks = Vec::new();
    let mut seq = Vec::new();
    for op in prefix {
        apply_sym(&mut blocks, *op);
        seq.push(*op);
    }
    rec(fam, &mut blocks, &mut seq, f);
}

fn prefixes(fam: &Family, len: usize) -> Vec<Vec<Op>> {
    let sub = Family {
        name: fam.name,
        host: fam.host,
        scratch: fam.scratch,
        depth: len.min(fam.depth),
    };
    let mut out = Vec::new();
    enumerate(&sub, &[], &mut |s| out.push(s.to_vec()));
    out
}

fn run_unit(fam: &Family, prefix: &[Op]) -> Value {
    let mut st = Stats::default();
    let mut n = 0u64;
    let mut steps = 0u64;
    let mut fails: BTreeMap<String, (usize, Vec<Op>, String)> = BTreeMap::new();
    let mut nfail = 0u64;
    enumerate(fam, prefix, &mut |s| {
        n += 1;
        steps += s.len() as u64;
        if let Some(f) = exec(s, &mut st, false) {
            nfail += 1;
            let key = format!("{}@{}", f.kind, f.sig);
            let cut = s[..(f.step + 1).min(s.len())].to_vec();
            let what = format!("[{}] after {}: {}", f.kind, seq_text(&cut), f.msg);
            let e = fails.entry(key).or_insert((usize::MAX, vec![], String::new()));
            if cut.len() < e.0 {
                *e = (cut.len(), cut, what);
            }
        }
    });
    json!({
        "n": n, "steps": steps, "nfail": nfail,
        "nontrivial": st.nontrivial.iter().collect::<Vec<_>>(),
        "outcomes": st.outcomes.iter().collect::<Vec<_>>(),
        "fails": fails.iter().map(|(k, (_, s, w))| json!({"key": k, "ops": s.iter().map(op_json).collect::<Vec<_>>(), "what": w})).collect::<Vec<_>>(),
    })
}

/// the unit died as a whole: find the first sequence of the unit that dies on its own
fn locate_death(fam: &Family, prefix: &[Op], o: &vcommon::Outcome) -> Value {
    let mut culprit: Option<(Vec<Op>, String)> = None;
    let mut tried = 0;
    enumerate(fam, prefix, &mut |s| {
        if culprit.is_some() || tried > 3000 {
            return;
        }
        tried += 1;
        let r = vcommon::isolated(60_000, || {
            let mut st = Stats::default();
            exec(s, &mut st, false);
            Vec::new()
        });
        if !matches!(r, vcommon::Outcome::Ok(_)) {
            culprit = Some((s.to_vec(), r.describe()));
        }
    });
    let (s, d) = culprit.unwrap_or((prefix.to_vec(), o.describe()));
    json!({"n": 0, "steps": 0, "nfail": 1, "nontrivial": [], "outcomes": [],
           "fails": [{"key": format!("died@{}", seq_text(&s)), "ops": s.iter().map(op_json).collect::<Vec<_>>(),
                      "what": format!("execution of {} died: {d}", seq_text(&s))}]})
}

fn main() {
    let mut run = vcommon::Run::from_args("C24", "exploration");
    vcommon::install_quiet_panic_hook();
    master();
    // Keep the 1 MiB blocks on the ordinary heap and never give memory back to the kernel:
    // mmap/munmap churn (fresh pages on every request) dominated the run time otherwise.
    unsafe {
        libc::mallopt(libc::M_MMAP_THRESHOLD, 32 << 20);
        libc::mallopt(libc::M_TRIM_THRESHOLD, i32::MAX);
        libc::mallopt(libc::M_TOP_PAD, 64 << 20);
    }

    if let Some(d) = run.replay_detail() {
        let seq: Vec<Op> = d["ops"]
            .as_array()
            .map(|a| a.iter().map(op_from_json).collect())
            .unwrap_or_default();
        println!("replay: {}", seq_text(&seq));
        let mut st = Stats::default();
        let out = vcommon::isolated(60_000, || {
            let f = exec(&seq, &mut st, true);
            match f {
                Some(f) => format!("still fails at step {} [{}] {}: {}", f.step, f.kind, f.sig, f.msg)
                    .into_bytes(),
                None => Vec::new(),
            }
        });
        match out {
            vcommon::Outcome::Ok(b) if b.is_empty() => {
                println!("no violation");
                std::process::exit(0)
            }
            vcommon::Outcome::Ok(b) => {
                println!("{}", String::from_utf8_lossy(&b));
                std::process::exit(1)
            }
            o => {
                println!("still fails: execution died: {}", o.describe());
                std::process::exit(1)
            }
        }
    }

    let families: Vec<Family> = if run.thorough() {
        vec![
            Family { name: "mixed", host: true, scratch: true, depth: 3 },
            Family { name: "host", host: true, scratch: false, depth: 4 },
            Family { name: "scratch", host: false, scratch: true, depth: 4 },
        ]
    } else {
        vec![
            // scratch-only sequences of depth 2 are part of "mixed"
            Family { name: "mixed", host: true, scratch: true, depth: 2 },
            Family { name: "host", host: true, scratch: false, depth: 3 },
        ]
    };

    let max_units: Option<usize> = run
        .extra_args
        .iter()
        .position(|a| a == "--max-units")
        .and_then(|i| run.extra_args.get(i + 1))
        .and_then(|s| s.parse().ok());
    let mut total_exec = 0u64;
    let mut total_steps = 0u64;
    let mut nontrivial: BTreeSet<String> = BTreeSet::new();
    let mut outcomes: BTreeSet<String> = BTreeSet::new();
    let mut per_family = Vec::new();
    // key -> (len, seq json, what)
    let mut found: BTreeMap<String, (usize, Vec<Op>, String)> = BTreeMap::new();
    let mut fail_count = 0u64;
    let mut samples: Vec<Value> = Vec::new();

    let only_family = std::env::var("C24_ONLY_FAMILY").ok(); // debugging aid
    for fam in &families {
        if only_family.as_deref().is_some_and(|f| f != fam.name) {
            continue;
        }
        let mut units = prefixes(fam, 1);
        if let Some(m) = max_units {
            // debugging aid only (evidence then says exhaustive: false)
            units.truncate(m);
        }
        // Work is split into one group of units per worker. A group runs in a child of the
        // worker, so that an abort in the code under test (handle_alloc_error, heap corruption)
        // is an observation and not a lost worker; if the child dies, the group's units are
        // re-run one per child, and the dying unit sequence by sequence, to name the culprit.
        let ngroups = vcommon::ncpu().min(units.len()).max(1);
        let grouped = vcommon::par_map(ngroups, ngroups, |g| {
            let idx: Vec<usize> = (g..units.len()).step_by(ngroups).collect();
            let out = vcommon::isolated(3_600_000, || {
                let v: Vec<Value> = idx.iter().map(|u| run_unit(fam, &units[*u])).collect();
                serde_json::to_vec(&v).unwrap()
            });
            let arr: Vec<Value> = match out {
                vcommon::Outcome::Ok(b) => serde_json::from_slice(&b).unwrap(),
                _ => idx
                    .iter()
                    .map(|u| {
                        let prefix = &units[*u];
                        match vcommon::isolated(600_000, || serde_json::to_vec(&run_unit(fam, prefix)).unwrap()) {
                            vcommon::Outcome::Ok(b) => serde_json::from_slice(&b).unwrap(),
                            o => locate_death(fam, prefix, &o),
                        }
                    })
                    .collect(),
            };
            json!({"idx": idx, "res": arr})
        });
        let mut res: Vec<Value> = vec![Value::Null; units.len()];
        for g in &grouped {
            for (i, r) in g["idx"].as_array().unwrap().iter().zip(g["res"].as_array().unwrap()) {
                res[i.as_u64().unwrap() as usize] = r.clone();
            }
        }
        let mut n = 0u64;
        for (u, r) in res.iter().enumerate() {
            n += r["n"].as_u64().unwrap();
            total_steps += r["steps"].as_u64().unwrap();
            fail_count += r["nfail"].as_u64().unwrap();
            for x in r["nontrivial"].as_array().unwrap() {
                nontrivial.insert(x.as_str().unwrap().to_string());
            }
            for x in r["outcomes"].as_array().unwrap() {
                outcomes.insert(x.as_str().unwrap().to_string());
            }
            for f in r["fails"].as_array().unwrap() {
                let ops: Vec<Op> = f["ops"].as_array().unwrap().iter().map(op_from_json).collect();
                let key = f["key"].as_str().unwrap().to_string();
                let e = found.entry(key).or_insert((usize::MAX, vec![], String::new()));
                if ops.len() < e.0 || (ops.len() == e.0 && ops < e.1) {
                    *e = (ops.len(), ops, f["what"].as_str().unwrap().to_string());
                }
            }
            if (u + 1).is_power_of_two() && samples.len() < 12 {
                samples.push(json!({"family": fam.name, "unit_prefix": seq_text(&units[u]), "sequences": r["n"]}));
            }
        }
        total_exec += n;
        per_family.push(json!({"family": fam.name, "host_ops": fam.host, "scratch_ops": fam.scratch, "depth": fam.depth, "sequences": n}));
    }
    for (key, (_, ops, what)) in &found {
        run.violation(
            key,
            what,
            json!({"ops": ops.iter().map(op_json).collect::<Vec<_>>(), "text": seq_text(ops)}),
        );
    }
    let nfound = found.len();
    run.finish(
        json!({
            "alphabet": {"aligns": ALIGNS, "sizes": SIZES,
                         "ops": ["alloc(align,size)", "realloc(block,new_size)", "free(block)", "cleanup_new(align,size)", "cleanup_drop(block)", "cleanup_forget(block)"]},
            "bound": per_family,
            "oracle": "non-null, aligned, zero size -> align value, backed by a live allocator block >= size, contents preserved up to min(old,new), untouched blocks intact, Cleanup pointer null iff size 0, dropped Cleanup freed exactly once with its own layout, forget frees nothing, ledger balanced after every step",
            "evaluations": total_exec,
            "steps_checked": total_steps,
            "distinct_nontrivial": nontrivial.len(),
            "rule": "distinct request signatures (operation, align, old size, new size) whose call reached the global allocator (at least one alloc/realloc/dealloc event observed)",
            "distinct_outcomes": outcomes.len(),
            "outcome_classes": outcomes,
            "failing_sequences": fail_count,
            "distinct_failure_keys": nfound,
            "exhaustive": max_units.is_none() && std::env::var_os("C24_ONLY_FAMILY").is_none(),
            "samples": samples,
        }),
        vec![
            "a non-empty block is never reallocated to size 0 (the function documents this as a precondition; the canonical ABI never issues such a request)".into(),
            "realloc keeps the alignment the block was allocated with".into(),
            "the platform allocator (std System) is trusted to honour layouts; the recording wrapper always releases with the true layout".into(),
            "host blocks are freed through the generated cabi_dealloc runtime item".into(),
        ],
    );
}
