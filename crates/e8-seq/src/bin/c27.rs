//! C27 — distinct packages get distinct generated module names.
//!
//! Space: all sets of 2 (quick) / 2..3 (thorough) dependency packages in one namespace `t`,
//! a package being (name, version) with name ∈ NAMES and version ∈ VERSIONS (incl. none).
//! Every dependency package defines `interface i { f: func(); }`; a main package `t:main`
//! has a world importing `i` from every dependency. The packages are real WIT text pushed
//! into a real `wit_parser::Resolve`.
//!
//! Oracle: (1) `name_package_module(resolve, p)` pairwise distinct over the dependency
//! packages; (2) the Rust generator's output (parsed with syn) defines no module twice in the
//! same parent. Violations are keyed by the sorted set of package ids that collide.
use serde_json::{json, Value};
use std::collections::{BTreeMap, BTreeSet};
use wit_bindgen_core::{name_package_module, Files, WorldGenerator};
use wit_parser::Resolve;

const NAMES: [&str; 3] = ["foo", "foo-bar", "foo1"];
const VERSIONS: [&str; 14] = [
    "",
    "1.0.0",
    "1.0.1",
    "0.1.0",
    "0.2.0",
    "1.0.0-rc.1",
    "1.0.0-rc-1",
    "1.0.0-rc1",
    "1.0.0-RC.1",
    "1.0.0+b.1",
    "1.0.0-b.1",
    "1.0.0-a+b",
    "1.0.0-a.b",
    "10.1.0",
];

fn npk() -> usize {
    NAMES.len() * VERSIONS.len()
}

fn pkg_id(p: usize) -> String {
    let n = NAMES[p / VERSIONS.len()];
    let v = VERSIONS[p % VERSIONS.len()];
    if v.is_empty() {
        format!("t:{n}")
    } else {
        format!("t:{n}@{v}")
    }
}

fn iface_ref(p: usize) -> String {
    let n = NAMES[p / VERSIONS.len()];
    let v = VERSIONS[p % VERSIONS.len()];
    if v.is_empty() {
        format!("t:{n}/i")
    } else {
        format!("t:{n}/i@{v}")
    }
}

fn wit_texts(ids: &[String], irefs: &[String]) -> Vec<String> {
    let mut out = Vec::new();
    for id in ids {
        out.push(format!("package {id};\ninterface i {{ f: func(); }}\n"));
    }
    let mut main = String::from("package t:main;\nworld w {\n");
    for r in irefs {
        main.push_str(&format!("  import {r};\n"));
    }
    main.push_str("}\n");
    out.push(main);
    out
}

fn dup_modules(items: &[syn::Item], path: &str, out: &mut Vec<String>) {
    let mut seen = BTreeSet::new();
    for it in items {
        if let syn::Item::Mod(m) = it {
            let name = m.ident.to_string();
            let p = format!("{path}::{name}");
            if !seen.insert(name) {
                out.push(p.clone());
            }
            if let Some((_, inner)) = &m.content {
                dup_modules(inner, &p, out);
            }
        }
    }
}

struct Eval {
    /// None = the package set was rejected by wit-parser (not a valid input)
    invalid: Option<String>,
    names: Vec<String>,
    /// groups of colliding package ids (sorted)
    collisions: Vec<(String, Vec<String>)>,
    gen: String,
    dups: Vec<String>,
}

fn eval(ids: &[String], irefs: &[String], with_gen: bool) -> Eval {
    let mut ev = Eval {
        invalid: None,
        names: vec![],
        collisions: vec![],
        gen: String::new(),
        dups: vec![],
    };
    let texts = wit_texts(ids, irefs);
    let mut resolve = Resolve::default();
    let mut pids = Vec::new();
    for (i, t) in texts.iter().enumerate() {
        match resolve.push_str(format!("p{i}.wit"), t) {
            Ok(id) => pids.push(id),
            Err(e) => {
                ev.invalid = Some(format!("{e:#}"));
                return ev;
            }
        }
    }
    let main = *pids.last().unwrap();
    let mut by_name: BTreeMap<String, Vec<String>> = BTreeMap::new();
    for (i, id) in ids.iter().enumerate() {
        // make sure we talk about the package we pushed
        let pn = resolve.packages[pids[i]].name.to_string();
        if &pn != id {
            vcommon::machinery(&format!("package id mismatch: pushed {id}, resolve has {pn}"));
        }
        let m = name_package_module(&resolve, pids[i]);
        by_name.entry(m.clone()).or_default().push(id.clone());
        ev.names.push(m);
    }
    // every colliding *pair* is one finding (a group of three is three pairs), so that the
    // same collision has the same key whatever else is in the package set
    for (m, mut v) in by_name {
        v.sort();
        for i in 0..v.len() {
            for j in i + 1..v.len() {
                ev.collisions.push((m.clone(), vec![v[i].clone(), v[j].clone()]));
            }
        }
    }
    if with_gen {
        let world = resolve.packages[main].worlds["w"];
        let mut opts = wit_bindgen_rust::Opts::default();
        opts.generate_all = true;
        let mut g = opts.build();
        let mut files = Files::default();
        let r = vcommon::catch(|| g.generate(&mut resolve, world, &mut files));
        match r {
            Err(p) => ev.gen = format!("panic: {p}"),
            Ok(Err(e)) => ev.gen = format!("error: {e:#}"),
            Ok(Ok(())) => {
                let mut n = 0;
                for (name, bytes) in files.iter() {
                    if !name.ends_with(".rs") {
                        continue;
                    }
                    n += 1;
                    let text = String::from_utf8_lossy(bytes);
                    match syn::parse_file(&text) {
                        Ok(f) => dup_modules(&f.items, "", &mut ev.dups),
                        Err(e) => ev.gen = format!("unparsable output: {e}"),
                    }
                }
                if ev.gen.is_empty() {
                    ev.gen = format!("ok({n} file)");
                }
            }
        }
    }
    ev
}

fn subsets(n: usize, k: usize) -> Vec<Vec<usize>> {
    fn rec(n: usize, k: usize, start: usize, cur: &mut Vec<usize>, out: &mut Vec<Vec<usize>>) {
        if cur.len() == k {
            out.push(cur.clone());
            return;
        }
        for i in start..n {
            cur.push(i);
            rec(n, k, i + 1, cur, out);
            cur.pop();
        }
    }
    let mut out = Vec::new();
    rec(n, k, 0, &mut Vec::new(), &mut out);
    out
}

fn main() {
    let mut run = vcommon::Run::from_args("C27", "exploration");
    vcommon::install_quiet_panic_hook();

    if let Some(d) = run.replay_detail() {
        let ids: Vec<String> = d["packages"]
            .as_array()
            .unwrap()
            .iter()
            .map(|v| v.as_str().unwrap().to_string())
            .collect();
        let irefs: Vec<String> = d["imports"]
            .as_array()
            .unwrap()
            .iter()
            .map(|v| v.as_str().unwrap().to_string())
            .collect();
        println!("replay: packages {ids:?}");
        for t in wit_texts(&ids, &irefs) {
            println!("--- wit ---\n{t}");
        }
        let ev = eval(&ids, &irefs, true);
        if let Some(e) = &ev.invalid {
            println!("rejected by wit-parser: {e}");
            std::process::exit(0);
        }
        println!("module names: {:?}", ev.names);
        println!("rust generator: {} duplicate modules: {:?}", ev.gen, ev.dups);
        if !ev.collisions.is_empty() || !ev.dups.is_empty() {
            println!("still fails: {:?}", ev.collisions);
            std::process::exit(1);
        }
        println!("no violation");
        std::process::exit(0);
    }

    let max_k: usize = run.pick(2, 3);
    let n = npk();
    let mut sets = Vec::new();
    for k in 2..=max_k {
        sets.extend(subsets(n, k));
    }
    // family X: two names x two versions each (a version is only mangled into the module
    // name when a second version of the same name is present, so a clash between
    // name+version and another name needs four packages)
    let xv: Vec<usize> = ["1.0.0", "1.0.1", "0.1.0", "0.2.0", "10.1.0"]
        .iter()
        .map(|v| VERSIONS.iter().position(|x| x == v).unwrap())
        .collect();
    let mut family_x = 0usize;
    for n1 in 0..NAMES.len() {
        for n2 in n1 + 1..NAMES.len() {
            for a in subsets(xv.len(), 2) {
                for b in subsets(xv.len(), 2) {
                    let mut s = vec![
                        n1 * VERSIONS.len() + xv[a[0]],
                        n1 * VERSIONS.len() + xv[a[1]],
                        n2 * VERSIONS.len() + xv[b[0]],
                        n2 * VERSIONS.len() + xv[b[1]],
                    ];
                    s.sort();
                    sets.push(s);
                    family_x += 1;
                }
            }
        }
    }
    let res = vcommon::par_map(sets.len(), vcommon::ncpu(), |i| {
        let s = &sets[i];
        let ids: Vec<String> = s.iter().map(|p| pkg_id(*p)).collect();
        let irefs: Vec<String> = s.iter().map(|p| iface_ref(*p)).collect();
        let ev = eval(&ids, &irefs, true);
        json!({
            "invalid": ev.invalid,
            "names": ev.names,
            "collisions": ev.collisions.iter().map(|(m, v)| json!({"module": m, "pkgs": v})).collect::<Vec<_>>(),
            "gen": ev.gen,
            "dups": ev.dups,
        })
    });

    let mut evals = 0u64;
    let mut invalid = 0u64;
    let mut invalid_samples = BTreeSet::new();
    let mut mangled = 0u64;
    let mut distinct_names = BTreeSet::new();
    let mut gen_outcomes: BTreeMap<String, u64> = BTreeMap::new();
    let mut samples: Vec<Value> = Vec::new();
    // key -> (size of smallest exhibiting set, detail)
    let mut found: BTreeMap<String, (usize, String, Value)> = BTreeMap::new();
    for (i, r) in res.iter().enumerate() {
        let s = &sets[i];
        let ids: Vec<String> = s.iter().map(|p| pkg_id(*p)).collect();
        let irefs: Vec<String> = s.iter().map(|p| iface_ref(*p)).collect();
        if let Some(e) = r["invalid"].as_str() {
            invalid += 1;
            if invalid_samples.len() < 3 {
                invalid_samples.insert(format!("{ids:?}: {}", e.lines().next().unwrap_or("")));
            }
            continue;
        }
        evals += 1;
        let names: Vec<String> = r["names"]
            .as_array()
            .unwrap()
            .iter()
            .map(|v| v.as_str().unwrap().to_string())
            .collect();
        // non-trivial: at least one package needed a version-mangled module name
        if names
            .iter()
            .zip(s.iter())
            .any(|(m, p)| m.len() > NAMES[*p / VERSIONS.len()].len())
        {
            mangled += 1;
        }
        for m in &names {
            distinct_names.insert(m.clone());
        }
        let gen = r["gen"].as_str().unwrap().to_string();
        let gen_class = gen.split(':').next().unwrap().to_string();
        *gen_outcomes.entry(gen_class).or_insert(0) += 1;
        if evals.is_power_of_two() && samples.len() < 10 {
            samples.push(json!({"packages": ids, "modules": names, "rust_generator": gen}));
        }
        let dups: Vec<String> = r["dups"]
            .as_array()
            .unwrap()
            .iter()
            .map(|v| v.as_str().unwrap().to_string())
            .collect();
        let cols = r["collisions"].as_array().unwrap();
        for c in cols {
            let pk: Vec<String> = c["pkgs"]
                .as_array()
                .unwrap()
                .iter()
                .map(|v| v.as_str().unwrap().to_string())
                .collect();
            let key = pk.join("|");
            let what = format!(
                "packages {} all get module name `{}` (set {:?}); rust generator: {}{}",
                pk.join(", "),
                c["module"].as_str().unwrap(),
                ids,
                gen,
                if dups.is_empty() {
                    String::new()
                } else {
                    format!(", modules defined twice: {dups:?}")
                }
            );
            let detail = json!({"packages": ids, "imports": irefs, "colliding": pk, "module": c["module"]});
            let e = found.entry(key).or_insert((usize::MAX, String::new(), Value::Null));
            if s.len() < e.0 {
                *e = (s.len(), what, detail);
            }
        }
        if cols.is_empty() && !dups.is_empty() {
            let key = format!("gen-dup:{}", ids.join("|"));
            let what = format!(
                "rust generator defines modules twice for packages {ids:?}: {dups:?} although module names {names:?} are distinct"
            );
            found.entry(key).or_insert((
                s.len(),
                what,
                json!({"packages": ids, "imports": irefs}),
            ));
        }
        if gen.starts_with("panic") || gen.starts_with("unparsable") {
            // not this property's subject unless caused by a collision; recorded in outcomes only
        }
    }
    let ncoll = found.len();
    for (key, (_, what, detail)) in &found {
        run.violation(key, what, detail.clone());
    }
    println!(
        "C27 collision keys ({ncoll}): {}",
        found.keys().cloned().collect::<Vec<_>>().join(" ; ")
    );
    run.finish(
        json!({
            "alphabet": {"namespace": "t", "names": NAMES, "versions": VERSIONS},
            "bound": format!("all sets of 2..={max_k} packages out of {n} (name,version) pairs + {family_x} four-package sets (2 names x 2 versions out of 1.0.0,1.0.1,0.1.0,0.2.0,10.1.0)"),
            "oracle": "name_package_module pairwise distinct over the set; syn-parsed Rust generator output has no module defined twice in one parent",
            "evaluations": evals,
            "sets_enumerated": sets.len(),
            "sets_rejected_by_wit_parser": invalid,
            "rejected_samples": invalid_samples.into_iter().collect::<Vec<_>>(),
            "distinct_nontrivial": mangled,
            "rule": "package sets (all distinct) in which at least one package received a version-mangled module name (two versions of one name present)",
            "distinct_outcomes": distinct_names.len(),
            "rust_generator_outcomes": gen_outcomes,
            "distinct_collisions": ncoll,
            "exhaustive": true,
            "samples": samples,
        }),
        vec![
            "package names limited to the listed kebab names; versions to the listed strings".into(),
            "every dependency exposes the same interface name `i`, so a module-name collision also shows as a duplicate `mod i`".into(),
            "generator run with Opts::default() + generate_all".into(),
        ],
    );
}
