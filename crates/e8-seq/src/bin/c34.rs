//! C34 — test configuration is read from exactly the leading comment block.
//!
//! Subject: `parse_test_config`, `StringList`, `RuntimeTestConfig` of crates/test/src/config.rs.
//! `mod config` is private in wit-bindgen-test, so build.rs compiles the file from the
//! repository working tree, byte for byte, as a module of this binary.
//!
//! Space A (files): all files of ≤ N lines over a 9-line alphabet (config lines, a line with
//! the marker glued to the key, blank, code, a plain comment, a late config line, an indented
//! marker line, string-form args) × {with, without} final newline × markers {`//@`, `;;@`}.
//! Oracle: reference = leading lines that start with the marker, marker removed, joined with
//! LF, parsed as TOML (`toml::Table`); the real parser instantiated at `toml::Table` must give
//! the same table or also fail. Typed: when the reference table only has `args` /
//! `wasmtime-flags` with string / string-array values, `RuntimeTestConfig` must parse and both
//! lists must equal the reference word lists.
//!
//! Space B (argument strings): all strings of length ≤ L over {x, y, -, space, tab}; oracle:
//! `Vec::from(StringList::String(s))` == words(s) == `Vec::from(StringList::List(words(s)))`,
//! and the same through a one-line config file in both spellings.
use serde_json::{json, Value};
use std::collections::BTreeSet;

include!(concat!(env!("OUT_DIR"), "/test_config_mod.rs"));
use config::{parse_test_config, RuntimeTestConfig, StringList};

fn line_alphabet(marker: &str) -> Vec<String> {
    let cc = &marker[..2];
    vec![
        format!("{marker} a = 1"),
        format!("{marker} b = \"x y\""),
        format!("{marker}args = ['x', 'y']"),
        String::new(),
        "code".to_string(),
        format!("{cc} plain"),
        format!("{marker} late = 1"),
        format!("{marker} args = 'x  y'"),
        format!(" {marker} a = 2"),
    ]
}

/// Reference: text of the configuration block.
fn ref_block(contents: &str, marker: &str) -> (String, usize, usize) {
    let mut out: Vec<&str> = Vec::new();
    let mut total = 0usize;
    let mut in_block = true;
    // a "line" is a maximal run of characters without LF; a final LF does not start a line
    let body = contents.strip_suffix('\n').unwrap_or(contents);
    if !contents.is_empty() {
        for l in body.split('\n') {
            total += 1;
            if in_block {
                if l.len() >= marker.len() && &l.as_bytes()[..marker.len()] == marker.as_bytes() {
                    out.push(&l[marker.len()..]);
                } else {
                    in_block = false;
                }
            }
        }
    }
    let n = out.len();
    (out.join("\n"), n, total)
}

fn words(s: &str) -> Vec<String> {
    let mut v = Vec::new();
    let mut cur = String::new();
    for c in s.chars() {
        if c.is_whitespace() {
            if !cur.is_empty() {
                v.push(std::mem::take(&mut cur));
            }
        } else {
            cur.push(c);
        }
    }
    if !cur.is_empty() {
        v.push(cur);
    }
    v
}

/// reference reading of a `StringList`-typed TOML value
fn ref_list(v: &toml::Value) -> Option<Vec<String>> {
    match v {
        toml::Value::String(s) => Some(words(s)),
        toml::Value::Array(a) => a
            .iter()
            .map(|x| x.as_str().map(|s| s.to_string()))
            .collect(),
        _ => None,
    }
}

/// Returns (violation description, outcome label)
fn check_file(contents: &str, marker: &str) -> (Option<String>, String) {
    let (block, _, _) = ref_block(contents, marker);
    let expect: Result<toml::Table, _> = toml::from_str(&block);
    let real = vcommon::catch(|| parse_test_config::<toml::Table>(contents, marker));
    let real = match real {
        Ok(r) => r,
        Err(p) => return (Some(format!("parse_test_config panicked: {p}")), "panic".into()),
    };
    let label;
    match (&expect, &real) {
        (Ok(e), Ok(r)) => {
            if e != r {
                return (
                    Some(format!(
                        "configuration differs: expected the TOML of {block:?} = {e:?}, parser returned {r:?}"
                    )),
                    "diff".into(),
                );
            }
            label = format!("ok:{}", toml::to_string(e).unwrap_or_default());
        }
        (Err(_), Err(_)) => {
            label = "err".to_string();
        }
        (Ok(e), Err(r)) => {
            return (
                Some(format!(
                    "expected the TOML of {block:?} = {e:?}, parser failed: {r:#}"
                )),
                "diff".into(),
            )
        }
        (Err(e), Ok(r)) => {
            return (
                Some(format!(
                    "block {block:?} is not valid TOML ({}), parser returned {r:?}",
                    e.to_string().lines().next().unwrap_or("")
                )),
                "diff".into(),
            )
        }
    }
    // typed view
    if let Ok(t) = &expect {
        let only_lists = t
            .iter()
            .all(|(k, v)| (k == "args" || k == "wasmtime-flags") && ref_list(v).is_some());
        if only_lists {
            let real = vcommon::catch(|| parse_test_config::<RuntimeTestConfig>(contents, marker));
            match real {
                Err(p) => return (Some(format!("typed parse panicked: {p}")), "panic".into()),
                Ok(Err(e)) => {
                    return (
                        Some(format!(
                            "block {block:?} holds only argument lists but RuntimeTestConfig failed: {e:#}"
                        )),
                        "diff".into(),
                    )
                }
                Ok(Ok(cfg)) => {
                    let a: Vec<String> = cfg.args.into();
                    let w: Vec<String> = cfg.wasmtime_flags.into();
                    let ea = t.get("args").and_then(ref_list).unwrap_or_default();
                    let ew = t.get("wasmtime-flags").and_then(ref_list).unwrap_or_default();
                    if a != ea || w != ew {
                        return (
                            Some(format!(
                                "typed lists differ: args {a:?} (expected {ea:?}), wasmtime-flags {w:?} (expected {ew:?})"
                            )),
                            "diff".into(),
                        );
                    }
                }
            }
        }
    }
    (None, label)
}

fn check_args(s: &str) -> Option<String> {
    let w = words(s);
    let from_s: Vec<String> = StringList::String(s.to_string()).into();
    if from_s != w {
        return Some(format!("StringList::String({s:?}) -> {from_s:?}, words are {w:?}"));
    }
    let from_l: Vec<String> = StringList::List(w.clone()).into();
    if from_l != w {
        return Some(format!("StringList::List({w:?}) -> {from_l:?}"));
    }
    // through a file, both spellings (TOML literal strings; the alphabet has no quote or LF)
    let f1 = format!("//@ args = '{s}'\ncode\n");
    let list = w
        .iter()
        .map(|x| format!("'{x}'"))
        .collect::<Vec<_>>()
        .join(", ");
    let f2 = format!("//@ args = [{list}]\ncode\n");
    for f in [&f1, &f2] {
        match vcommon::catch(|| parse_test_config::<RuntimeTestConfig>(f, "//@")) {
            Err(p) => return Some(format!("panic on {f:?}: {p}")),
            Ok(Err(e)) => return Some(format!("file {f:?} failed to parse: {e:#}")),
            Ok(Ok(c)) => {
                let a: Vec<String> = c.args.into();
                if a != w {
                    return Some(format!("file {f:?}: args {a:?}, expected {w:?}"));
                }
            }
        }
    }
    None
}

fn build_file(lines: &[String], idx: &[usize], final_nl: bool) -> String {
    let mut s = idx
        .iter()
        .map(|i| lines[*i].as_str())
        .collect::<Vec<_>>()
        .join("\n");
    if final_nl && !idx.is_empty() {
        s.push('\n');
    }
    s
}

fn minimise(lines: &[String], idx: &[usize], final_nl: bool, marker: &str) -> Vec<usize> {
    let mut cur = idx.to_vec();
    loop {
        let mut changed = false;
        let mut i = 0;
        while i < cur.len() {
            let mut t = cur.clone();
            t.remove(i);
            if check_file(&build_file(lines, &t, final_nl), marker).0.is_some() {
                cur = t;
                changed = true;
            } else {
                i += 1;
            }
        }
        if !changed {
            return cur;
        }
    }
}

const ARG_CHARS: [char; 5] = ['x', 'y', '-', ' ', '\t'];

fn main() {
    let mut run = vcommon::Run::from_args("C34", "exploration");
    vcommon::install_quiet_panic_hook();

    if let Some(d) = run.replay_detail() {
        let fail = if let Some(s) = d["arg_string"].as_str() {
            println!("replay: argument string {s:?}");
            check_args(s)
        } else {
            let c = d["contents"].as_str().unwrap_or("");
            let m = d["marker"].as_str().unwrap_or("//@");
            println!("replay: marker {m:?} file {c:?}");
            println!("reference block: {:?}", ref_block(c, m).0);
            println!(
                "real parse (toml::Table): {:?}",
                parse_test_config::<toml::Table>(c, m).map_err(|e| format!("{e:#}"))
            );
            check_file(c, m).0
        };
        match fail {
            Some(m) => {
                println!("still fails: {m}");
                std::process::exit(1)
            }
            None => {
                println!("no violation");
                std::process::exit(0)
            }
        }
    }

    let max_lines: usize = run.pick(4, 5);
    let arg_len: usize = run.pick(6, 8);
    let markers = ["//@", ";;@"];

    // ---- space A -------------------------------------------------------------------
    // work units: marker × first line (or the empty file)
    let nl = line_alphabet("//@").len();
    let units = markers.len() * (nl + 1);
    let res = vcommon::par_map(units, vcommon::ncpu(), |u| {
        let marker = markers[u / (nl + 1)];
        let lines = line_alphabet(marker);
        let first = u % (nl + 1);
        let mut evals = 0u64;
        let mut nontrivial = 0u64;
        let mut outcomes = BTreeSet::new();
        let mut fails: BTreeSet<(usize, Vec<usize>, bool)> = BTreeSet::new();
        let mut fail_count = 0u64;
        let mut samples = Vec::new();
        let mut todo: Vec<Vec<usize>> = Vec::new();
        if first == nl {
            todo.push(vec![]);
        } else {
            // all extensions of [first] up to max_lines
            let mut stack = vec![vec![first]];
            while let Some(s) = stack.pop() {
                if s.len() < max_lines {
                    for i in 0..nl {
                        let mut t = s.clone();
                        t.push(i);
                        stack.push(t);
                    }
                }
                todo.push(s);
            }
        }
        for idx in &todo {
            for final_nl in [true, false] {
                if idx.is_empty() && !final_nl {
                    continue;
                }
                let f = build_file(&lines, idx, final_nl);
                let (v, label) = check_file(&f, marker);
                evals += 1;
                let (_, nblock, total) = ref_block(&f, marker);
                if nblock > 0 && nblock < total {
                    nontrivial += 1;
                }
                outcomes.insert(label);
                if v.is_some() {
                    fail_count += 1;
                    if fails.len() < 100 {
                        let m = minimise(&lines, idx, final_nl, marker);
                        fails.insert((m.len(), m, final_nl));
                    }
                }
                if evals % 1499 == 7 && samples.len() < 2 {
                    samples.push(json!({"marker": marker, "file": f, "block": ref_block(&f, marker).0}));
                }
            }
        }
        json!({"evals": evals, "nontrivial": nontrivial, "marker": marker,
               "outcomes": outcomes.into_iter().collect::<Vec<_>>(),
               "fails": fails.into_iter().map(|(_, m, n)| json!({"idx": m, "nl": n})).collect::<Vec<_>>(),
               "fail_count": fail_count, "samples": samples})
    });
    let mut evals = 0u64;
    let mut nontrivial = 0u64;
    let mut fail_count = 0u64;
    let mut outcomes = BTreeSet::new();
    let mut samples: Vec<Value> = Vec::new();
    let mut fails: BTreeSet<(usize, String, String)> = BTreeSet::new();
    for r in &res {
        evals += r["evals"].as_u64().unwrap();
        nontrivial += r["nontrivial"].as_u64().unwrap();
        fail_count += r["fail_count"].as_u64().unwrap();
        for o in r["outcomes"].as_array().unwrap() {
            outcomes.insert(o.as_str().unwrap().to_string());
        }
        for s in r["samples"].as_array().unwrap() {
            if samples.len() < 10 {
                samples.push(s.clone());
            }
        }
        let marker = r["marker"].as_str().unwrap();
        let lines = line_alphabet(marker);
        for f in r["fails"].as_array().unwrap() {
            let idx: Vec<usize> = f["idx"]
                .as_array()
                .unwrap()
                .iter()
                .map(|x| x.as_u64().unwrap() as usize)
                .collect();
            let text = build_file(&lines, &idx, f["nl"].as_bool().unwrap());
            fails.insert((idx.len(), marker.to_string(), text));
        }
    }
    for (_, marker, text) in fails.iter().take(10) {
        let what = check_file(text, marker).0.unwrap_or_default();
        run.violation(
            &format!("file:{marker}:{text:?}"),
            &format!("marker {marker:?}, file {text:?}: {what}"),
            json!({"marker": marker, "contents": text}),
        );
    }

    // ---- space B -------------------------------------------------------------------
    let mut arg_evals = 0u64;
    let mut arg_nontrivial = 0u64;
    let mut arg_fail: Vec<(usize, String, String)> = Vec::new();
    for len in 0..=arg_len {
        let total = (ARG_CHARS.len() as u64).pow(len as u32);
        for k in 0..total {
            let mut x = k;
            let mut s = String::new();
            for _ in 0..len {
                s.push(ARG_CHARS[(x % 5) as usize]);
                x /= 5;
            }
            arg_evals += 1;
            if words(&s).len() >= 2 || s.starts_with([' ', '\t']) || s.ends_with([' ', '\t']) {
                arg_nontrivial += 1;
            }
            if let Some(m) = check_args(&s) {
                arg_fail.push((len, s, m));
            }
        }
    }
    let arg_fail_count = arg_fail.len();
    arg_fail.sort();
    for (_, s, m) in arg_fail.iter().take(5) {
        run.violation(
            &format!("args:{s:?}"),
            &format!("argument string {s:?}: {m}"),
            json!({"arg_string": s}),
        );
    }
    samples.push(json!({"arg_string": "x \t-y", "words": words("x \t-y")}));

    run.finish(
        json!({
            "alphabet": {"lines(marker //@)": line_alphabet("//@"), "markers": markers, "arg_chars": "x y - SP TAB"},
            "bound": format!("files of <= {max_lines} lines x final newline yes/no x 2 markers; argument strings of length <= {arg_len}"),
            "oracle": "leading marker lines, marker removed, joined by LF, parsed as TOML == parse_test_config::<toml::Table>; typed RuntimeTestConfig lists == reference words; StringList string form == list of its words",
            "evaluations": evals + arg_evals,
            "file_evaluations": evals,
            "arg_string_evaluations": arg_evals,
            "distinct_nontrivial": nontrivial + arg_nontrivial,
            "rule": "distinct files whose configuration block is non-empty and followed by at least one other line (something has to be cut) + distinct argument strings with >= 2 words or leading/trailing whitespace",
            "distinct_outcomes": outcomes.len(),
            "failing_files": fail_count,
            "failing_arg_strings": arg_fail_count,
            "exhaustive": true,
            "samples": samples,
        }),
        vec![
            "lines are LF-separated (no CR in the alphabet)".into(),
            "error messages are not compared, only success/failure and the parsed value".into(),
            "typed check only when the block holds nothing but args / wasmtime-flags of string or string-array type".into(),
        ],
    );
}
