//! C26 — fresh temporaries never collide with defined names.
//!
//! Space: every sequence of exactly `depth` operations over the alphabet
//! {insert(n), tmp(n)} × n ∈ {a, a0, a1, a00, b} (so every shorter sequence is covered as a
//! prefix; the oracle is evaluated after every step). Real object:
//! `wit_bindgen_core::Ns`. Reference: a plain set of names.
//!
//! Oracle (only what the statement says):
//!  * a name returned by `tmp` is not in the set of names previously inserted (Ok) or handed out;
//!  * `insert(n)` of a name that is in that set returns `Err`.
//! Not demanded: that `insert` of a fresh name is `Ok`, or what a temporary looks like.
use serde_json::{json, Value};
use std::collections::BTreeSet;
use wit_bindgen_core::Ns;

const NAMES: [&str; 5] = ["a", "a0", "a1", "a00", "b"];
const NOPS: usize = 10;

fn op_text(op: usize) -> String {
    format!(
        "{}({})",
        if op < 5 { "insert" } else { "tmp" },
        NAMES[op % 5]
    )
}

fn seq_text(seq: &[usize]) -> String {
    seq.iter().map(|o| op_text(*o)).collect::<Vec<_>>().join(";")
}

struct Exec {
    /// hashes of the (reference set before, op, result) transitions that were a rename or a conflict
    trans: Vec<u64>,
    /// index of the first violating step and a description
    fail: Option<(usize, String)>,
    /// at least one step where the helper had to do something: rename or report a conflict
    nontrivial: bool,
    results: Vec<String>,
}

fn exec(seq: &[usize]) -> Exec {
    exec_t(seq, false)
}

fn exec_t(seq: &[usize], track: bool) -> Exec {
    let mut ns = Ns::default();
    let mut set: BTreeSet<String> = BTreeSet::new();
    let mut ex = Exec {
        trans: Vec::new(),
        fail: None,
        nontrivial: false,
        results: Vec::with_capacity(seq.len()),
    };
    for (i, &op) in seq.iter().enumerate() {
        let n = NAMES[op % 5];
        // hash of the reference set before the call (only needed for non-trivial transitions)
        let before = |set: &BTreeSet<String>| {
            let mut h: u64 = 0xcbf29ce484222325;
            for n in set {
                for b in n.bytes().chain(std::iter::once(b',')) {
                    h = (h ^ b as u64).wrapping_mul(0x100000001b3);
                }
            }
            h
        };
        if op < 5 {
            let r = ns.insert(n);
            let existed = set.contains(n);
            match &r {
                Ok(()) => {
                    if existed {
                        ex.fail = Some((
                            i,
                            format!("insert({n}) returned Ok although `{n}` was already defined / handed out"),
                        ));
                    }
                    set.insert(n.to_string());
                    ex.results.push("ok".into());
                }
                Err(_) => {
                    // a conflict on a fresh name is not covered by the statement
                    if existed {
                        ex.nontrivial = true;
                        if track {
                            ex.trans.push(before(&set) ^ (op as u64 + 1).wrapping_mul(0x9e3779b97f4a7c15));
                        }
                    }
                    ex.results.push("err".into());
                }
            }
        } else {
            let r = ns.tmp(n);
            if set.contains(&r) {
                ex.fail = Some((
                    i,
                    format!("tmp({n}) returned `{r}` which was already defined / handed out"),
                ));
            }
            if r != n {
                ex.nontrivial = true;
                if track {
                    ex.trans.push(
                        before(&set)
                            ^ (op as u64 + 1).wrapping_mul(0x9e3779b97f4a7c15)
                            ^ vcommon::fnv(r.as_bytes()).rotate_left(17),
                    );
                }
            }
            set.insert(r.clone());
            ex.results.push(r);
        }
        if ex.fail.is_some() {
            return ex;
        }
    }
    ex
}

/// Greedy removal of operations while the sequence still violates.
fn minimise(seq: &[usize]) -> Vec<usize> {
    let mut cur = seq.to_vec();
    loop {
        let mut changed = false;
        let mut i = 0;
        while i < cur.len() {
            let mut t = cur.clone();
            t.remove(i);
            if exec(&t).fail.is_some() {
                cur = t;
                changed = true;
            } else {
                i += 1;
            }
        }
        if !changed {
            break;
        }
    }
    // cut after the violating step
    if let Some((k, _)) = exec(&cur).fail {
        cur.truncate(k + 1);
    }
    cur
}

fn main() {
    let mut run = vcommon::Run::from_args("C26", "exploration");
    vcommon::install_quiet_panic_hook();

    if let Some(d) = run.replay_detail() {
        let seq: Vec<usize> = d["ops"]
            .as_array()
            .map(|a| a.iter().map(|v| v.as_u64().unwrap() as usize).collect())
            .unwrap_or_default();
        println!("replay: {}", seq_text(&seq));
        let ex = exec(&seq);
        println!("results: {:?}", ex.results);
        match ex.fail {
            Some((i, m)) => {
                println!("still fails at step {i}: {m}");
                std::process::exit(1)
            }
            None => {
                println!("no violation");
                std::process::exit(0)
            }
        }
    }

    let depth: usize = run.pick(6, 8);
    // work units: the first two operations
    let units = NOPS * NOPS;
    let res = vcommon::par_map(units, vcommon::ncpu(), |u| {
        let mut seq = vec![0usize; depth];
        seq[0] = u / NOPS;
        seq[1] = u % NOPS;
        let mut executed = 0u64;
        let mut nontrivial = 0u64;
        let mut trans: std::collections::HashSet<u64> = Default::default();
        let mut outcomes: BTreeSet<String> = BTreeSet::new();
        let mut fails: BTreeSet<Vec<usize>> = BTreeSet::new();
        let mut fail_count = 0u64;
        let mut sample = Value::Null;
        let rest = depth - 2;
        let total = (NOPS as u64).pow(rest as u32);
        for k in 0..total {
            let mut x = k;
            for j in (2..depth).rev() {
                seq[j] = (x % NOPS as u64) as usize;
                x /= NOPS as u64;
            }
            let ex = exec_t(&seq, true);
            executed += 1;
            for t in &ex.trans {
                trans.insert(*t);
            }
            if ex.nontrivial {
                nontrivial += 1;
            }
            for r in &ex.results {
                if !outcomes.contains(r) {
                    outcomes.insert(r.clone());
                }
            }
            if let Some((i, _)) = &ex.fail {
                fail_count += 1;
                if fails.len() < 200 {
                    fails.insert(minimise(&seq[..=*i]));
                }
            }
            if k == total / 3 {
                sample = json!({"ops": seq_text(&seq), "results": ex.results});
            }
        }
        json!({"executed": executed, "nontrivial": nontrivial, "trans": trans.into_iter().collect::<Vec<_>>(),
               "outcomes": outcomes.into_iter().collect::<Vec<_>>(),
               "fails": fails.into_iter().collect::<Vec<_>>(), "fail_count": fail_count, "sample": sample})
    });

    let mut executed = 0u64;
    let mut nontrivial = 0u64;
    let mut fail_count = 0u64;
    let mut outcomes = BTreeSet::new();
    let mut fails: BTreeSet<(usize, Vec<usize>)> = BTreeSet::new();
    let mut samples = Vec::new();
    let mut trans: std::collections::HashSet<u64> = Default::default();
    for r in &res {
        for t in r["trans"].as_array().unwrap() {
            trans.insert(t.as_u64().unwrap());
        }
        executed += r["executed"].as_u64().unwrap();
        nontrivial += r["nontrivial"].as_u64().unwrap();
        fail_count += r["fail_count"].as_u64().unwrap();
        for o in r["outcomes"].as_array().unwrap() {
            outcomes.insert(o.as_str().unwrap().to_string());
        }
        for f in r["fails"].as_array().unwrap() {
            let v: Vec<usize> = f
                .as_array()
                .unwrap()
                .iter()
                .map(|x| x.as_u64().unwrap() as usize)
                .collect();
            fails.insert((v.len(), v));
        }
        if samples.len() < 8 && !r["sample"].is_null() {
            samples.push(r["sample"].clone());
        }
    }
    // shortlex order; report the first few distinct minimal sequences
    for (_, f) in fails.iter().take(10) {
        let ex = exec(f);
        let (i, m) = ex.fail.clone().unwrap_or((0, "not reproducible".into()));
        run.violation(
            &seq_text(f),
            &format!("{} — after [{}], step {i}: {m}", seq_text(f), seq_text(&f[..i])),
            json!({"ops": f, "text": seq_text(f), "results": ex.results}),
        );
    }
    let prefixes: u64 = (1..=depth as u32).map(|k| (NOPS as u64).pow(k)).sum();
    run.finish(
        json!({
            "alphabet": {"ops": ["insert", "tmp"], "names": NAMES},
            "bound": format!("all sequences of length {depth} (every shorter sequence is a prefix, oracle after every step)"),
            "oracle": "reference set of inserted(Ok)+handed-out names: tmp result not in set; insert of a member returns Err",
            "evaluations": executed,
            "sequences_incl_prefixes": prefixes,
            "distinct_nontrivial": trans.len(),
            "rule": "distinct (reference set before the call, operation, result) transitions in which tmp returned a name different from the requested one or insert of an existing name was answered with a conflict",
            "sequences_with_rename_or_conflict": nontrivial,
            "distinct_outcomes": outcomes.len(),
            "outcome_values": outcomes.iter().take(40).collect::<Vec<_>>(),
            "failing_sequences": fail_count,
            "distinct_minimal_failures": fails.len(),
            "exhaustive": true,
            "samples": samples,
        }),
        vec![
            "names restricted to {a,a0,a1,a00,b}: base, base+digit(s) and an unrelated name".into(),
            "insert(fresh) == Ok is not demanded (statement only covers conflicts)".into(),
        ],
    );
}
