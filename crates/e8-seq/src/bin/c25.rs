//! C25 — Source buffer preserves text and tracks indentation by brace structure.
//!
//! Real object: `wit_bindgen_core::Source`. Space: every sequence of exactly `depth`
//! operations (shorter ones are prefixes; the whole buffer is judged, so a defect in a prefix
//! stays visible) over
//!   P(f) push_str(f) | L(f) push_str_literal(f) | W(f) write!(src, "{}{}", f[..mid], f[mid..])
//!   | I indent(1) | D deindent(1)
//! with f from the 17-fragment alphabet below, starting from a fresh buffer with indent(1).
//! D is only issued when the reference depth is at least 1.
//!
//! Reference (written from the statement, line based, knows nothing about fragments):
//!  S1  output == input up to the whitespace at the start of each line;
//!  S2  the depth of a line = depth after the previous lines, where a line *opens* a level when
//!      its last non-blank character is a `{` that was appended as syntax and is not in a line
//!      comment, and *closes* one when its first non-blank character is a `}` appended as syntax;
//!      indent(±1) shifts the depth of lines started afterwards; a line is indented by 2 spaces
//!      per level (plus at most the leading whitespace the appended text itself had there);
//!  S3  characters appended as literal are opaque (no braces, no comment start);
//!  S4  follows from S2: after brace-balanced text the depth is the starting depth again.
//! Where the statement is silent the reference accepts every answer: closing at depth 0, a `{`
//! after a `//` that is not at the start of the line (comment or not?), blank lines.
//!
//! Every failing sequence is classified by *input features* that say "the fragment boundaries
//! disagree with the line structure": a syntax piece ending in `{` that is followed by more text
//! on its line (midline-open), a syntax piece starting with `}` that is not first on its line
//! (midline-close), a multi-line fragment whose first line starts with whitespace and continues
//! an existing line (midline-trim). Failures without such a feature are keyed by their minimal
//! sequence.
use serde_json::{json, Value};
use std::collections::{BTreeMap, BTreeSet};
use std::fmt::Write as _;
use wit_bindgen_core::Source;

const FRAGS: [&str; 17] = [
    "a", " ", "{", "}", "x {", "} y", "{\n", "}\n", "\n", "// c {", "// c\n", "a\nb", "  a", "a  ",
    "{ }", "}{", " a\n b",
];
const NF: usize = FRAGS.len();
const NOPS: usize = 3 * NF + 2;
const BASE: u32 = 1;
const ALL: u32 = u32::MAX;

const MIDOPEN: u8 = 1;
const MIDCLOSE: u8 = 2;
const MIDTRIM: u8 = 4;

fn feat_names(f: u8) -> String {
    let mut v = Vec::new();
    if f & MIDOPEN != 0 {
        v.push("midline-open");
    }
    if f & MIDCLOSE != 0 {
        v.push("midline-close");
    }
    if f & MIDTRIM != 0 {
        v.push("midline-trim");
    }
    v.join("+")
}

fn op_text(op: usize) -> String {
    if op == 3 * NF {
        return "indent(1)".into();
    }
    if op == 3 * NF + 1 {
        return "deindent(1)".into();
    }
    let f = FRAGS[op % NF];
    match op / NF {
        0 => format!("push_str({f:?})"),
        1 => format!("push_str_literal({f:?})"),
        _ => {
            let m = mid(f);
            format!("write!({:?},{:?})", &f[..m], &f[m..])
        }
    }
}

fn seq_text(seq: &[usize]) -> String {
    seq.iter().map(|o| op_text(*o)).collect::<Vec<_>>().join("; ")
}

fn mid(f: &str) -> usize {
    f.len() / 2
}

fn shl(b: u32) -> u32 {
    if b == ALL {
        ALL
    } else {
        b << 1
    }
}
fn shr(b: u32) -> u32 {
    if b == ALL || b & 1 != 0 {
        ALL
    } else {
        b >> 1
    }
}

fn is_ws(c: u8) -> bool {
    c == b' ' || c == b'\t'
}

#[derive(Clone, Copy, PartialEq, Default)]
enum Cm {
    #[default]
    No,
    Definite,
    Ambiguous,
}

/// One piece = one line of one pushed string, as the property's "fragment that splits lines".
#[derive(Clone, Copy)]
struct Piece {
    /// input offset of a trailing `{` of the trimmed piece (syntax pushes only)
    open_at: Option<usize>,
    /// input offset of a leading `}` of the trimmed piece (syntax pushes only)
    close_at: Option<usize>,
    line: usize,
}

#[derive(Default)]
struct Reference {
    inp: Vec<u8>,
    lit: Vec<bool>,
    /// allowed depths (bitset) per line, in order; the last entry may be an unterminated line
    allowed: Vec<u32>,
    cur: u32,
    // current line
    started: bool,
    l: u32,
    first_seen: bool,
    prev_first: bool,
    prev_syntax_slash: bool,
    comment: Cm,
    last_open: Option<Cm>, // Some(cm) if the last non-blank char is a syntax `{`, with the comment state there
    pieces: Vec<Piece>,
    /// midline-trim events: (line, input range of the whitespace that starts the fragment)
    feats_trim: Vec<(usize, usize, usize)>,
}

impl Reference {
    fn reset(&mut self) {
        self.inp.clear();
        self.lit.clear();
        self.allowed.clear();
        self.cur = 1 << BASE;
        self.pieces.clear();
        self.feats_trim.clear();
        self.new_line();
    }
    fn new_line(&mut self) {
        self.started = false;
        self.l = 0;
        self.first_seen = false;
        self.prev_first = false;
        self.prev_syntax_slash = false;
        self.comment = Cm::No;
        self.last_open = None;
    }
    fn ch(&mut self, c: u8, lit: bool) {
        self.inp.push(c);
        self.lit.push(lit);
        if c == b'\n' {
            if self.started {
                self.allowed.push(self.l);
            } else {
                self.allowed.push(self.cur);
            }
            match self.last_open {
                Some(Cm::No) => self.cur = shl(self.cur),
                Some(Cm::Ambiguous) => {
                    if self.cur != ALL {
                        self.cur |= shl(self.cur)
                    }
                }
                _ => {}
            }
            self.new_line();
            return;
        }
        if !self.started {
            self.started = true;
            self.l = self.cur;
        }
        if is_ws(c) {
            self.prev_syntax_slash = false;
            self.prev_first = false;
            return;
        }
        let is_slash = c == b'/' && !lit;
        if !self.first_seen {
            self.first_seen = true;
            if c == b'}' && !lit {
                self.l = shr(self.l);
                self.cur = shr(self.cur);
            }
            self.prev_first = true;
        } else {
            if is_slash && self.prev_syntax_slash && self.comment == Cm::No {
                // `//` at the very start of the line is a line comment for sure; later in the
                // line the statement does not say (string? comment?): both readings accepted
                self.comment = if self.prev_first {
                    Cm::Definite
                } else {
                    Cm::Ambiguous
                };
            }
            self.prev_first = false;
        }
        self.prev_syntax_slash = is_slash;
        self.last_open = if c == b'{' && !lit && self.comment != Cm::Definite {
            Some(self.comment)
        } else {
            None
        };
    }
    /// text pushed by one call, `lit` = push_str_literal
    fn push(&mut self, s: &str, lit: bool) {
        // pieces as `str::lines` sees them
        let npieces = s.lines().count();
        let mut off = 0usize;
        for (i, piece) in s.split('\n').enumerate() {
            if i >= npieces {
                break;
            }
            let base = self.inp.len();
            let line = self.allowed.len();
            if i == 0 && npieces > 1 && self.started && piece.starts_with([' ', '\t']) {
                let lead = piece.len() - piece.trim_start().len();
                self.feats_trim.push((line, base, base + lead));
            }
            let comment_before = self.comment;
            for c in piece.bytes() {
                self.ch(c, lit);
            }
            if !lit {
                let t = piece.trim();
                if !t.is_empty() {
                    let lead = piece.len() - piece.trim_start().len();
                    // a brace inside a line comment that starts the line is no brace
                    let open_at = (t.ends_with('{') && self.last_open.is_some())
                        .then(|| base + lead + t.len() - 1);
                    let close_at =
                        (t.starts_with('}') && comment_before != Cm::Definite).then(|| base + lead);
                    if open_at.is_some() || close_at.is_some() {
                        self.pieces.push(Piece {
                            open_at,
                            close_at,
                            line,
                        });
                    }
                }
            }
            off += piece.len();
            if off < s.len() {
                self.ch(b'\n', lit);
                off += 1;
            }
        }
    }
    fn mark(&mut self, up: bool) {
        self.cur = if up { shl(self.cur) } else { shr(self.cur) };
    }
    fn can_deindent(&self) -> bool {
        self.cur != ALL && self.cur & 1 == 0
    }
    fn finish(&mut self) {
        if self.started {
            self.allowed.push(self.l);
        }
    }
    /// features located on lines <= `upto_line`
    fn is_midopen(&self, o: usize) -> bool {
        let mut i = o + 1;
        while i < self.inp.len() && self.inp[i] != b'\n' {
            if !is_ws(self.inp[i]) {
                return true;
            }
            i += 1;
        }
        false
    }
    fn is_midclose(&self, o: usize) -> bool {
        let mut i = o;
        while i > 0 && self.inp[i - 1] != b'\n' {
            i -= 1;
            if !is_ws(self.inp[i]) {
                return true;
            }
        }
        false
    }
    /// S1: which feature removed the whitespace at input offset `p`?
    fn explain_text(&self, p: usize) -> u8 {
        for (_, lo, hi) in &self.feats_trim {
            if *lo <= p && p < *hi {
                return MIDTRIM;
            }
        }
        for pc in &self.pieces {
            if let Some(o) = pc.close_at {
                if o >= 2 && o - 2 <= p && p < o && self.is_midclose(o) {
                    return MIDCLOSE;
                }
            }
        }
        0
    }
    /// S2 / panic: the first place (up to `upto_line`) where fragment boundaries and line
    /// structure disagree about a brace
    fn explain_depth(&self, upto_line: usize, lowered: bool) -> u8 {
        if lowered {
            // an underflowing deindent needs a counter that is too low: only a `}` that was
            // counted although it does not start its line can do that
            for pc in &self.pieces {
                if let Some(o) = pc.close_at {
                    if self.is_midclose(o) {
                        return MIDCLOSE;
                    }
                }
            }
        }
        for pc in &self.pieces {
            if pc.line > upto_line {
                break;
            }
            if let Some(o) = pc.close_at {
                if self.is_midclose(o) {
                    return MIDCLOSE;
                }
            }
            if let Some(o) = pc.open_at {
                if self.is_midopen(o) {
                    return MIDOPEN;
                }
            }
        }
        0
    }
    fn features(&self, upto_line: usize) -> u8 {
        let mut f = 0u8;
        for (l, _, _) in &self.feats_trim {
            if *l <= upto_line {
                f |= MIDTRIM;
            }
        }
        for p in &self.pieces {
            if p.line > upto_line {
                continue;
            }
            if let Some(o) = p.open_at {
                // more non-blank text after the brace on the same line?
                let mut i = o + 1;
                while i < self.inp.len() && self.inp[i] != b'\n' {
                    if !is_ws(self.inp[i]) {
                        f |= MIDOPEN;
                        break;
                    }
                    i += 1;
                }
            }
            if let Some(o) = p.close_at {
                let mut i = o;
                while i > 0 && self.inp[i - 1] != b'\n' {
                    i -= 1;
                    if !is_ws(self.inp[i]) {
                        f |= MIDCLOSE;
                        break;
                    }
                }
            }
        }
        f
    }
}

#[derive(Clone, Copy, PartialEq, Eq, PartialOrd, Ord, Debug)]
enum Clause {
    Panic,
    S1,
    S2,
}

struct Fail {
    clause: Clause,
    line: usize,
    /// S1: input offset of the first character that is missing / different
    pos: usize,
    msg: String,
}

enum Res {
    /// deindent below zero per reference: not a sequence of the space
    Invalid,
    Done {
        fail: Option<Fail>,
        features_all: u8,
        features_to_fail: u8,
        indented: bool,
        profile: u64,
    },
}

fn run_real(seq: &[usize]) -> Result<String, String> {
    vcommon::catch(|| {
        let mut src = Source::default();
        src.indent(BASE as usize);
        for &op in seq {
            if op == 3 * NF {
                src.indent(1);
            } else if op == 3 * NF + 1 {
                src.deindent(1);
            } else {
                let f = FRAGS[op % NF];
                match op / NF {
                    0 => src.push_str(f),
                    1 => src.push_str_literal(f),
                    _ => {
                        let m = mid(f);
                        write!(src, "{}{}", &f[..m], &f[m..]).unwrap();
                    }
                }
            }
        }
        String::from(src)
    })
}

fn lead_ws(b: &[u8]) -> usize {
    b.iter().take_while(|c| is_ws(**c)).count()
}

fn exec(seq: &[usize], r: &mut Reference) -> Res {
    r.reset();
    for &op in seq {
        if op == 3 * NF {
            r.mark(true);
        } else if op == 3 * NF + 1 {
            if !r.can_deindent() {
                return Res::Invalid;
            }
            r.mark(false);
        } else {
            let f = FRAGS[op % NF];
            match op / NF {
                0 => r.push(f, false),
                1 => r.push(f, true),
                _ => {
                    let m = mid(f);
                    if m > 0 {
                        r.push(&f[..m], false);
                    }
                    r.push(&f[m..], false);
                }
            }
        }
    }
    r.finish();
    let features_all = r.features(usize::MAX);
    let out = match run_real(seq) {
        Ok(s) => s,
        Err(p) => {
            return Res::Done {
                fail: Some(Fail {
                    clause: Clause::Panic,
                    line: usize::MAX,
                    pos: 0,
                    msg: format!("panicked: {p}"),
                }),
                features_all,
                features_to_fail: r.explain_depth(usize::MAX, true),
                indented: false,
                profile: 0,
            }
        }
    };
    let mut fail: Option<Fail> = None;
    let mut indented = false;
    let mut profile: u64 = 0xcbf29ce484222325;
    // S1 + S2, line by line
    let mut il = r.inp.split(|c| *c == b'\n');
    let mut ol = out.as_bytes().split(|c| *c == b'\n');
    let mut k = 0usize;
    let mut line_start = 0usize;
    loop {
        let (a, b) = (il.next(), ol.next());
        match (a, b) {
            (None, None) => break,
            (Some(a), Some(b)) => {
                let (ia, ib) = (lead_ws(a), lead_ws(b));
                if a[ia..] != b[ib..] {
                    let j = a[ia..]
                        .iter()
                        .zip(b[ib..].iter())
                        .take_while(|(x, y)| x == y)
                        .count();
                    fail = Some(Fail {
                        clause: Clause::S1,
                        line: k,
                        pos: line_start + ia + j,
                        msg: format!(
                            "line {k}: appended text {:?}, buffer has {:?} (differs beyond leading whitespace)",
                            String::from_utf8_lossy(a),
                            String::from_utf8_lossy(b)
                        ),
                    });
                    break;
                }
                profile = (profile ^ ib as u64).wrapping_mul(0x100000001b3);
                if ib != ia {
                    indented = true;
                }
                if ib < b.len() && k < r.allowed.len() {
                    let al = r.allowed[k];
                    if al != ALL {
                        let ok = b[..ib].iter().all(|c| *c == b' ')
                            && (0..32).any(|d| al & (1 << d) != 0 && 2 * d <= ib && ib <= 2 * d + ia);
                        if !ok {
                            let depths: Vec<usize> = (0..32).filter(|d| al & (1 << d) != 0).collect();
                            fail = Some(Fail {
                                clause: Clause::S2,
                                line: k,
                                pos: 0,
                                msg: format!(
                                    "line {k} {:?} has {ib} leading blanks; brace nesting puts it at depth {depths:?} (2 per level, the appended text itself had {ia} leading blanks)",
                                    String::from_utf8_lossy(b)
                                ),
                            });
                            break;
                        }
                    }
                }
            }
            (a, b) => {
                fail = Some(Fail {
                    clause: Clause::S1,
                    line: k,
                    pos: usize::MAX,
                    msg: format!(
                        "line count differs at line {k}: appended {:?}, buffer {:?}",
                        a.map(String::from_utf8_lossy),
                        b.map(String::from_utf8_lossy)
                    ),
                });
                break;
            }
        }
        if let Some(a) = a {
            line_start += a.len() + 1;
        }
        k += 1;
    }
    let features_to_fail = match &fail {
        Some(f) if f.clause == Clause::S1 => r.explain_text(f.pos),
        Some(f) => r.explain_depth(f.line, false),
        None => 0,
    };
    Res::Done {
        fail,
        features_all,
        features_to_fail,
        indented,
        profile,
    }
}

/// (clause, feature set up to the first failing line) of a failing sequence
fn class_of(seq: &[usize], r: &mut Reference) -> Option<(Clause, u8)> {
    match exec(seq, r) {
        Res::Done {
            fail: Some(f),
            features_to_fail,
            ..
        } => Some((f.clause, features_to_fail)),
        _ => None,
    }
}

fn fails_with(seq: &[usize], class: (Clause, u8), r: &mut Reference) -> bool {
    class_of(seq, r) == Some(class)
}

/// Greedy: drop operations, then replace fragments by earlier (simpler) ones, while the
/// sequence still fails in the same class (clause, feature set).
fn minimise(seq: &[usize], clause: (Clause, u8), r: &mut Reference) -> Vec<usize> {
    let mut cur = seq.to_vec();
    loop {
        let mut changed = false;
        let mut i = 0;
        while i < cur.len() {
            let mut t = cur.clone();
            t.remove(i);
            if !t.is_empty() && fails_with(&t, clause, r) {
                cur = t;
                changed = true;
            } else {
                i += 1;
            }
        }
        for i in 0..cur.len() {
            if cur[i] >= 3 * NF {
                continue;
            }
            let kind = cur[i] / NF;
            for f in 0..cur[i] % NF {
                let mut t = cur.clone();
                t[i] = kind * NF + f;
                if fails_with(&t, clause, r) {
                    cur = t;
                    changed = true;
                    break;
                }
            }
        }
        if !changed {
            return cur;
        }
    }
}

fn describe(seq: &[usize], r: &mut Reference) -> Value {
    let res = exec(seq, r);
    let out = run_real(seq);
    let depths: Vec<Value> = r
        .allowed
        .iter()
        .map(|al| {
            if *al == ALL {
                json!("any")
            } else {
                json!((0..32).filter(|d| al & (1 << d) != 0).collect::<Vec<usize>>())
            }
        })
        .collect();
    let (fail, feats) = match res {
        Res::Invalid => (Some("invalid sequence (deindent below 0)".to_string()), 0),
        Res::Done {
            fail, features_all, ..
        } => (fail.map(|f| format!("{:?}: {}", f.clause, f.msg)), features_all),
    };
    json!({
        "ops": seq_text(seq),
        "appended": String::from_utf8_lossy(&r.inp),
        "buffer": out.unwrap_or_else(|p| format!("<panic: {p}>")),
        "reference_depth_per_line": depths,
        "features": feat_names(feats),
        "violation": fail,
    })
}

fn main() {
    let mut run = vcommon::Run::from_args("C25", "exploration");
    vcommon::install_quiet_panic_hook();
    let mut r = Reference::default();

    if let Some(d) = run.replay_detail() {
        let seq: Vec<usize> = d["ops"]
            .as_array()
            .map(|a| a.iter().map(|v| v.as_u64().unwrap() as usize).collect())
            .unwrap_or_default();
        let v = describe(&seq, &mut r);
        println!("{}", serde_json::to_string_pretty(&v).unwrap());
        if v["violation"].is_null() {
            println!("no violation");
            std::process::exit(0);
        }
        println!("still fails");
        std::process::exit(1);
    }

    let depth: usize = run.pick(4, 5);
    let units = NOPS * NOPS;
    let res = vcommon::par_map(units, vcommon::ncpu(), |u| {
        let mut r = Reference::default();
        let mut seq = vec![0usize; depth];
        seq[0] = u / NOPS;
        seq[1] = u % NOPS;
        let rest = depth - 2;
        let total = (NOPS as u64).pow(rest as u32);
        let (mut valid, mut invalid, mut aligned, mut featured) = (0u64, 0u64, 0u64, 0u64);
        let (mut aligned_fail, mut featured_fail, mut indented) = (0u64, 0u64, 0u64);
        let mut profiles: BTreeSet<u64> = BTreeSet::new();
        // key -> (len, seq)
        let mut found: BTreeMap<String, Vec<usize>> = BTreeMap::new();
        let mut minimised = 0usize;
        let mut sample = Value::Null;
        for k in 0..total {
            let mut x = k;
            for j in (2..depth).rev() {
                seq[j] = (x % NOPS as u64) as usize;
                x /= NOPS as u64;
            }
            match exec(&seq, &mut r) {
                Res::Invalid => invalid += 1,
                Res::Done {
                    fail,
                    features_all,
                    features_to_fail,
                    indented: ind,
                    profile,
                } => {
                    valid += 1;
                    if ind {
                        indented += 1;
                    }
                    if profiles.len() < 100_000 {
                        profiles.insert(profile);
                    }
                    if features_all == 0 {
                        aligned += 1;
                    } else {
                        featured += 1;
                    }
                    if let Some(f) = fail {
                        if features_all == 0 {
                            aligned_fail += 1;
                        } else {
                            featured_fail += 1;
                        }
                        let key = if features_to_fail != 0 {
                            format!("{:?}/{}", f.clause, feat_names(features_to_fail))
                        } else {
                            String::new()
                        };
                        if key.is_empty() {
                            // unexplained by a feature: minimal sequence is the key
                            if minimised < 300 {
                                minimised += 1;
                                let m = minimise(&seq, (f.clause, 0), &mut r);
                                let key = format!("{:?}/{}", f.clause, seq_text(&m));
                                found.entry(key).or_insert(m);
                            }
                        } else {
                            let e = found.entry(key).or_insert_with(|| seq.clone());
                            if seq.len() < e.len() {
                                *e = seq.clone();
                            }
                        }
                    } else if k == total / 2 {
                        sample = json!(seq.clone());
                    }
                }
            }
        }
        json!({"valid": valid, "invalid": invalid, "aligned": aligned, "featured": featured,
               "aligned_fail": aligned_fail, "featured_fail": featured_fail, "indented": indented,
               "profiles": profiles.into_iter().collect::<Vec<_>>(),
               "found": found, "sample": sample})
    });

    let (mut valid, mut invalid, mut aligned, mut featured) = (0u64, 0u64, 0u64, 0u64);
    let (mut aligned_fail, mut featured_fail, mut indented) = (0u64, 0u64, 0u64);
    let mut profiles: BTreeSet<u64> = BTreeSet::new();
    let mut found: BTreeMap<String, Vec<usize>> = BTreeMap::new();
    let mut samples: Vec<Value> = Vec::new();
    for (i, x) in res.iter().enumerate() {
        valid += x["valid"].as_u64().unwrap();
        invalid += x["invalid"].as_u64().unwrap();
        aligned += x["aligned"].as_u64().unwrap();
        featured += x["featured"].as_u64().unwrap();
        aligned_fail += x["aligned_fail"].as_u64().unwrap();
        featured_fail += x["featured_fail"].as_u64().unwrap();
        indented += x["indented"].as_u64().unwrap();
        for p in x["profiles"].as_array().unwrap() {
            profiles.insert(p.as_u64().unwrap());
        }
        for (k, v) in x["found"].as_object().unwrap() {
            let s: Vec<usize> = v
                .as_array()
                .unwrap()
                .iter()
                .map(|y| y.as_u64().unwrap() as usize)
                .collect();
            match found.get(k) {
                Some(e) if (e.len(), e.clone()) <= (s.len(), s.clone()) => {}
                _ => {
                    found.insert(k.clone(), s);
                }
            }
        }
        if (i + 1).is_power_of_two() && !x["sample"].is_null() && samples.len() < 10 {
            let s: Vec<usize> = x["sample"]
                .as_array()
                .unwrap()
                .iter()
                .map(|y| y.as_u64().unwrap() as usize)
                .collect();
            samples.push(describe(&s, &mut r));
        }
    }
    let mut reported = Vec::new();
    // failures that no mid-line feature explains are keyed by their minimal sequence; only
    // the 10 shortest are reported (one defect shows up in many minimal sequences)
    let mut unexplained: Vec<(usize, String)> = found
        .iter()
        .filter(|(k, _)| k.contains("push_str") || k.contains("write!") || k.contains("indent("))
        .map(|(k, v)| (v.len(), k.clone()))
        .collect();
    unexplained.sort();
    let unexplained_total = unexplained.len();
    for (_, k) in unexplained.iter().skip(10) {
        found.remove(k);
    }
    for (key, s) in &found {
        // the stored example is representative; print a minimal one of the same class
        let Some(class) = class_of(s, &mut r) else {
            vcommon::machinery(&format!("C25: stored failure {key} does not reproduce"));
        };
        let m = minimise(s, class, &mut r);
        let d = describe(&m, &mut r);
        let what = format!(
            "{key}: minimal example {} -> buffer {:?}; {}",
            seq_text(&m),
            d["buffer"].as_str().unwrap_or(""),
            d["violation"].as_str().unwrap_or("")
        );
        reported.push(json!({"key": key, "example": d}));
        run.violation(key, &what, json!({"ops": m, "text": seq_text(&m), "first_found": seq_text(s)}));
    }
    println!(
        "C25 failure classes ({}): {}",
        found.len(),
        found.keys().cloned().collect::<Vec<_>>().join(" | ")
    );
    println!(
        "C25 line-aligned sequences: {aligned}, failing: {aligned_fail}; with mid-line features: {featured}, failing: {featured_fail}; distinct unexplained minimal sequences seen: {unexplained_total}"
    );
    run.finish(
        json!({
            "alphabet": {"fragments": FRAGS, "ops": ["push_str", "push_str_literal", "write!(two halves)", "indent(1)", "deindent(1)"], "ops_per_step": NOPS, "base_indent": BASE},
            "bound": format!("all sequences of length {depth} ({NOPS}^{depth} = {}), deindent only at reference depth >= 1", (NOPS as u64).pow(depth as u32)),
            "oracle": "S1 text equal up to leading whitespace per line; S2 line-based brace nesting reference (2 blanks per level), literal characters opaque, balanced text restores the depth",
            "evaluations": valid,
            "skipped_invalid_deindent": invalid,
            "line_aligned_sequences": aligned,
            "line_aligned_failures": aligned_fail,
            "sequences_with_midline_features": featured,
            "midline_feature_failures": featured_fail,
            "distinct_nontrivial": indented,
            "rule": "sequences (all distinct) whose buffer differs from the appended text, i.e. at least one line's leading whitespace was changed by the buffer",
            "distinct_outcomes": profiles.len(),
            "distinct_outcomes_rule": "distinct per-line indentation profiles of the buffer (capped at 100000 per worker)",
            "failure_classes": reported,
            "unexplained_minimal_sequences_seen": unexplained_total,
            "exhaustive": true,
            "samples": samples,
        }),
        vec![
            "indentation unit is 2 blanks per level (as in the crate's own unit tests)".into(),
            "a line may keep up to the leading whitespace the appended text itself had at that place".into(),
            "closing at depth 0, `{` after a mid-line `//`, and blank lines are left unconstrained".into(),
            "no CR, no tab in the alphabet; append_src is not exercised".into(),
            "failures are keyed by clause + input feature set (midline-open / midline-close / midline-trim) up to the first failing line; failures without a feature by their minimal sequence".into(),
        ],
    );
}
