//! C13 — every backend's core imports/exports match the world's canonical ABI.
//!
//! Space: enumerated worlds (function shape × sync/async × position × naming × version, resource
//! worlds, combined worlds) + tests/codegen corpus, × 7 backends × their crates/test option
//! variants, minus declared exclusions. Oracle: see `e5_decl::oracle`.

use e5_decl::case::{self, Outcome};
use e5_decl::gen::{Backend, ALL_BACKENDS};
use e5_decl::worlds::{self, Source, WorldCase};
use serde_json::{json, Value};
use std::collections::{BTreeMap, BTreeSet};

fn print_case(b: Backend, variant: &str, args: &[String], case: &WorldCase, verbose: bool) -> Vec<String> {
    println!("backend={} variant={variant} args={args:?} world={}", b.name(), case.id);
    if let Source::Inline(t) = &case.src {
        println!("--- WIT\n{t}---");
    }
    match case::run(b, variant, args, case) {
        Outcome::Excluded(w) => {
            println!("excluded: {w}");
            vec![]
        }
        Outcome::LoadError(e) => {
            println!("WIT does not load: {e}");
            vec![]
        }
        Outcome::GenFailed(e) => {
            println!("generator failed (not a C13 verdict): {e}");
            vec![]
        }
        Outcome::Machinery(e) => vcommon::machinery(&e),
        Outcome::Checked(c) => {
            if verbose {
                for i in &c.decls.imports {
                    println!(
                        "  import {:?} {:?} {} [{}{}]",
                        i.module,
                        i.name,
                        i.sig.show(),
                        i.ident,
                        if i.referenced { "" } else { ", unreferenced" }
                    );
                }
                for e in &c.decls.exports {
                    println!("  export {:?} {} [{}]", e.name, e.sig.show(), e.ident);
                }
            }
            println!(
                "imports checked={} unreferenced={} exports={} encoder={}",
                c.verdict.imports_checked, c.verdict.imports_unreferenced, c.verdict.exports_checked, c.verdict.encoder
            );
            if let Some(m) = &c.verdict.oracle_inconsistent {
                println!("ORACLE INCONSISTENT: {m}");
            }
            for v in &c.verdict.violations {
                println!("  VIOLATES {}:{}:{} — {}", b.name(), v.kind, v.pattern, v.what);
            }
            c.verdict.violations.iter().map(|v| format!("{}:{}:{}", b.name(), v.kind, v.pattern)).collect()
        }
    }
}

fn main() {
    vcommon::install_quiet_panic_hook();
    let mut run = vcommon::Run::from_args("C13", "exploration");

    // ---- replay
    if let Some(d) = run.replay_detail() {
        let b = Backend::from_name(d["backend"].as_str().unwrap_or("")).unwrap_or_else(|| vcommon::machinery("bad replay"));
        let variant = d["variant"].as_str().unwrap_or("default").to_string();
        let args: Vec<String> =
            d["args"].as_array().map(|a| a.iter().map(|x| x.as_str().unwrap().to_string()).collect()).unwrap_or_default();
        let case = if let Some(p) = d["corpus"].as_str() {
            let all = worlds::corpus().unwrap_or_else(|e| vcommon::machinery(&e));
            all.into_iter().find(|c| c.id == p).unwrap_or_else(|| vcommon::machinery("corpus case not found"))
        } else {
            WorldCase { id: d["world"].as_str().unwrap_or("replay").into(), src: Source::Inline(d["wit"].as_str().unwrap().into()) }
        };
        let key = d["key"].as_str().unwrap_or("");
        println!("replaying key {key}");
        let keys = print_case(b, &variant, &args, &case, true);
        let still = keys.iter().any(|k| k == key);
        println!("{}", if still { "the stored violation still occurs" } else { "the stored violation does not occur any more" });
        std::process::exit(if still { 1 } else { 0 });
    }

    // ---- developer helpers: --dump <backend> <wit-path> [args…] ; --one <backend> <variant> <world-id-substring>
    if run.extra_args.first().map(|s| s.as_str()) == Some("--dump") {
        let a = &run.extra_args;
        let b = Backend::from_name(&a[1]).unwrap();
        let (mut r, w) = e5_decl::gen::load(Some(std::path::Path::new(&a[2])), None).unwrap();
        let g = e5_decl::gen::generate(b, &a[3..].to_vec(), &mut r, w).unwrap();
        for (n, t) in g.files {
            println!("=====FILE {n}\n{t}");
        }
        return;
    }

    if let Err(e) = worlds::check_exclusion_sources() {
        vcommon::machinery(&e);
    }
    let mut all_worlds = worlds::enumerated(run.thorough());
    let n_enum = all_worlds.len();
    let corpus = worlds::corpus().unwrap_or_else(|e| vcommon::machinery(&e));
    let n_corpus = corpus.len();
    if n_corpus < 50 {
        vcommon::machinery(&format!("only {n_corpus} corpus entries found under tests/codegen"));
    }
    all_worlds.extend(corpus);

    if run.extra_args.first().map(|s| s.as_str()) == Some("--one") {
        let a = &run.extra_args;
        let b = Backend::from_name(&a[1]).unwrap();
        let (vn, args) = worlds::variants(b).into_iter().find(|(n, _)| *n == a[2]).unwrap();
        let mut any = false;
        for w in all_worlds.iter().filter(|w| w.id.contains(a[3].as_str())) {
            any |= !print_case(b, vn, &args, w, a.get(4).is_some()).is_empty();
        }
        std::process::exit(any as i32);
    }

    // ---- work list
    struct Item {
        w: usize,
        b: Backend,
        variant: &'static str,
        args: Vec<String>,
    }
    let mut items: Vec<Item> = vec![];
    let thorough = run.thorough();
    for (wi, w) in all_worlds.iter().enumerate() {
        for b in ALL_BACKENDS {
            for (variant, args) in worlds::variants(b) {
                // quick tier: the four Rust variants that only change ownership / std / type
                // merging / map type are exercised on the corpus only (all variants × all worlds
                // in the thorough tier)
                if (!thorough || w.id.starts_with("seq/"))
                    && b == Backend::Rust
                    && matches!(w.src, Source::Inline(_))
                    && !matches!(variant, "default" | "async" | "borrowed")
                {
                    continue;
                }
                // the payload-sequence band only varies future/stream positions: one
                // non-async-forcing variant per backend plus `--async=all`
                if w.id.starts_with("seq/") && matches!(variant, "borrowed" | "no-sig-flattening" | "autodrop") {
                    continue;
                }
                items.push(Item { w: wi, b, variant, args });
            }
        }
    }
    // VERIF_SEED only rotates the order of work
    let rot = (run.seed as usize) % items.len().max(1);
    items.rotate_left(rot);

    let results = vcommon::par_map(items.len(), vcommon::ncpu(), |i| {
        let it = &items[i];
        let case = &all_worlds[it.w];
        let o = case::run(it.b, it.variant, &it.args, case);
        case::summarise(it.b, it.variant, case, &o)
    });

    // ---- aggregate
    #[derive(Default)]
    struct PerBackend {
        checked: usize,
        excluded: usize,
        gen_failed: usize,
        imports: usize,
        unref: usize,
        exports: usize,
        fps: BTreeSet<String>,
    }
    let mut per: BTreeMap<&'static str, PerBackend> = BTreeMap::new();
    let mut machinery: Vec<String> = vec![];
    let mut inconsistent: Vec<String> = vec![];
    let mut gen_failed: BTreeMap<String, (usize, String)> = BTreeMap::new();
    let mut load_errors: BTreeSet<String> = BTreeSet::new();
    let mut excl_reasons: BTreeMap<String, usize> = BTreeMap::new();
    let mut encoder_outcomes: BTreeMap<String, usize> = BTreeMap::new();
    let mut overruled: BTreeMap<String, usize> = BTreeMap::new();
    // key → (count, variants, smallest witness item index, what)
    let mut viol: BTreeMap<String, (usize, BTreeSet<String>, usize, String, usize)> = BTreeMap::new();
    let mut samples = vcommon::Samples::new(12);
    let mut fps_all: BTreeSet<String> = BTreeSet::new();
    for (i, r) in results.iter().enumerate() {
        let it = &items[i];
        let case = &all_worlds[it.w];
        let p = per.entry(it.b.name()).or_default();
        match r["st"].as_str().unwrap_or("") {
            "excluded" => {
                p.excluded += 1;
                *excl_reasons.entry(format!("{}: {}", it.b.name(), strip_quoted(r["why"].as_str().unwrap_or("")))).or_insert(0) += 1;
            }
            "load-error" => {
                load_errors.insert(format!("{}: {}", case.id, r["msg"].as_str().unwrap_or("")));
            }
            "gen-failed" => {
                p.gen_failed += 1;
                let msg = r["msg"].as_str().unwrap_or("").lines().next().unwrap_or("").to_string();
                let e = gen_failed.entry(format!("{}: {}", it.b.name(), msg)).or_insert((0, case.id.clone()));
                e.0 += 1;
            }
            "machinery" => machinery.push(format!("{} {} {}: {}", it.b.name(), it.variant, case.id, r["msg"].as_str().unwrap_or(""))),
            "checked" => {
                p.checked += 1;
                p.imports += r["imports"].as_u64().unwrap_or(0) as usize;
                p.unref += r["unref"].as_u64().unwrap_or(0) as usize;
                p.exports += r["exports"].as_u64().unwrap_or(0) as usize;
                let fp = format!("{}:{}", it.b.name(), r["fp"].as_str().unwrap_or(""));
                if r["imports"].as_u64().unwrap_or(0) + r["exports"].as_u64().unwrap_or(0) > 0 {
                    p.fps.insert(fp.clone());
                    fps_all.insert(fp);
                }
                *encoder_outcomes.entry(r["encoder"].as_str().unwrap_or("").to_string()).or_insert(0) += 1;
                for o in r["overruled"].as_array().map(|a| a.as_slice()).unwrap_or(&[]) {
                    *overruled.entry(format!("{}:{}", it.b.name(), o.as_str().unwrap_or(""))).or_insert(0) += 1;
                }
                if let Some(m) = r["inconsistent"].as_str() {
                    inconsistent.push(format!("{} {} {}: {m}", it.b.name(), it.variant, case.id));
                }
                samples.offer(|| {
                    json!({"world": case.id, "backend": it.b.name(), "variant": it.variant,
                           "imports": r["imports"], "exports": r["exports"], "encoder": r["encoder"],
                           "component_bytes": r["bytes"]})
                });
                for v in r["viol"].as_array().unwrap() {
                    let key = v["key"].as_str().unwrap().to_string();
                    let size = case::wit_text(case).len() + if matches!(case.src, Source::Corpus { .. }) { 100_000 } else { 0 };
                    let e = viol.entry(key).or_insert((0, BTreeSet::new(), i, v["what"].as_str().unwrap().to_string(), size));
                    e.0 += 1;
                    e.1.insert(it.variant.to_string());
                    if size < e.4 || (size == e.4 && it.variant == "default" && !e.1.contains("default")) {
                        e.2 = i;
                        e.3 = v["what"].as_str().unwrap().to_string();
                        e.4 = size;
                    }
                }
            }
            other => machinery.push(format!("worker returned status {other:?} for item {i}")),
        }
    }
    if !machinery.is_empty() {
        for m in machinery.iter().take(10) {
            eprintln!("  {m}");
        }
        vcommon::machinery(&format!("{} extraction failures, first: {}", machinery.len(), machinery[0]));
    }
    if !inconsistent.is_empty() {
        for m in inconsistent.iter().take(10) {
            eprintln!("  {m}");
        }
        vcommon::machinery(&format!(
            "reference and component encoder disagree in {} cases, first: {}",
            inconsistent.len(),
            inconsistent[0]
        ));
    }
    if !load_errors.is_empty() {
        vcommon::machinery(&format!("worlds that do not load: {:?}", load_errors.iter().take(5).collect::<Vec<_>>()));
    }
    for b in ALL_BACKENDS {
        let p = per.get(b.name());
        let ok = p.map_or(false, |p| p.checked > 0 && p.imports > 0 && p.exports > 0);
        if !ok {
            vcommon::machinery(&format!("backend {}: no import or no export declaration was extracted at all", b.name()));
        }
    }

    for (key, (count, variants, i, what, _)) in &viol {
        let it = &items[*i];
        let case = &all_worlds[it.w];
        let detail = match &case.src {
            Source::Inline(t) => json!({"backend": it.b.name(), "variant": it.variant, "args": it.args, "world": case.id, "wit": t, "key": key}),
            Source::Corpus { .. } => json!({"backend": it.b.name(), "variant": it.variant, "args": it.args, "corpus": case.id, "key": key}),
        };
        run.violation(
            key,
            &format!("{what} [{count} cases, variants {variants:?}, smallest witness {} / {}]", case.id, it.variant),
            detail,
        );
    }

    let per_json: BTreeMap<&str, Value> = per
        .iter()
        .map(|(k, p)| {
            (
                *k,
                json!({"generations_checked": p.checked, "excluded": p.excluded, "generator_failed": p.gen_failed,
                       "import_declarations": p.imports, "unreferenced_import_declarations_skipped": p.unref,
                       "export_declarations": p.exports, "distinct_declaration_shape_sets": p.fps.len()}),
            )
        })
        .collect();
    let evaluations: usize = per.values().map(|p| p.checked).sum();
    let cov = json!({
        "evaluations": evaluations,
        "work_items": items.len(),
        "distinct_nontrivial": fps_all.len(),
        "rule": "distinct (backend, set of extracted declaration shapes) where a shape = import/export class prefixes with identifiers erased + core signature; only generations with >=1 declaration count",
        "exhaustive": true,
        "quick_tier_reduction": if thorough { "none" } else { "Rust variants borrowed-duplicate/no-std/merge-equal/hashmap run on the corpus only" },
        "bounds": {
            "function_shapes": worlds::SHAPES.iter().map(|s| s.0).collect::<Vec<_>>(),
            "positions": worlds::POSITIONS.iter().map(|p| format!("{p:?}")).collect::<Vec<_>>(),
            "asyncness": ["sync", "async"],
            "function_pairs_thorough_only": worlds::PAIR_SHAPES,
            "payload_sequence_band": {
                "alphabet": worlds::PAYLOAD_ALPHABET,
                "quick": "all 64 sequences of length 3 x splits {1,2} params (rest = result / result tuple) x {interface imported+exported, world-level imported+exported}, sync; the 64 length-4 sequences x y x z with 2 params at interface level; variants default and --async=all",
                "thorough": "all 64 length-3 sequences x every split x {IfaceBoth, WorldBoth} x sync/async and x {resource method imported, resource method exported} sync; all 256 length-4 sequences x splits {0,2,4} params at interface level",
                "worlds": all_worlds.iter().filter(|w| w.id.starts_with("seq/")).count(),
            },
            "resource_member_sets": worlds::RES_MEMBERS.iter().map(|s| s.0).collect::<Vec<_>>(),
            "namings": if run.thorough() { "plain|kebab x none|@1.2.3|@0.2.0-rc.1" } else { "kebab@1.2.3 for all, plain unversioned for str/futstr/handles and all resource/combined worlds" },
            "enumerated_worlds": n_enum,
            "corpus_worlds": n_corpus,
            "backends_x_variants": ALL_BACKENDS.iter().map(|b| format!("{}:{}", b.name(), worlds::variants(*b).iter().map(|v| v.0).collect::<Vec<_>>().join("|"))).collect::<Vec<_>>(),
        },
        "oracle": "names/signatures from wit-parser wasm_import_name/wasm_export_name/wasm_signature/task_return_import + fixed canonical built-ins; synthetic core module through wit_component::ComponentEncoder (validate) and decode; both cross-checked",
        "per_backend": per_json,
        "distinct_outcomes": encoder_outcomes,
        "exclusions": excl_reasons,
        "import_names_unknown_to_reference_but_accepted_by_encoder": overruled,
        "generator_failures_not_judged": gen_failed.iter().map(|(k, (n, w))| json!({"what": k, "count": n, "first_world": w})).collect::<Vec<_>>(),
        "violation_keys": viol.iter().map(|(k, v)| json!({"key": k, "cases": v.0})).collect::<Vec<_>>(),
        "samples": samples.items,
    });
    println!("C13: {} work items, {} generations judged; per backend:", items.len(), evaluations);
    for (k, p) in &per {
        println!(
            "  {k:8} judged={:5} excluded={:4} gen-failed={:4} imports={:6} (unreferenced skipped {:5}) exports={:6} shape-sets={}",
            p.checked, p.excluded, p.gen_failed, p.imports, p.unref, p.exports, p.fps.len()
        );
    }
    for (k, (n, w)) in &gen_failed {
        println!("  generator failure (not judged here) x{n}: {k}  [first: {w}]");
    }
    run.finish(
        cov,
        vec![
            "wit-parser naming/signature functions and wit-component's encoder are trusted (declared by the property)".into(),
            "an import counts as 'actually referenced' when its local identifier occurs anywhere in the generated text besides its declaration; unreferenced declarations are not judged".into(),
            "cabi_post_* exports are optional (checked for name and signature when present); a destructor export is expected for every exported resource".into(),
            "a generator error/panic on a non-excluded world is C16's subject: it is counted and listed, not judged here".into(),
            "worlds a backend declares unsupported (should_fail_verify in crates/test) are skipped; for enumerated worlds the exclusion is by WIT feature, incl. C#'s 'import-export-resource.wit' row read as 'same resource imported and exported'".into(),
            "core types are read from the declared source types (pointers/size_t/uintptr = i32: wasm32)".into(),
        ],
    );
}

fn strip_quoted(s: &str) -> String {
    // `should_fail_verify("name")` → per-backend reason without the file name
    match (s.find('('), s.rfind(')')) {
        (Some(a), Some(b)) if s.starts_with("should_fail_verify") && a < b => {
            format!("should_fail_verify(..){}", &s[b + 1..])
        }
        _ => s.to_string(),
    }
}
