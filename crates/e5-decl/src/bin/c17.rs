//! C17 — `--async` directives select exactly the documented functions.
//!
//! Space: all directive lists up to a length bound over a fixed alphabet, against one world
//! with sync and `async` functions at world level and in an interface, imported and exported,
//! including resource methods. Reference = the property statement ("first matching directive
//! in order wins, else the WIT `async` flag").

use clap::Parser;
use e5_decl::extract::extract;
use e5_decl::gen::{generate, load, Backend};
use e5_decl::oracle::{abi_forms, expected, Expected};
use serde_json::{json, Value};
use std::collections::{BTreeMap, BTreeSet};
use wit_bindgen_core::AsyncFilterSet;
use wit_parser::{Resolve, WorldId, WorldItem, WorldKey};

const WIT: &str = r#"package t:c17;

interface iface {
  resource r {
    constructor();
    m: func(a: u32) -> u32;
    am: async func(a: u32) -> u32;
  }
  g: func(a: u32) -> u32;
  ag: async func(a: u32) -> u32;
}

world w {
  import iface;
  export iface;
  import f: func(s: string) -> string;
  export f: func(s: string) -> string;
  import af: async func(s: string) -> string;
  export af: async func(s: string) -> string;
  import only-imp: func();
  export only-exp: func();
}
"#;

/// directive alphabet; the first `REDUCED` entries form the reduced alphabet
const ALPHABET: &[&str] = &[
    "all",
    "-all",
    "f",
    "-af",
    "import:f",
    "-export:af",
    "t:c17/iface#g",
    "nosuch",
    // ---- end of the reduced alphabet
    "-f",
    "export:f",
    "-import:f",
    "-export:f",
    "import:af",
    "-t:c17/iface#ag",
    "import:t:c17/iface#g",
    "-export:t:c17/iface#ag",
    "t:c17/iface#[method]r.m",
    "-import:t:c17/iface#[method]r.am",
    "export:only-imp",
    "iface#g",
];
const REDUCED: usize = 8;

#[derive(Clone, Debug)]
struct Func {
    /// name the documentation gives: `f` or `ns:pkg/iface#func`
    qualified: String,
    wit_async: bool,
    import: bool,
    /// index in `Expected::import_funcs` / `Expected::funcs`
    idx: usize,
    key: Option<WorldKey>,
    name: String,
}

/// The reference, written from the property statement and the option's documentation.
fn reference(list: &[&str], qualified: &str, import: bool, wit_async: bool) -> (bool, Option<usize>) {
    for (i, d) in list.iter().enumerate() {
        let (enabled, rest) = match d.strip_prefix('-') {
            Some(r) => (false, r),
            None => (true, *d),
        };
        if rest == "all" {
            return (enabled, Some(i));
        }
        let (dir, name) = if let Some(n) = rest.strip_prefix("import:") {
            (Some(true), n)
        } else if let Some(n) = rest.strip_prefix("export:") {
            (Some(false), n)
        } else {
            (None, rest)
        };
        if dir.map_or(true, |d| d == import) && name == qualified {
            return (enabled, Some(i));
        }
    }
    (wit_async, None)
}

fn is_all(d: &str) -> bool {
    d == "all" || d == "-all"
}

fn lists(alphabet: &[&'static str], max_len: usize) -> Vec<Vec<&'static str>> {
    let mut out: Vec<Vec<&'static str>> = vec![vec![]];
    let mut frontier: Vec<Vec<&'static str>> = vec![vec![]];
    for _ in 0..max_len {
        let mut next = vec![];
        for l in &frontier {
            for a in alphabet {
                let mut n = l.clone();
                n.push(*a);
                next.push(n);
            }
        }
        out.extend(next.iter().cloned());
        frontier = next;
    }
    out
}

fn functions(resolve: &Resolve, world: WorldId, exp: &Expected) -> Vec<Func> {
    let mut out = vec![];
    for (import, items) in [(true, &resolve.worlds[world].imports), (false, &resolve.worlds[world].exports)] {
        let infos = if import { &exp.import_funcs } else { &exp.funcs };
        for (key, item) in items.iter() {
            let mut push = |k: Option<&WorldKey>, name: &str| {
                let iface = k.map(|k| resolve.name_world_key(k));
                let idx = infos
                    .iter()
                    .position(|f| f.iface == iface && f.name == name)
                    .unwrap_or_else(|| vcommon::machinery("function table mismatch"));
                out.push(Func {
                    qualified: match &iface {
                        Some(i) => format!("{i}#{name}"),
                        None => name.to_string(),
                    },
                    wit_async: infos[idx].wit_async,
                    import,
                    idx,
                    key: k.cloned(),
                    name: name.to_string(),
                });
            };
            match item {
                WorldItem::Function(f) => push(None, &f.name),
                WorldItem::Interface { id, .. } => {
                    for (n, _) in resolve.interfaces[*id].functions.iter() {
                        push(Some(key), n);
                    }
                }
                WorldItem::Type { .. } => {}
            }
        }
    }
    out
}

fn lookup<'a>(resolve: &'a Resolve, world: WorldId, f: &Func) -> &'a wit_parser::Function {
    let items = if f.import { &resolve.worlds[world].imports } else { &resolve.worlds[world].exports };
    match &f.key {
        None => match &items[&WorldKey::Name(f.name.clone())] {
            WorldItem::Function(x) => x,
            _ => unreachable!(),
        },
        Some(k) => match &items[k] {
            WorldItem::Interface { id, .. } => &resolve.interfaces[*id].functions[&f.name],
            _ => unreachable!(),
        },
    }
}

#[derive(Parser)]
struct FilterArgs {
    #[clap(flatten)]
    set: AsyncFilterSet,
}

/// observer (1): `AsyncFilterSet::is_async`, set built through the clap parser (as the CLI does)
/// and, independently, through `push`; both must agree with the reference for every function in
/// both directions.
fn check_is_async(resolve: &Resolve, world: WorldId, funcs: &[Func], list: &[&str]) -> Vec<(String, String)> {
    let mut bad = vec![];
    let mut argv = vec!["x".to_string()];
    for d in list {
        argv.push(format!("--async={d}"));
    }
    let mut parsed = match FilterArgs::try_parse_from(&argv) {
        Ok(a) => a.set,
        Err(e) => {
            bad.push(("is_async:parse".to_string(), format!("directive list {list:?} is rejected by the option parser: {e}")));
            return bad;
        }
    };
    let mut pushed = AsyncFilterSet::default();
    for d in list {
        pushed.push(d);
    }
    // also the comma-separated spelling
    let mut comma = if list.is_empty() {
        AsyncFilterSet::default()
    } else {
        match FilterArgs::try_parse_from(["x".to_string(), format!("--async={}", list.join(","))]) {
            Ok(a) => a.set,
            Err(e) => {
                bad.push(("is_async:parse-comma".to_string(), format!("{list:?}: {e}")));
                return bad;
            }
        }
    };
    for f in funcs {
        let func = lookup(resolve, world, f);
        for import in [true, false] {
            let (want, _) = reference(list, &f.qualified, import, f.wit_async);
            for (how, set) in [("clap", &mut parsed), ("push", &mut pushed), ("comma", &mut comma)] {
                let got = set.is_async(resolve, f.key.as_ref(), func, import);
                if got != want {
                    bad.push((
                        format!(
                            "is_async:{}:{}:got={got},want={want}",
                            f.qualified,
                            if import { "import" } else { "export" }
                        ),
                        format!(
                            "AsyncFilterSet({how}) {list:?}: is_async({}, {}) = {got}, the documented rule gives {want}",
                            f.qualified,
                            if import { "import" } else { "export" }
                        ),
                    ));
                }
            }
        }
    }
    bad
}

const GEN_BACKENDS: [Backend; 4] = [Backend::Rust, Backend::C, Backend::MoonBit, Backend::Go];

/// observers (2) and (3): real generation
fn check_generated(
    base: &Resolve,
    world: WorldId,
    exp: &Expected,
    funcs: &[Func],
    list: &[&str],
    b: Backend,
) -> (Vec<(String, String)>, Value) {
    let mut bad = vec![];
    let mut args: Vec<String> = match b {
        Backend::Rust => vec!["--generate-all".into(), "--stubs".into()],
        Backend::Go => vec!["--generate-stubs".into()],
        _ => vec![],
    };
    for d in list {
        args.push(format!("--async={d}"));
    }
    // reference for the "unused directive" rule
    let mut first_match: BTreeSet<usize> = BTreeSet::new();
    for f in funcs {
        if let (_, Some(i)) = reference(list, &f.qualified, f.import, f.wit_async) {
            first_match.insert(i);
        }
    }
    let matches_anything = |d: &str| -> bool {
        funcs.iter().any(|f| reference(&[d], &f.qualified, f.import, f.wit_async).1.is_some())
    };
    let must_error = list.iter().any(|d| !is_all(d) && !matches_anything(d));
    let must_succeed = list.iter().enumerate().all(|(i, d)| is_all(d) || first_match.contains(&i));

    let mut resolve = base.clone();
    let r = vcommon::catch(|| generate(b, &args, &mut resolve, world));
    let zone = if must_error {
        "must-error"
    } else if must_succeed {
        "must-succeed"
    } else {
        "shadowed-directive"
    };
    let mut info = json!({"backend": b.name(), "zone": zone});
    let g = match r {
        Err(p) => {
            bad.push((format!("{}:panic", b.name()), format!("{} panics on --async {list:?}: {p}", b.name())));
            return (bad, info);
        }
        Ok(Err(e)) => {
            let msg = format!("{e:#}");
            info["outcome"] = json!("error");
            if b == Backend::Rust && msg.contains("unused async option") {
                if must_succeed {
                    bad.push((
                        "rust-unused:rejects-a-list-whose-directives-all-select-something".to_string(),
                        format!("Rust generator rejects {list:?} with `{msg}` although every directive is the first match of some function"),
                    ));
                }
            } else {
                bad.push((
                    format!("{}:generation-error", b.name()),
                    format!("{} fails on --async {list:?}: {msg}", b.name()),
                ));
            }
            return (bad, info);
        }
        Ok(Ok(g)) => g,
    };
    info["outcome"] = json!("ok");
    if b == Backend::Rust && must_error {
        bad.push((
            "rust-unused:accepts-a-directive-that-matches-nothing".to_string(),
            format!("Rust generator accepts {list:?} although a directive matches no function of the world"),
        ));
    }
    let decls = match extract(b, &g.files) {
        Ok(d) => d,
        Err(e) => vcommon::machinery(&format!("extractor({}): {e} for --async {list:?}", b.name())),
    };
    let (imp, ex) = abi_forms(exp, &decls);
    for f in funcs {
        let (want, _) = reference(list, &f.qualified, f.import, f.wit_async);
        let want_s = if want { "async" } else { "sync" };
        let got = if f.import { imp.get(&f.idx) } else { ex.get(&f.idx) };
        let got_s: Vec<String> = got.map(|s| s.iter().cloned().collect()).unwrap_or_default();
        if got_s != [want_s.to_string()] {
            bad.push((
                format!(
                    "{}:abi:{}:{}:got={},want={want_s}",
                    b.name(),
                    f.qualified,
                    if f.import { "import" } else { "export" },
                    if got_s.is_empty() { "none".to_string() } else { got_s.join("+") }
                ),
                format!(
                    "{} with --async {list:?}: {} `{}` is bound {} but the documented rule gives {want_s}",
                    b.name(),
                    if f.import { "import" } else { "export" },
                    f.qualified,
                    if got_s.is_empty() { "not at all".to_string() } else { got_s.join("+") },
                ),
            ));
        }
    }
    (bad, info)
}

fn main() {
    vcommon::install_quiet_panic_hook();
    let mut run = vcommon::Run::from_args("C17", "exploration");
    let (resolve, world) = load(None, Some(WIT)).unwrap_or_else(|e| vcommon::machinery(&format!("C17 world: {e:#}")));
    let exp = expected(&resolve, world);
    let funcs = functions(&resolve, world, &exp);
    if funcs.len() != 16 {
        vcommon::machinery(&format!("expected 16 function bindings in the C17 world, found {}", funcs.len()));
    }

    if let Some(d) = run.replay_detail() {
        let list: Vec<String> = d["list"].as_array().unwrap().iter().map(|x| x.as_str().unwrap().to_string()).collect();
        let list: Vec<&str> = list.iter().map(|s| s.as_str()).collect();
        println!("replaying --async {list:?} (key {})", d["key"]);
        let mut bad = check_is_async(&resolve, world, &funcs, &list);
        for b in GEN_BACKENDS {
            let (v, info) = check_generated(&resolve, world, &exp, &funcs, &list, b);
            println!("  {info}");
            bad.extend(v);
        }
        for (k, w) in &bad {
            println!("  VIOLATES {k} — {w}");
        }
        std::process::exit(if bad.is_empty() { 0 } else { 1 });
    }

    // ---- (1) is_async over all lists
    let n1 = run.pick(3, 4);
    let all = lists(ALPHABET, n1);
    // ---- (2)+(3) generation: full alphabet to length n2, reduced alphabet to length n3
    let (n2, n3) = run.pick((2, 3), (3, 4));
    let mut gen_lists = lists(ALPHABET, n2);
    let seen: BTreeSet<Vec<&str>> = gen_lists.iter().cloned().collect();
    for l in lists(&ALPHABET[..REDUCED], n3) {
        if !seen.contains(&l) {
            gen_lists.push(l);
        }
    }
    // Go follows the same AsyncFilterSet; it is exercised in the thorough tier only
    let backends: Vec<Backend> =
        GEN_BACKENDS.iter().copied().filter(|b| run.thorough() || *b != Backend::Go).collect();
    let chunk = 256usize;
    let nchunks1 = all.len().div_ceil(chunk);
    let njobs2 = gen_lists.len() * backends.len();
    let total = nchunks1 + njobs2;
    let rot = (run.seed as usize) % total.max(1);
    let results = vcommon::par_map(total, vcommon::ncpu(), |j| {
        let j = (j + rot) % total;
        if j < nchunks1 {
            let mut bad = vec![];
            let mut outcomes: BTreeSet<String> = BTreeSet::new();
            for l in &all[j * chunk..((j + 1) * chunk).min(all.len())] {
                for (k, w) in check_is_async(&resolve, world, &funcs, l) {
                    bad.push(json!({"key": k, "what": w, "list": l}));
                }
                // distinct outcome = the vector of reference answers for all 32 queries
                let sigv: String = funcs
                    .iter()
                    .flat_map(|f| [true, false].map(|d| if reference(l, &f.qualified, d, f.wit_async).0 { 'a' } else { 's' }))
                    .collect();
                outcomes.insert(sigv);
            }
            json!({"kind": 1, "n": ((j + 1) * chunk).min(all.len()) - j * chunk, "bad": bad, "outcomes": outcomes})
        } else {
            let k = j - nchunks1;
            let l = &gen_lists[k / backends.len()];
            let b = backends[k % backends.len()];
            let (bad, info) = check_generated(&resolve, world, &exp, &funcs, l, b);
            json!({"kind": 2, "info": info, "list": l,
                   "bad": bad.into_iter().map(|(k, w)| json!({"key": k, "what": w, "list": l})).collect::<Vec<_>>()})
        }
    });

    let mut evals1 = 0usize;
    let mut outcomes: BTreeSet<String> = BTreeSet::new();
    let mut zones: BTreeMap<String, usize> = BTreeMap::new();
    let mut samples = vcommon::Samples::new(10);
    // key → (what, shortest list)
    let mut viol: BTreeMap<String, (String, Vec<String>, usize)> = BTreeMap::new();
    for r in &results {
        if r["kind"] == 1 {
            evals1 += r["n"].as_u64().unwrap() as usize;
            for o in r["outcomes"].as_array().unwrap() {
                outcomes.insert(o.as_str().unwrap().to_string());
            }
        } else {
            let z = format!(
                "{}:{}:{}",
                r["info"]["backend"].as_str().unwrap_or(""),
                r["info"]["zone"].as_str().unwrap_or(""),
                r["info"]["outcome"].as_str().unwrap_or("")
            );
            *zones.entry(z).or_insert(0) += 1;
            samples.offer(|| json!({"async": r["list"], "observed": r["info"]}));
        }
        for b in r["bad"].as_array().unwrap() {
            let key = b["key"].as_str().unwrap().to_string();
            let list: Vec<String> = b["list"].as_array().unwrap().iter().map(|x| x.as_str().unwrap().to_string()).collect();
            let e = viol.entry(key).or_insert((b["what"].as_str().unwrap().to_string(), list.clone(), 0));
            e.2 += 1;
            if list.len() < e.1.len() {
                e.0 = b["what"].as_str().unwrap().to_string();
                e.1 = list;
            }
        }
    }
    for (key, (what, list, n)) in &viol {
        run.violation(key, &format!("{what} [{n} directive lists]"), json!({"list": list, "key": key}));
    }
    let cov = json!({
        "evaluations": evals1 * 32 * 3 + njobs2,
        "directive_lists_is_async": evals1,
        "is_async_queries": evals1 * 32 * 3,
        "generations": njobs2,
        "distinct_nontrivial": outcomes.len(),
        "rule": "distinct vectors of the reference's 32 answers (16 function bindings x 2 directions) produced by the enumerated directive lists",
        "exhaustive": true,
        "bounds": {
            "alphabet": ALPHABET,
            "reduced_alphabet": &ALPHABET[..REDUCED],
            "is_async_max_list_length": n1,
            "generation_max_list_length_full_alphabet": n2,
            "generation_max_list_length_reduced_alphabet": n3,
            "generation_backends": backends.iter().map(|b| b.name()).collect::<Vec<_>>(),
            "world": WIT,
            "function_bindings": funcs.iter().map(|f| format!("{} {}{}", if f.import { "import" } else { "export" }, f.qualified, if f.wit_async { " (async)" } else { "" })).collect::<Vec<_>>(),
        },
        "oracle": "first directive (in order) whose name and direction match decides; otherwise the WIT async flag; compared with AsyncFilterSet::is_async (clap, comma-separated, push) and with the [async-lower]/[async-lift] core names in generated Rust/C/MoonBit/Go; Rust must fail with 'unused async option' when a directive matches nothing and must not fail when every directive is some function's first match",
        "distinct_outcomes": zones,
        "samples": samples.items,
    });
    println!(
        "C17: {} directive lists x 32 queries x 3 construction paths; {} generations; {} distinct reference outcome vectors",
        evals1,
        njobs2,
        outcomes.len()
    );
    for (z, n) in &zones {
        println!("  {z}: {n}");
    }
    run.finish(
        cov,
        vec![
            "the function name a directive is compared with is `name` for world-level functions and `<world key>#<name>` for interface functions, as the option's documentation states".into(),
            "a directive that names an existing function/direction but is shadowed by an earlier directive for every function is in a grey zone of the statement ('matched nothing'): the Rust generator may accept or reject it (observed behaviour is counted under distinct_outcomes)".into(),
            "resource constructors follow the same rule as every other function (`all` makes them async); the component model has no async constructors, which is C13's subject, not C17's".into(),
        ],
    );
}
