//! Per-backend extraction of core-wasm import / export declarations from generated *text*.
//!
//! Every extractor is guarded by a marker count: the number of raw attribute markers in the
//! text (e.g. `__import_name__(`, `//go:wasmimport`, `EntryPoint = "`) must equal the number of
//! declarations the pattern parsed, and every type token must be known. Anything else is an
//! `Err` which the callers turn into a *machinery* error (exit 2), never a pass.

use crate::gen::Backend;
use regex::Regex;
use std::collections::BTreeMap;
use std::sync::OnceLock;

#[derive(Clone, Copy, PartialEq, Eq, Debug, PartialOrd, Ord, Hash)]
pub enum Core {
    I32,
    I64,
    F32,
    F64,
}

impl Core {
    pub fn s(self) -> &'static str {
        match self {
            Core::I32 => "i32",
            Core::I64 => "i64",
            Core::F32 => "f32",
            Core::F64 => "f64",
        }
    }
}

#[derive(Clone, PartialEq, Eq, Debug, PartialOrd, Ord, Hash)]
pub struct Sig {
    pub params: Vec<Core>,
    pub results: Vec<Core>,
}

impl Sig {
    pub fn show(&self) -> String {
        format!(
            "({})->({})",
            self.params.iter().map(|c| c.s()).collect::<Vec<_>>().join(","),
            self.results.iter().map(|c| c.s()).collect::<Vec<_>>().join(",")
        )
    }
}

#[derive(Clone, Debug)]
pub struct Import {
    pub module: String,
    pub name: String,
    pub sig: Sig,
    pub ident: String,
    pub file: String,
    /// the local identifier occurs somewhere else than in its own declaration
    pub referenced: bool,
}

#[derive(Clone, Debug)]
pub struct Export {
    pub name: String,
    pub sig: Sig,
    pub ident: String,
    pub file: String,
}

#[derive(Clone, Debug, Default)]
pub struct Decls {
    pub imports: Vec<Import>,
    pub exports: Vec<Export>,
    /// exports that are not functions (MoonBit `export-memory-name`)
    pub memory_export: Option<String>,
}

fn re(cell: &'static OnceLock<Regex>, pat: &str) -> &'static Regex {
    cell.get_or_init(|| Regex::new(pat).unwrap())
}

/// Split `head(params)` starting at `text[pos..]`: returns (head, params, index after ')').
/// The parameter list must not contain parentheses.
fn proto_at(text: &str, pos: usize) -> Result<(&str, &str, usize), String> {
    let rest = &text[pos..];
    let open = rest.find('(').ok_or("no '(' after attribute")?;
    let head = &rest[..open];
    if head.contains(';') || head.contains('{') || head.contains('}') {
        return Err(format!("prototype head crosses a statement: {:?}", &rest[..open.min(120)]));
    }
    let after = &rest[open + 1..];
    let close = after.find(')').ok_or("no ')' in prototype")?;
    let params = &after[..close];
    if params.contains('(') {
        return Err(format!("nested parenthesis in parameter list {params:?}"));
    }
    Ok((head, params, pos + open + 1 + close + 1))
}

/// last identifier of `head` = function name, rest = return type text
fn split_head(head: &str) -> Result<(String, String), String> {
    let h = head.trim_end();
    let idx = h
        .rfind(|c: char| !(c.is_alphanumeric() || c == '_'))
        .map(|i| i + h[i..].chars().next().unwrap().len_utf8())
        .unwrap_or(0);
    let name = &h[idx..];
    if name.is_empty() {
        return Err(format!("no identifier in prototype head {head:?}"));
    }
    Ok((h[..idx].trim().to_string(), name.to_string()))
}

fn count(text: &str, pat: &str) -> usize {
    text.matches(pat).count()
}

/// occurrences of `word` followed (after optional `__` and blanks) by `follow`
fn count_followed(text: &str, word: &str, follow: char) -> usize {
    let mut n = 0;
    let mut start = 0;
    while let Some(i) = text[start..].find(word) {
        let e = start + i + word.len();
        let rest = text[e..].strip_prefix("__").unwrap_or(&text[e..]);
        if rest.trim_start().starts_with(follow) {
            n += 1;
        }
        start = e;
    }
    n
}

fn word_count(text: &str, ident: &str) -> usize {
    let mut n = 0;
    let b = text.as_bytes();
    let mut start = 0;
    while let Some(i) = text[start..].find(ident) {
        let s = start + i;
        let e = s + ident.len();
        let before_ok = s == 0 || !(b[s - 1].is_ascii_alphanumeric() || b[s - 1] == b'_');
        let after_ok = e >= b.len() || !(b[e].is_ascii_alphanumeric() || b[e] == b'_');
        if before_ok && after_ok {
            n += 1;
        }
        start = e;
    }
    n
}

// ---------------------------------------------------------------- C / C++

fn c_type(t: &str) -> Result<Option<Core>, String> {
    let t = t.trim();
    if t.contains('*') {
        return Ok(Some(Core::I32));
    }
    let toks: Vec<&str> = t
        .split_whitespace()
        .filter(|w| !matches!(*w, "const" | "extern" | "static" | "\"C\"" | "struct"))
        .collect();
    let ty = match toks.as_slice() {
        [] => return Err("empty C type".into()),
        [a] | [a, _] => *a,
        _ => return Err(format!("unparsed C type {t:?}")),
    };
    Ok(Some(match ty {
        "void" => return Ok(None),
        "int32_t" | "uint32_t" | "size_t" | "uintptr_t" | "intptr_t" | "int" | "bool" | "uint8_t" | "int8_t"
        | "uint16_t" | "int16_t" => Core::I32,
        "int64_t" | "uint64_t" => Core::I64,
        "float" => Core::F32,
        "double" => Core::F64,
        other => return Err(format!("unknown C type {other:?} in {t:?}")),
    }))
}

fn c_sig(ret: &str, params: &str) -> Result<Sig, String> {
    let mut ps = Vec::new();
    let p = params.trim();
    if !(p.is_empty() || p == "void") {
        for part in p.split(',') {
            match c_type(part)? {
                Some(c) => ps.push(c),
                None => return Err(format!("void parameter in {params:?}")),
            }
        }
    }
    let results = c_type(ret)?.into_iter().collect();
    Ok(Sig { params: ps, results })
}

fn extract_c_family(files: &[(String, String)], d: &mut Decls) -> Result<(), String> {
    static IMP: OnceLock<Regex> = OnceLock::new();
    static EXP: OnceLock<Regex> = OnceLock::new();
    let imp = re(
        &IMP,
        r#"(?:__)?import_module(?:__)?\("([^"]*)"\)\s*(?:,|\)\)\s*__attribute__\(\()\s*(?:__)?import_name(?:__)?\("([^"]*)"\)\s*\)\)"#,
    );
    let exp = re(&EXP, r#"(?:__)?export_name(?:__)?\("([^"]*)"\)\s*\)\)"#);
    for (file, text) in files {
        if !(file.ends_with(".c") || file.ends_with(".cpp") || file.ends_with(".h") || file.ends_with(".hpp")) {
            continue;
        }
        let mut ni = 0;
        for m in imp.captures_iter(text) {
            ni += 1;
            let (head, params, end) = proto_at(text, m.get(0).unwrap().end())?;
            if !text[end..].trim_start().starts_with(';') {
                return Err(format!("{file}: import prototype for {:?} not followed by ';'", &m[2]));
            }
            let (ret, ident) = split_head(head)?;
            d.imports.push(Import {
                module: m[1].to_string(),
                name: m[2].to_string(),
                sig: c_sig(&ret, params).map_err(|e| format!("{file}: import {}: {e}", &m[2]))?,
                ident,
                file: file.clone(),
                referenced: false,
            });
        }
        let markers = count_followed(text, "import_name", '(');
        if markers != ni {
            return Err(format!("{file}: {markers} `import_name` markers but {ni} import declarations parsed"));
        }
        let mut ne = 0;
        for m in exp.captures_iter(text) {
            ne += 1;
            let (head, params, end) = proto_at(text, m.get(0).unwrap().end())?;
            if !text[end..].trim_start().starts_with('{') {
                return Err(format!("{file}: export {:?} has no body", &m[1]));
            }
            let (ret, ident) = split_head(head)?;
            d.exports.push(Export {
                name: m[1].to_string(),
                sig: c_sig(&ret, params).map_err(|e| format!("{file}: export {}: {e}", &m[1]))?,
                ident,
                file: file.clone(),
            });
        }
        let markers = count_followed(text, "export_name", '(');
        if markers != ne {
            return Err(format!("{file}: {markers} `export_name` markers but {ne} export declarations parsed"));
        }
    }
    Ok(())
}

// ---------------------------------------------------------------- Rust

fn rust_type(t: &str) -> Result<Option<Core>, String> {
    let t: String = t.chars().filter(|c| !c.is_whitespace()).collect();
    if t.starts_with('*') {
        return Ok(Some(Core::I32));
    }
    // `::core::mem::MaybeUninit<u64>` is how the Rust backend spells "pointer or i64"
    let t = t.replace("MaybeUninit::<", "MaybeUninit<");
    let t = match t.split_once("MaybeUninit<") {
        Some((p, inner)) if p.chars().all(|c| c == ':' || c.is_alphanumeric() || c == '_') => {
            inner.strip_suffix('>').unwrap_or(inner).to_string()
        }
        _ => t,
    };
    Ok(Some(match t.as_str() {
        "()" | "" => return Ok(None),
        "i32" | "u32" | "usize" | "isize" => Core::I32,
        "i64" | "u64" => Core::I64,
        "f32" => Core::F32,
        "f64" => Core::F64,
        other => return Err(format!("unknown Rust type {other:?}")),
    }))
}

fn rust_sig(params: &str, ret: Option<&str>) -> Result<Sig, String> {
    let mut ps = Vec::new();
    for part in params.split(',') {
        let part = part.trim();
        if part.is_empty() {
            continue;
        }
        let ty = part.split_once(':').ok_or_else(|| format!("Rust parameter without type {part:?}"))?.1;
        match rust_type(ty)? {
            Some(c) => ps.push(c),
            None => return Err(format!("unit parameter {part:?}")),
        }
    }
    let results = match ret {
        Some(r) => rust_type(r)?.into_iter().collect(),
        None => vec![],
    };
    Ok(Sig { params: ps, results })
}

fn extract_rust(files: &[(String, String)], d: &mut Decls) -> Result<(), String> {
    static BLOCK: OnceLock<Regex> = OnceLock::new();
    static ITEM: OnceLock<Regex> = OnceLock::new();
    static EXP: OnceLock<Regex> = OnceLock::new();
    let block = re(
        &BLOCK,
        r#"#\s*\[\s*link\s*\(\s*wasm_import_module\s*=\s*"([^"]*)"\s*,?\s*\)\s*\]\s*(?:#\s*\[[^\]]*\]\s*)*unsafe\s+extern\s+"C"\s*\{([^{}]*)\}"#,
    );
    let item = re(
        &ITEM,
        r#"#\s*\[\s*link_name\s*=\s*"([^"]*)"\s*\]\s*(?:pub\s+)?fn\s+(\w+)\s*\(([^)]*)\)\s*(?:->\s*([^;]+?))?\s*;"#,
    );
    let exp = re(
        &EXP,
        r#"#\s*\[\s*unsafe\s*\(\s*export_name\s*=\s*"([^"]*)"\s*,?\s*\)\s*\]\s*(?:#\s*\[[^\]]*\]\s*)*(?:pub\s+)?unsafe\s+extern\s+"C"\s+fn\s+(\w+)\s*\(([^)]*)\)\s*(?:->\s*([^{]+?))?\s*\{"#,
    );
    for (file, text) in files {
        if !file.ends_with(".rs") {
            continue;
        }
        let mut ni = 0;
        for b in block.captures_iter(text) {
            let body = b.get(2).unwrap().as_str();
            let mut in_block = 0;
            for m in item.captures_iter(body) {
                ni += 1;
                in_block += 1;
                d.imports.push(Import {
                    module: b[1].to_string(),
                    name: m[1].to_string(),
                    sig: rust_sig(&m[3], m.get(4).map(|x| x.as_str()))
                        .map_err(|e| format!("{file}: import {}: {e}", &m[1]))?,
                    ident: m[2].to_string(),
                    file: file.clone(),
                    referenced: false,
                });
            }
            if in_block != count_followed(body, "link_name", '=') {
                return Err(format!("{file}: extern block for module {:?}: unparsed link_name item", &b[1]));
            }
        }
        let markers = count_followed(text, "link_name", '=');
        if markers != ni {
            return Err(format!("{file}: {markers} `link_name` markers but {ni} imports parsed"));
        }
        let mut ne = 0;
        for m in exp.captures_iter(text) {
            ne += 1;
            d.exports.push(Export {
                name: m[1].to_string(),
                sig: rust_sig(&m[3], m.get(4).map(|x| x.as_str()))
                    .map_err(|e| format!("{file}: export {}: {e}", &m[1]))?,
                ident: m[2].to_string(),
                file: file.clone(),
            });
        }
        let markers = count_followed(text, "export_name", '=');
        if markers != ne {
            return Err(format!("{file}: {markers} `export_name` markers but {ne} exports parsed"));
        }
    }
    Ok(())
}

// ---------------------------------------------------------------- Go

fn go_type(t: &str) -> Result<Core, String> {
    Ok(match t.trim() {
        "int32" | "uint32" | "uintptr" | "unsafe.Pointer" | "bool" => Core::I32,
        "int64" | "uint64" => Core::I64,
        "float32" => Core::F32,
        "float64" => Core::F64,
        other => return Err(format!("unknown Go type {other:?}")),
    })
}

fn go_sig(params: &str, ret: &str) -> Result<Sig, String> {
    let mut ps = Vec::new();
    let mut pending = 0usize; // names without a type yet (`a, b int32`)
    for part in params.split(',') {
        let part = part.trim();
        if part.is_empty() {
            continue;
        }
        let toks: Vec<&str> = part.split_whitespace().collect();
        match toks.as_slice() {
            [_name] => pending += 1,
            [_name, ty] => {
                let c = go_type(ty)?;
                for _ in 0..=pending {
                    ps.push(c);
                }
                pending = 0;
            }
            _ => return Err(format!("unparsed Go parameter {part:?}")),
        }
    }
    if pending != 0 {
        return Err(format!("Go parameters without type in {params:?}"));
    }
    let ret = ret.trim();
    let results = if ret.is_empty() { vec![] } else { vec![go_type(ret)?] };
    Ok(Sig { params: ps, results })
}

fn extract_go(files: &[(String, String)], d: &mut Decls) -> Result<(), String> {
    static IMP: OnceLock<Regex> = OnceLock::new();
    static EXP: OnceLock<Regex> = OnceLock::new();
    let imp = re(
        &IMP,
        r#"(?m)^//go:wasmimport (\S+) (\S+)[ \t]*\n[ \t]*func (\w+)\(([^)]*)\)([^\n{]*)$"#,
    );
    let exp = re(
        &EXP,
        r#"(?m)^//go:wasmexport (\S+)[ \t]*\n[ \t]*func (\w+)\(([^)]*)\)([^\n{]*)\{"#,
    );
    for (file, text) in files {
        if !file.ends_with(".go") {
            continue;
        }
        let mut ni = 0;
        for m in imp.captures_iter(text) {
            ni += 1;
            d.imports.push(Import {
                module: m[1].to_string(),
                name: m[2].to_string(),
                sig: go_sig(&m[4], &m[5]).map_err(|e| format!("{file}: import {}: {e}", &m[2]))?,
                ident: m[3].to_string(),
                file: file.clone(),
                referenced: false,
            });
        }
        let markers = text.lines().filter(|l| l.starts_with("//go:wasmimport ")).count();
        if markers != ni {
            return Err(format!("{file}: {markers} `//go:wasmimport` lines but {ni} imports parsed"));
        }
        let mut ne = 0;
        for m in exp.captures_iter(text) {
            ne += 1;
            d.exports.push(Export {
                name: m[1].to_string(),
                sig: go_sig(&m[3], &m[4]).map_err(|e| format!("{file}: export {}: {e}", &m[1]))?,
                ident: m[2].to_string(),
                file: file.clone(),
            });
        }
        let markers = text.lines().filter(|l| l.starts_with("//go:wasmexport ")).count();
        if markers != ne {
            return Err(format!("{file}: {markers} `//go:wasmexport` lines but {ne} exports parsed"));
        }
    }
    Ok(())
}

// ---------------------------------------------------------------- MoonBit

fn mbt_type(t: &str) -> Result<Option<Core>, String> {
    Ok(Some(match t.trim() {
        "Unit" | "" => return Ok(None),
        "Int" | "UInt" | "Bool" | "Byte" => Core::I32,
        "Int64" | "UInt64" => Core::I64,
        "Float" => Core::F32,
        "Double" => Core::F64,
        other => return Err(format!("unknown MoonBit type {other:?}")),
    }))
}

fn mbt_sig(params: &str, ret: Option<&str>) -> Result<Sig, String> {
    let mut ps = Vec::new();
    for part in params.split(',') {
        let part = part.trim();
        if part.is_empty() {
            continue;
        }
        let ty = part.split_once(':').ok_or_else(|| format!("MoonBit parameter without type {part:?}"))?.1;
        match mbt_type(ty)? {
            Some(c) => ps.push(c),
            None => return Err(format!("Unit parameter {part:?}")),
        }
    }
    let results = match ret {
        Some(r) => mbt_type(r)?.into_iter().collect(),
        None => vec![],
    };
    Ok(Sig { params: ps, results })
}

fn extract_moonbit(files: &[(String, String)], d: &mut Decls) -> Result<(), String> {
    static IMP: OnceLock<Regex> = OnceLock::new();
    static MARK: OnceLock<Regex> = OnceLock::new();
    let imp = re(
        &IMP,
        r#"\bfn\s+(\w+)\s*\(([^)]*)\)\s*(?:->\s*(\w+))?\s*=\s*"([^"\n]*)"\s+"([^"\n]*)""#,
    );
    let mark = re(&MARK, r#"=\s*"[^"\n]*"[ \t]+"[^"\n]*""#);
    for (file, text) in files {
        if !file.ends_with(".mbt") {
            continue;
        }
        let mut ni = 0;
        for m in imp.captures_iter(text) {
            ni += 1;
            d.imports.push(Import {
                module: m[4].to_string(),
                name: m[5].to_string(),
                sig: mbt_sig(&m[2], m.get(3).map(|x| x.as_str()))
                    .map_err(|e| format!("{file}: import {}: {e}", &m[5]))?,
                ident: m[1].to_string(),
                file: file.clone(),
                referenced: false,
            });
        }
        let markers = mark.find_iter(text).count();
        if markers != ni {
            return Err(format!("{file}: {markers} `= \"m\" \"n\"` markers but {ni} imports parsed"));
        }
    }
    // exports: `link.wasm.exports` of every moon.pkg.json, function looked up in the same directory
    for (file, text) in files {
        if !file.ends_with("moon.pkg.json") {
            continue;
        }
        let v: serde_json::Value =
            serde_json::from_str(text).map_err(|e| format!("{file}: not JSON: {e}"))?;
        let wasm = &v["link"]["wasm"];
        if let Some(m) = wasm["export-memory-name"].as_str() {
            d.memory_export = Some(m.to_string());
        }
        let Some(list) = wasm["exports"].as_array() else {
            if text.contains("\"exports\"") {
                return Err(format!("{file}: `exports` present but not at link.wasm.exports"));
            }
            continue;
        };
        let dir = file.strip_suffix("moon.pkg.json").unwrap();
        for e in list {
            let s = e.as_str().ok_or_else(|| format!("{file}: non-string export entry"))?;
            let (func, name) = s.split_once(':').unwrap_or((s, s));
            let pat = Regex::new(&format!(
                r#"\bpub\s+fn\s+{}\s*\(([^)]*)\)\s*(?:->\s*(\w+))?\s*\{{"#,
                regex::escape(func)
            ))
            .unwrap();
            let mut found = None;
            for (f2, t2) in files {
                if f2.ends_with(".mbt") && f2.strip_prefix(dir).map_or(false, |r| !r.contains('/')) {
                    if let Some(m) = pat.captures(t2) {
                        if found.is_some() {
                            return Err(format!("{file}: exported function {func} defined twice"));
                        }
                        found = Some((
                            f2.clone(),
                            mbt_sig(&m[1], m.get(2).map(|x| x.as_str()))
                                .map_err(|e| format!("{f2}: export {name}: {e}"))?,
                        ));
                    }
                }
            }
            let (f2, sig) = found.ok_or_else(|| format!("{file}: exported function {func} not found in {dir}*.mbt"))?;
            d.exports.push(Export { name: name.to_string(), sig, ident: func.to_string(), file: f2 });
        }
    }
    Ok(())
}

// ---------------------------------------------------------------- C#

fn cs_type(t: &str) -> Result<Option<Core>, String> {
    let t = t.trim();
    if t.ends_with('*') {
        return Ok(Some(Core::I32));
    }
    Ok(Some(match t {
        "void" => return Ok(None),
        "int" | "uint" | "nint" | "nuint" | "IntPtr" | "UIntPtr" | "bool" | "byte" | "sbyte" | "short" | "ushort" => {
            Core::I32
        }
        "long" | "ulong" => Core::I64,
        "float" => Core::F32,
        "double" => Core::F64,
        other => return Err(format!("unknown C# type {other:?}")),
    }))
}

fn cs_sig(ret: &str, params: &str) -> Result<Sig, String> {
    let mut ps = Vec::new();
    for part in params.split(',') {
        let part = part.trim();
        if part.is_empty() {
            continue;
        }
        // `type name`
        let idx = part.rfind(|c: char| c.is_whitespace()).ok_or_else(|| format!("C# parameter {part:?}"))?;
        match cs_type(&part[..idx])? {
            Some(c) => ps.push(c),
            None => return Err(format!("void parameter {part:?}")),
        }
    }
    Ok(Sig { params: ps, results: cs_type(ret)?.into_iter().collect() })
}

fn cs_ret(head: &str) -> Result<(String, String), String> {
    let (ret, ident) = split_head(head)?;
    let toks: Vec<&str> = ret
        .split_whitespace()
        .filter(|w| !matches!(*w, "public" | "internal" | "private" | "static" | "extern" | "unsafe"))
        .collect();
    if toks.len() != 1 {
        return Err(format!("unparsed C# return type in {head:?}"));
    }
    Ok((toks[0].to_string(), ident))
}

fn extract_csharp(files: &[(String, String)], d: &mut Decls) -> Result<(), String> {
    static IMP: OnceLock<Regex> = OnceLock::new();
    static EXP: OnceLock<Regex> = OnceLock::new();
    let imp = re(
        &IMP,
        r#"DllImport(?:Attribute)?\("([^"]*)",\s*EntryPoint\s*=\s*"([^"]*)"\)\s*,\s*(?:global::System\.Runtime\.InteropServices\.)?WasmImportLinkage(?:Attribute)?\s*\]"#,
    );
    let exp = re(&EXP, r#"UnmanagedCallersOnly(?:Attribute)?\(EntryPoint\s*=\s*"([^"]*)"\)\s*\]"#);
    for (file, text) in files {
        if !file.ends_with(".cs") {
            continue;
        }
        let mut n = 0;
        for m in imp.captures_iter(text) {
            n += 1;
            let (head, params, end) = proto_at(text, m.get(0).unwrap().end())?;
            if !text[end..].trim_start().starts_with(';') {
                return Err(format!("{file}: DllImport {:?} not followed by an extern prototype", &m[2]));
            }
            let (ret, ident) = cs_ret(head)?;
            d.imports.push(Import {
                module: m[1].to_string(),
                name: m[2].to_string(),
                sig: cs_sig(&ret, params).map_err(|e| format!("{file}: import {}: {e}", &m[2]))?,
                ident,
                file: file.clone(),
                referenced: false,
            });
        }
        for m in exp.captures_iter(text) {
            n += 1;
            let (head, params, end) = proto_at(text, m.get(0).unwrap().end())?;
            if !text[end..].trim_start().starts_with('{') {
                return Err(format!("{file}: export {:?} has no body", &m[1]));
            }
            let (ret, ident) = cs_ret(head)?;
            d.exports.push(Export {
                name: m[1].to_string(),
                sig: cs_sig(&ret, params).map_err(|e| format!("{file}: export {}: {e}", &m[1]))?,
                ident,
                file: file.clone(),
            });
        }
        let markers = count(text, "EntryPoint");
        if markers != n {
            return Err(format!("{file}: {markers} `EntryPoint` markers but {n} declarations parsed"));
        }
    }
    Ok(())
}

// ---------------------------------------------------------------- D

fn d_type(t: &str) -> Result<Option<Core>, String> {
    let t = t.trim();
    if t.ends_with('*') {
        return Ok(Some(Core::I32));
    }
    Ok(Some(match t {
        "void" => return Ok(None),
        "int" | "uint" | "size_t" | "ptrdiff_t" | "bool" | "ubyte" | "byte" | "ushort" | "short" | "dchar" => Core::I32,
        "long" | "ulong" => Core::I64,
        "float" => Core::F32,
        "double" => Core::F64,
        other => return Err(format!("unknown D type {other:?}")),
    }))
}

fn d_sig(ret: &str, params: &str) -> Result<Sig, String> {
    let mut ps = Vec::new();
    for part in params.split(',') {
        let part = part.trim();
        if part.is_empty() {
            continue;
        }
        // `type` or `type name`; pointer types may contain a space before the name only
        let ty = if part.contains('*') {
            "void*"
        } else {
            match part.rfind(|c: char| c.is_whitespace()) {
                Some(i) => &part[..i],
                None => part,
            }
        };
        match d_type(ty)? {
            Some(c) => ps.push(c),
            None => return Err(format!("void parameter {part:?}")),
        }
    }
    Ok(Sig { params: ps, results: d_type(ret)?.into_iter().collect() })
}

fn d_head(head: &str) -> Result<(String, String), String> {
    static PRAGMA: OnceLock<Regex> = OnceLock::new();
    let head = re(&PRAGMA, r#"pragma\(mangle,\s*"[^"]*"\)"#).replace_all(head, " ");
    let (ret, ident) = split_head(&head)?;
    let ret = ret.replace("extern(C)", " ");
    let toks: Vec<&str> = ret
        .split_whitespace()
        .filter(|w| !matches!(*w, "static" | "private" | "public" | "package" | "export" | "else"))
        .collect();
    if toks.len() != 1 {
        return Err(format!("unparsed D return type in {head:?}"));
    }
    Ok((toks[0].to_string(), ident))
}

/// `pragma(mangle, "...")` and `extern(C)` contain parentheses: blank them (same length)
/// before splitting the prototype.
fn d_proto_at(text: &str, pos: usize) -> Result<(String, String, usize), String> {
    static MASK: OnceLock<Regex> = OnceLock::new();
    let mask = re(&MASK, r#"pragma\(mangle,\s*"[^"]*"\)|extern\(C\)"#);
    let mut end = (pos + 4000).min(text.len());
    while !text.is_char_boundary(end) {
        end -= 1;
    }
    let seg = &text[pos..end];
    let masked = mask.replace_all(seg, |c: &regex::Captures| " ".repeat(c[0].len())).into_owned();
    let (head, params, e) = proto_at(&masked, 0)?;
    Ok((head.to_string(), params.to_string(), pos + e))
}

fn extract_d(files: &[(String, String)], d: &mut Decls) -> Result<(), String> {
    static IMP: OnceLock<Regex> = OnceLock::new();
    static EXP: OnceLock<Regex> = OnceLock::new();
    let imp = re(&IMP, r#"@wasmImport!\("([^"]*)",\s*"([^"]*)"\)"#);
    let exp = re(&EXP, r#"@wasmExport!\("([^"]*)"\)"#);
    for (file, text) in files {
        if !file.ends_with(".d") {
            continue;
        }
        let mut ni = 0;
        for m in imp.captures_iter(text) {
            ni += 1;
            let (head, params, end) = d_proto_at(text, m.get(0).unwrap().end())?;
            let tail = text[end..].trim_start();
            let semi = tail.find(';').ok_or("import without ';'")?;
            if tail[..semi].contains('{') {
                return Err(format!("{file}: import {:?} has a body", &m[2]));
            }
            let (ret, ident) = d_head(&head)?;
            d.imports.push(Import {
                module: m[1].to_string(),
                name: m[2].to_string(),
                sig: d_sig(&ret, &params).map_err(|e| format!("{file}: import {}: {e}", &m[2]))?,
                ident,
                file: file.clone(),
                referenced: false,
            });
        }
        let markers = count(text, "@wasmImport!(");
        if markers != ni {
            return Err(format!("{file}: {markers} `@wasmImport!(` markers but {ni} imports parsed"));
        }
        let mut ne = 0;
        for m in exp.captures_iter(text) {
            ne += 1;
            let (head, params, _end) = d_proto_at(text, m.get(0).unwrap().end())?;
            let (ret, ident) = d_head(&head)?;
            d.exports.push(Export {
                name: m[1].to_string(),
                sig: d_sig(&ret, &params).map_err(|e| format!("{file}: export {}: {e}", &m[1]))?,
                ident,
                file: file.clone(),
            });
        }
        let markers = count(text, "@wasmExport!(");
        if markers != ne {
            return Err(format!("{file}: {markers} `@wasmExport!(` markers but {ne} exports parsed"));
        }
    }
    Ok(())
}

// ---------------------------------------------------------------- driver

pub fn extract(b: Backend, files: &[(String, String)]) -> Result<Decls, String> {
    let mut d = Decls::default();
    match b {
        Backend::C | Backend::Cpp => extract_c_family(files, &mut d)?,
        Backend::Rust => extract_rust(files, &mut d)?,
        Backend::Go => extract_go(files, &mut d)?,
        Backend::MoonBit => extract_moonbit(files, &mut d)?,
        Backend::CSharp => extract_csharp(files, &mut d)?,
        Backend::D => extract_d(files, &mut d)?,
    }
    // "actually references": the local identifier must occur somewhere besides its declarations.
    let mut decl_count: BTreeMap<(String, String), usize> = BTreeMap::new();
    for i in &d.imports {
        *decl_count.entry((i.file.clone(), i.ident.clone())).or_insert(0) += 1;
    }
    let all: String = files
        .iter()
        .filter(|(f, _)| !f.ends_with(".o") && !f.ends_with(".wasm"))
        .map(|(_, t)| t.as_str())
        .collect::<Vec<_>>()
        .join("\n");
    let mut cache: BTreeMap<String, usize> = BTreeMap::new();
    for i in d.imports.iter_mut() {
        let total = *cache.entry(i.ident.clone()).or_insert_with(|| word_count(&all, &i.ident));
        // declarations of this identifier anywhere (same identifier may be declared in several files)
        let decls: usize = decl_count.iter().filter(|((_, id), _)| *id == i.ident).map(|(_, n)| *n).sum();
        i.referenced = total > decls;
    }
    Ok(d)
}
