pub mod case;
pub mod extract;
pub mod gen;
pub mod oracle;
pub mod worlds;
