//! Reference for C13, written from the component-model naming rules using only the *trusted*
//! wit-parser functions (`wasm_import_name`, `wasm_export_name`, `wasm_signature`,
//! `task_return_import`, `find_futures_and_streams`) and `wit-component`'s encoder.
//!
//! (1) expected-name tables → classify every extracted declaration;
//! (2) synthetic core module (wasm-encoder) with exactly the extracted declarations + the
//!     world's component-type section → `ComponentEncoder` with validation → decode and compare
//!     with the world.  (1) and (2) are cross-checked against each other: a declaration that (1)
//!     rejects must make (2) fail and vice versa, otherwise the *oracle* is reported as
//!     inconsistent (machinery), never as a verdict.

use crate::extract::{Core, Decls, Sig};
use anyhow::Result;
use std::collections::{BTreeMap, BTreeSet};
use wit_parser::abi::{AbiVariant, WasmSignature, WasmType};
use wit_parser::{
    Function, FunctionKind, FutureIntrinsic, LiftLowerAbi, Mangling, ManglingAndAbi, Resolve, ResourceIntrinsic,
    StreamIntrinsic, TypeDefKind, TypeId, TypeOwner, WasmExport, WasmExportKind, WasmImport, WorldId, WorldItem,
    WorldKey,
};

fn core(t: &WasmType) -> Core {
    match t {
        WasmType::I32 | WasmType::Pointer | WasmType::Length => Core::I32,
        WasmType::I64 | WasmType::PointerOrI64 => Core::I64,
        WasmType::F32 => Core::F32,
        WasmType::F64 => Core::F64,
    }
}

fn sig_of(s: &WasmSignature) -> Sig {
    Sig { params: s.params.iter().map(core).collect(), results: s.results.iter().map(core).collect() }
}

fn sig(params: &[Core], results: &[Core]) -> Sig {
    Sig { params: params.to_vec(), results: results.to_vec() }
}

use Core::*;

#[derive(Clone, Debug, PartialEq, Eq)]
pub enum ExportClass {
    /// index into `Expected::funcs`
    SyncLift(usize),
    AsyncLift(usize),
    StackfulLift(usize),
    Callback(usize),
    PostReturn(usize),
    Dtor(usize),
    Realloc,
    Initialize,
}

#[derive(Clone, Debug)]
pub struct ExpExport {
    pub sig: Sig,
    pub class: ExportClass,
}

#[derive(Clone, Debug)]
pub struct ExpImport {
    pub sig: Sig,
    /// short class label used in keys (`func`, `func-async`, `[resource-drop]`, `[future-read]` …)
    pub class: String,
    /// Some((exported?, func index)) when this is the lowering of a WIT function
    pub func: Option<(usize, bool)>,
}

#[derive(Clone, Debug)]
pub struct FuncInfo {
    /// `None` for world-level functions, else the world-key name of the interface
    pub iface: Option<String>,
    pub name: String,
    pub wit_async: bool,
    pub is_method: bool,
    pub import: bool,
    pub iface_id: Option<wit_parser::InterfaceId>,
}

#[derive(Clone, Debug)]
pub struct Expected {
    pub imports: BTreeMap<(String, String), ExpImport>,
    pub exports: BTreeMap<String, ExpExport>,
    /// exported functions, index space of `ExportClass`
    pub funcs: Vec<FuncInfo>,
    /// imported functions
    pub import_funcs: Vec<FuncInfo>,
    /// exported resources (dtor export name, resource name)
    pub dtors: Vec<(String, String)>,
    pub iface_names: BTreeSet<String>,
    pub fn_names: BTreeSet<String>,
    pub res_names: BTreeSet<String>,
    pub export_keys: BTreeSet<String>,
    pub import_keys: BTreeSet<String>,
}

const SYNC: ManglingAndAbi = ManglingAndAbi::Legacy(LiftLowerAbi::Sync);
const ACB: ManglingAndAbi = ManglingAndAbi::Legacy(LiftLowerAbi::AsyncCallback);
const ASF: ManglingAndAbi = ManglingAndAbi::Legacy(LiftLowerAbi::AsyncStackful);

fn is_wit_async(f: &Function) -> bool {
    matches!(
        f.kind,
        FunctionKind::AsyncFreestanding | FunctionKind::AsyncMethod(_) | FunctionKind::AsyncStatic(_)
    )
}

fn resources_of_interface(resolve: &Resolve, id: wit_parser::InterfaceId) -> Vec<(String, TypeId)> {
    resolve.interfaces[id]
        .types
        .iter()
        .filter(|(_, t)| matches!(resolve.types[**t].kind, TypeDefKind::Resource))
        .map(|(n, t)| (n.clone(), *t))
        .collect()
}

/// fixed canonical built-ins that are not tied to a WIT item (module `$root`)
fn root_intrinsic(name: &str) -> Option<Sig> {
    let strip = |n: &'_ str, p: &str| n.strip_prefix(p).map(|s| s.to_string());
    let canc = strip(name, "[cancellable]").unwrap_or_else(|| name.to_string());
    let alow = strip(name, "[async-lower]").unwrap_or_else(|| name.to_string());
    let ctx = |n: &str, p: &str| -> Option<Core> {
        let body = n.strip_prefix(p)?.strip_suffix(']')?;
        let (ty, slot) = match body.split_once('-') {
            Some(("i64", s)) => (I64, s),
            Some(("i32", s)) => (I32, s),
            _ => (I32, body),
        };
        slot.parse::<u32>().ok()?;
        Some(ty)
    };
    let wsw = |n: &str, p: &str| -> Option<Core> {
        let tail = n.strip_prefix(p)?.strip_suffix(']')?;
        match tail {
            "" | "-i32" => Some(I32),
            "-i64" => Some(I64),
            _ => None,
        }
    };
    Some(match name {
        "[backpressure-inc]" | "[backpressure-dec]" => sig(&[], &[]),
        "[waitable-set-new]" | "[thread-index]" => sig(&[], &[I32]),
        "[waitable-set-drop]" | "[subtask-drop]" | "[error-context-drop]" | "[thread-resume-later]" => {
            sig(&[I32], &[])
        }
        "[waitable-join]" => sig(&[I32, I32], &[]),
        "[error-context-new-utf8]" | "[error-context-new-utf16]" | "[error-context-new-latin1+utf16]" => {
            sig(&[I32, I32], &[I32])
        }
        "[error-context-debug-message-utf8]"
        | "[error-context-debug-message-utf16]"
        | "[error-context-debug-message-latin1+utf16]" => sig(&[I32, I32], &[]),
        "[thread-new-indirect-v0]" => sig(&[I32, I32], &[I32]),
        _ => {
            if alow == "[subtask-cancel]" {
                return Some(sig(&[I32], &[I32]));
            }
            if let Some(t) = wsw(&canc, "[waitable-set-wait").or_else(|| wsw(&canc, "[waitable-set-poll")) {
                return Some(sig(&[I32, t], &[I32]));
            }
            if let Some(t) = ctx(name, "[context-get-") {
                return Some(sig(&[], &[t]));
            }
            if let Some(t) = ctx(name, "[context-set-") {
                return Some(sig(&[t], &[]));
            }
            match canc.as_str() {
                "[thread-suspend]" | "[thread-yield]" => return Some(sig(&[], &[I32])),
                "[thread-suspend-then-resume]"
                | "[thread-yield-then-resume]"
                | "[thread-suspend-then-promote]"
                | "[thread-yield-then-promote]" => return Some(sig(&[I32], &[I32])),
                _ => {}
            }
            return None;
        }
    })
}

/// `[future-…-unit]` / `[stream-…-unit]` intrinsics (payload-less), valid in any module the
/// world knows (wit-component `prefixed_payload`, case "unit").
fn unit_payload_intrinsic(name: &str) -> Option<(Sig, String)> {
    let n = name.strip_prefix("[async-lower]").unwrap_or(name);
    let asy = n.len() != name.len();
    for (kind, rw) in [("future", sig(&[I32, I32], &[I32])), ("stream", sig(&[I32, I32, I32], &[I32]))] {
        let table: [(&str, Sig, bool); 7] = [
            ("new", sig(&[], &[I64]), false),
            ("read", rw.clone(), true),
            ("write", rw.clone(), true),
            ("cancel-read", sig(&[I32], &[I32]), true),
            ("cancel-write", sig(&[I32], &[I32]), true),
            ("drop-readable", sig(&[I32], &[]), false),
            ("drop-writable", sig(&[I32], &[]), false),
        ];
        for (op, s, may_async) in table {
            // wit-component (`prefixed_payload`, case "unit") ignores whatever follows the `]`;
            // wit-parser's `wasm_import_name(.., ty: None, ..)` appends the function name
            if n.starts_with(&format!("[{kind}-{op}-unit]")) && (!asy || may_async) {
                return Some((s, format!("[{kind}-{op}-unit]")));
            }
        }
    }
    None
}

pub fn expected(resolve: &Resolve, world: WorldId) -> Expected {
    let w = &resolve.worlds[world];
    let mut e = Expected {
        imports: BTreeMap::new(),
        exports: BTreeMap::new(),
        funcs: vec![],
        import_funcs: vec![],
        dtors: vec![],
        iface_names: BTreeSet::new(),
        fn_names: BTreeSet::new(),
        res_names: BTreeSet::new(),
        export_keys: BTreeSet::new(),
        import_keys: BTreeSet::new(),
    };

    let add_payload_intrinsics =
        |e: &mut Expected, resolve: &Resolve, key: Option<&WorldKey>, f: &Function, exported: bool| {
            for ty in f.find_futures_and_streams(resolve) {
                let is_future = matches!(resolve.types[ty].kind, TypeDefKind::Future(_));
                for asy in [false, true] {
                    if is_future {
                        use FutureIntrinsic::*;
                        for (i, s, may, label) in [
                            (New, sig(&[], &[I64]), false, "new"),
                            (Read, sig(&[I32, I32], &[I32]), true, "read"),
                            (Write, sig(&[I32, I32], &[I32]), true, "write"),
                            (CancelRead, sig(&[I32], &[I32]), true, "cancel-read"),
                            (CancelWrite, sig(&[I32], &[I32]), true, "cancel-write"),
                            (DropReadable, sig(&[I32], &[]), false, "drop-readable"),
                            (DropWritable, sig(&[I32], &[]), false, "drop-writable"),
                        ] {
                            if asy && !may {
                                continue;
                            }
                            let (m, n) = resolve.wasm_import_name(
                                SYNC,
                                WasmImport::FutureIntrinsic {
                                    interface: key,
                                    func: f,
                                    ty: Some(ty),
                                    intrinsic: i,
                                    exported,
                                    async_: asy,
                                },
                            );
                            e.imports.insert(
                                (m, n),
                                ExpImport { sig: s, class: format!("[future-{label}]"), func: None },
                            );
                        }
                    } else {
                        use StreamIntrinsic::*;
                        for (i, s, may, label) in [
                            (New, sig(&[], &[I64]), false, "new"),
                            (Read, sig(&[I32, I32, I32], &[I32]), true, "read"),
                            (Write, sig(&[I32, I32, I32], &[I32]), true, "write"),
                            (CancelRead, sig(&[I32], &[I32]), true, "cancel-read"),
                            (CancelWrite, sig(&[I32], &[I32]), true, "cancel-write"),
                            (DropReadable, sig(&[I32], &[]), false, "drop-readable"),
                            (DropWritable, sig(&[I32], &[]), false, "drop-writable"),
                        ] {
                            if asy && !may {
                                continue;
                            }
                            let (m, n) = resolve.wasm_import_name(
                                SYNC,
                                WasmImport::StreamIntrinsic {
                                    interface: key,
                                    func: f,
                                    ty: Some(ty),
                                    intrinsic: i,
                                    exported,
                                    async_: asy,
                                },
                            );
                            e.imports.insert(
                                (m, n),
                                ExpImport { sig: s, class: format!("[stream-{label}]"), func: None },
                            );
                        }
                    }
                }
            }
        };

    // ---- imports of the world
    for (key, item) in w.imports.iter() {
        let mut funcs: Vec<(Option<&WorldKey>, &Function)> = vec![];
        match item {
            WorldItem::Function(f) => funcs.push((None, f)),
            WorldItem::Interface { id, .. } => {
                let kn = resolve.name_world_key(key);
                e.iface_names.insert(kn.clone());
                e.import_keys.insert(kn);
                for (_, f) in resolve.interfaces[*id].functions.iter() {
                    funcs.push((Some(key), f));
                }
                for (name, ty) in resources_of_interface(resolve, *id) {
                    e.res_names.insert(name);
                    let mn = resolve.wasm_import_name(
                        SYNC,
                        WasmImport::ResourceIntrinsic {
                            interface: Some(key),
                            resource: ty,
                            intrinsic: ResourceIntrinsic::ImportedDrop,
                        },
                    );
                    e.imports
                        .insert(mn, ExpImport { sig: sig(&[I32], &[]), class: "[resource-drop]".into(), func: None });
                }
            }
            WorldItem::Type { id, .. } => {
                if matches!(resolve.types[*id].kind, TypeDefKind::Resource) {
                    if let Some(name) = &resolve.types[*id].name {
                        e.res_names.insert(name.clone());
                    }
                    let mn = resolve.wasm_import_name(
                        SYNC,
                        WasmImport::ResourceIntrinsic {
                            interface: None,
                            resource: *id,
                            intrinsic: ResourceIntrinsic::ImportedDrop,
                        },
                    );
                    e.imports
                        .insert(mn, ExpImport { sig: sig(&[I32], &[]), class: "[resource-drop]".into(), func: None });
                }
            }
        }
        if let WorldItem::Function(f) = item {
            e.import_keys.insert(f.name.clone());
        }
        for (k, f) in funcs {
            let idx = e.import_funcs.len();
            e.import_funcs.push(FuncInfo {
                iface: k.map(|k| resolve.name_world_key(k)),
                name: f.name.clone(),
                wit_async: is_wit_async(f),
                is_method: !matches!(f.kind, FunctionKind::Freestanding | FunctionKind::AsyncFreestanding),
                import: true,
                iface_id: k.and_then(|k| match &w.imports[k] {
                    WorldItem::Interface { id, .. } => Some(*id),
                    _ => None,
                }),
            });
            e.fn_names.insert(f.name.clone());
            for (m, asy) in [(SYNC, false), (ACB, true)] {
                let mn = resolve.wasm_import_name(m, WasmImport::Func { interface: k, func: f });
                let s = sig_of(&resolve.wasm_signature(m.import_variant(), f));
                e.imports.insert(
                    mn,
                    ExpImport {
                        sig: s,
                        class: if asy { "func-async-lower".into() } else { "func".into() },
                        func: Some((idx, asy)),
                    },
                );
            }
            add_payload_intrinsics(&mut e, resolve, k, f, false);
        }
    }

    // ---- exports of the world
    for (key, item) in w.exports.iter() {
        let mut funcs: Vec<(Option<&WorldKey>, &Function)> = vec![];
        let module;
        match item {
            WorldItem::Function(f) => {
                funcs.push((None, f));
                module = "[export]$root".to_string();
                e.export_keys.insert(f.name.clone());
            }
            WorldItem::Interface { id, .. } => {
                let kn = resolve.name_world_key(key);
                e.iface_names.insert(kn.clone());
                e.export_keys.insert(kn.clone());
                module = format!("[export]{kn}");
                for (_, f) in resolve.interfaces[*id].functions.iter() {
                    funcs.push((Some(key), f));
                }
                for (name, ty) in resources_of_interface(resolve, *id) {
                    e.res_names.insert(name.clone());
                    for (i, s, label) in [
                        (ResourceIntrinsic::ExportedDrop, sig(&[I32], &[]), "[resource-drop]"),
                        (ResourceIntrinsic::ExportedNew, sig(&[I32], &[I32]), "[resource-new]"),
                        (ResourceIntrinsic::ExportedRep, sig(&[I32], &[I32]), "[resource-rep]"),
                    ] {
                        let mn = resolve.wasm_import_name(
                            SYNC,
                            WasmImport::ResourceIntrinsic { interface: Some(key), resource: ty, intrinsic: i },
                        );
                        e.imports.insert(mn, ExpImport { sig: s, class: label.into(), func: None });
                    }
                    let dn = resolve.wasm_export_name(SYNC, WasmExport::ResourceDtor { interface: key, resource: ty });
                    let di = e.dtors.len();
                    e.dtors.push((dn.clone(), name));
                    e.exports.insert(dn, ExpExport { sig: sig(&[I32], &[]), class: ExportClass::Dtor(di) });
                }
            }
            WorldItem::Type { .. } => continue,
        }
        e.imports.insert(
            (module.clone(), "[task-cancel]".into()),
            ExpImport { sig: sig(&[], &[]), class: "[task-cancel]".into(), func: None },
        );
        for (k, f) in funcs {
            let idx = e.funcs.len();
            e.funcs.push(FuncInfo {
                iface: k.map(|k| resolve.name_world_key(k)),
                name: f.name.clone(),
                wit_async: is_wit_async(f),
                is_method: !matches!(f.kind, FunctionKind::Freestanding | FunctionKind::AsyncFreestanding),
                import: false,
                iface_id: k.and_then(|k| match &w.exports[k] {
                    WorldItem::Interface { id, .. } => Some(*id),
                    _ => None,
                }),
            });
            e.fn_names.insert(f.name.clone());
            let ex = |m, kind| resolve.wasm_export_name(m, WasmExport::Func { interface: k, func: f, kind });
            let sync_sig = resolve.wasm_signature(AbiVariant::GuestExport, f);
            e.exports.insert(
                ex(SYNC, WasmExportKind::Normal),
                ExpExport { sig: sig_of(&sync_sig), class: ExportClass::SyncLift(idx) },
            );
            e.exports.insert(
                ex(SYNC, WasmExportKind::PostReturn),
                ExpExport {
                    sig: Sig { params: sync_sig.results.iter().map(core).collect(), results: vec![] },
                    class: ExportClass::PostReturn(idx),
                },
            );
            e.exports.insert(
                ex(ACB, WasmExportKind::Normal),
                ExpExport {
                    sig: sig_of(&resolve.wasm_signature(AbiVariant::GuestExportAsync, f)),
                    class: ExportClass::AsyncLift(idx),
                },
            );
            e.exports.insert(
                ex(ACB, WasmExportKind::Callback),
                ExpExport { sig: sig(&[I32, I32, I32], &[I32]), class: ExportClass::Callback(idx) },
            );
            e.exports.insert(
                ex(ASF, WasmExportKind::Normal),
                ExpExport {
                    sig: sig_of(&resolve.wasm_signature(AbiVariant::GuestExportAsyncStackful, f)),
                    class: ExportClass::StackfulLift(idx),
                },
            );
            let (m, n, s) = f.task_return_import(resolve, k, Mangling::Legacy);
            e.imports.insert((m, n), ExpImport { sig: sig_of(&s), class: "[task-return]".into(), func: None });
            add_payload_intrinsics(&mut e, resolve, k, f, true);
        }
    }
    e.imports.insert(
        ("[export]$root".into(), "[task-cancel]".into()),
        ExpImport { sig: sig(&[], &[]), class: "[task-cancel]".into(), func: None },
    );
    e.exports.insert(
        resolve.wasm_export_name(SYNC, WasmExport::Realloc),
        ExpExport { sig: sig(&[I32, I32, I32, I32], &[I32]), class: ExportClass::Realloc },
    );
    e.exports.insert(
        resolve.wasm_export_name(SYNC, WasmExport::Initialize),
        ExpExport { sig: sig(&[], &[]), class: ExportClass::Initialize },
    );
    let _ = TypeOwner::None;
    e
}

impl Expected {
    /// Look an extracted import up: world item, fixed `$root` built-in or unit-payload intrinsic.
    pub fn lookup_import(&self, module: &str, name: &str) -> Option<ExpImport> {
        if let Some(x) = self.imports.get(&(module.to_string(), name.to_string())) {
            return Some(x.clone());
        }
        if module == "$root" {
            if let Some(s) = root_intrinsic(name) {
                let class = name.to_string();
                return Some(ExpImport { sig: s, class, func: None });
            }
        }
        let known_module = module == "$root"
            || module == "[export]$root"
            || self.import_keys.contains(module)
            || module.strip_prefix("[export]").map_or(false, |m| self.export_keys.contains(m));
        if known_module {
            if let Some((s, class)) = unit_payload_intrinsic(name) {
                return Some(ExpImport { sig: s, class, func: None });
            }
        }
        None
    }

    /// For an unknown `[future-<op>-<idx>]<func>` / `[stream-…]` import: say *how* it is wrong.
    pub fn diagnose_payload_intrinsic(&self, module: &str, name: &str) -> Option<String> {
        let n = name.strip_prefix("[async-lower]").unwrap_or(name);
        if !(n.starts_with("[future-") || n.starts_with("[stream-")) {
            return None;
        }
        let close = n.find(']')?;
        let inside = &n[1..close];
        let rest = &n[close + 1..];
        let (op, idx) = inside.rsplit_once('-')?;
        const OPS: [&str; 7] = ["new", "read", "write", "cancel-read", "cancel-write", "drop-readable", "drop-writable"];
        let opname = op.split_once('-').map(|x| x.1).unwrap_or("");
        if !OPS.contains(&opname) {
            return Some(format!("unknown-operation:{}", op.split_once('-').map(|x| x.1).unwrap_or(op)));
        }
        if idx.parse::<u32>().is_err() {
            return Some("bad-index".into());
        }
        let same_but_index = self.imports.keys().any(|(m, k)| {
            let k = k.strip_prefix("[async-lower]").unwrap_or(k);
            m == module
                && k.find(']').map_or(false, |c| {
                    k[c + 1..] == *rest && k[1..c].rsplit_once('-').map_or(false, |(o, i)| o == op && i != idx)
                })
        });
        if same_but_index {
            return Some("wrong-type-index".into());
        }
        if rest.is_empty() {
            return Some("empty-function-name".into());
        }
        if self.fn_names.contains(rest) {
            // the function exists, but has no future/stream at all or lives in another module
            return Some("function-without-such-payload-or-wrong-module".into());
        }
        if self
            .fn_names
            .iter()
            .any(|f| f.ends_with(&format!(".{rest}")) || f.starts_with(&format!("[{rest}]")))
        {
            return Some("function-name-without-its-[kind]resource.-prefix".into());
        }
        Some("unknown-function".into())
    }

    /// Replace world-specific identifiers so that one defect gives one key.
    pub fn normalise(&self, name: &str) -> String {
        let mut out = name.to_string();
        let mut table: Vec<(String, String)> = vec![];
        for n in &self.iface_names {
            table.push((n.clone(), "<iface>".into()));
        }
        for n in &self.fn_names {
            table.push((n.clone(), "<fn>".into()));
            if n.contains('-') {
                table.push((n.replace('-', "_"), "<fn:snake>".into()));
            }
        }
        for n in &self.res_names {
            table.push((n.clone(), "<res>".into()));
            if n.contains('-') {
                table.push((n.replace('-', "_"), "<res:snake>".into()));
            }
        }
        table.sort_by(|a, b| b.0.len().cmp(&a.0.len()).then(a.0.cmp(&b.0)));
        let is_word = |c: char| c.is_alphanumeric() || c == '-' || c == '_';
        for (from, to) in table {
            let mut res = String::new();
            let mut rest = out.as_str();
            let mut consumed = String::new();
            while let Some(i) = rest.find(&from) {
                let before = consumed.clone() + &rest[..i];
                let prev = before.chars().last();
                let next = rest[i + from.len()..].chars().next();
                // `cabi_post_` is a prefix, not part of an identifier
                let prev_ok = prev.map_or(true, |c| !is_word(c) || c == '>')
                    || before.ends_with("cabi_post_");
                let next_ok = next.map_or(true, |c| !is_word(c) || c == '<');
                if prev_ok && next_ok {
                    res.push_str(&rest[..i]);
                    res.push_str(&to);
                } else {
                    res.push_str(&rest[..i + from.len()]);
                }
                consumed = before + &from;
                rest = &rest[i + from.len()..];
            }
            res.push_str(rest);
            out = res;
        }
        let out = out.replace("<iface>#<fn", "<fn");
        // indices of futures/streams
        let mut o2 = String::new();
        let cs: Vec<char> = out.chars().collect();
        let mut i = 0;
        while i < cs.len() {
            if cs[i] == '-' && i + 1 < cs.len() && cs[i + 1].is_ascii_digit() {
                let mut j = i + 1;
                while j < cs.len() && cs[j].is_ascii_digit() {
                    j += 1;
                }
                if j < cs.len() && cs[j] == ']' {
                    o2.push_str("-N");
                    i = j;
                    continue;
                }
            }
            o2.push(cs[i]);
            i += 1;
        }
        o2
    }
}

#[derive(Clone, Debug)]
pub struct Violation {
    /// `<kind>:<normalised pattern>` (the backend prefix is added by the caller)
    pub kind: String,
    pub pattern: String,
    pub what: String,
    /// does the component encoder notice this (reject the module)?
    pub hard: bool,
    /// the offending import, for `import-name` / `import-module`
    pub import: Option<((String, String), Sig)>,
}

#[derive(Clone, Debug, Default)]
pub struct Verdict {
    pub violations: Vec<Violation>,
    pub imports_checked: usize,
    pub imports_unreferenced: usize,
    pub exports_checked: usize,
    /// per exported function: which lift form was generated (`sync` / `async` / `stackful`)
    pub export_abi: BTreeMap<usize, String>,
    /// per imported function: set of lowerings referenced (`sync` / `async`)
    pub import_abi: BTreeMap<usize, BTreeSet<String>>,
    pub encoder: String,
    pub oracle_inconsistent: Option<String>,
    /// import names the reference did not know but the component encoder accepts
    pub reference_overruled: Vec<String>,
    pub component_bytes: usize,
}

fn val(c: Core) -> wasm_encoder::ValType {
    match c {
        I32 => wasm_encoder::ValType::I32,
        I64 => wasm_encoder::ValType::I64,
        F32 => wasm_encoder::ValType::F32,
        F64 => wasm_encoder::ValType::F64,
    }
}

/// synthetic core module: exactly these imports / exports, dummy bodies, a memory.
pub fn synth_module(imports: &[((String, String), Sig)], exports: &[(String, Sig)]) -> Vec<u8> {
    use wasm_encoder::*;
    let mut types = TypeSection::new();
    let mut tmap: BTreeMap<Sig, u32> = BTreeMap::new();
    let mut ty = |s: &Sig, types: &mut TypeSection| -> u32 {
        if let Some(i) = tmap.get(s) {
            return *i;
        }
        let i = tmap.len() as u32;
        types.ty().function(s.params.iter().map(|c| val(*c)), s.results.iter().map(|c| val(*c)));
        tmap.insert(s.clone(), i);
        i
    };
    let mut isec = ImportSection::new();
    for ((m, n), s) in imports {
        let t = ty(s, &mut types);
        isec.import(m, n, EntityType::Function(t));
    }
    let mut fsec = FunctionSection::new();
    let mut esec = ExportSection::new();
    let mut csec = CodeSection::new();
    let nimp = imports.len() as u32;
    for (i, (n, s)) in exports.iter().enumerate() {
        let t = ty(s, &mut types);
        fsec.function(t);
        esec.export(n, ExportKind::Func, nimp + i as u32);
        let mut f = wasm_encoder::Function::new([]);
        f.instruction(&Instruction::Unreachable);
        f.instruction(&Instruction::End);
        csec.function(&f);
    }
    let mut msec = MemorySection::new();
    msec.memory(MemoryType { minimum: 1, maximum: None, memory64: false, shared: false, page_size_log2: None });
    esec.export("memory", ExportKind::Memory, 0);
    let mut module = Module::new();
    module.section(&types);
    module.section(&isec);
    module.section(&fsec);
    module.section(&msec);
    module.section(&esec);
    module.section(&csec);
    module.finish()
}

pub struct Encoded {
    pub bytes: Vec<u8>,
    pub imports: BTreeSet<String>,
    pub exports: BTreeSet<String>,
}

pub fn encode(resolve: &Resolve, world: WorldId, module: Vec<u8>) -> Result<Encoded> {
    let mut module = module;
    wit_component::embed_component_metadata(&mut module, resolve, world, wit_component::StringEncoding::UTF8)?;
    let bytes = wit_component::ComponentEncoder::default().module(&module)?.validate(true).encode()?;
    let decoded = wit_component::decode(&bytes)?;
    let (r2, w2) = match &decoded {
        wit_component::DecodedWasm::Component(r, w) => (r, *w),
        _ => anyhow::bail!("encoder output is not a component"),
    };
    let w = &r2.worlds[w2];
    let names = |items: &wit_parser::IndexMap<WorldKey, WorldItem>| -> BTreeSet<String> {
        items
            .iter()
            .filter(|(_, i)| !matches!(i, WorldItem::Type { .. }))
            .map(|(k, _)| r2.name_world_key(k))
            .collect()
    };
    Ok(Encoded { imports: names(&w.imports), exports: names(&w.exports), bytes })
}

/// Judge one generation.
pub fn judge(resolve: &Resolve, world: WorldId, d: &Decls) -> Verdict {
    let exp = expected(resolve, world);
    let mut v = Verdict::default();
    let push = |v: &mut Verdict, kind: &str, pattern: String, what: String, hard: bool| {
        v.violations.push(Violation { kind: kind.into(), pattern, what, hard, import: None });
    };

    // ---- imports
    let mut good_imports: BTreeMap<(String, String), Sig> = BTreeMap::new();
    let mut all_imports: BTreeMap<(String, String), Sig> = BTreeMap::new();
    for i in &d.imports {
        if !i.referenced {
            v.imports_unreferenced += 1;
            continue;
        }
        v.imports_checked += 1;
        let key = (i.module.clone(), i.name.clone());
        if let Some(prev) = all_imports.get(&key) {
            if *prev != i.sig {
                push(
                    &mut v,
                    "import-sig-conflict",
                    exp.normalise(&i.name),
                    format!(
                        "import `{}` `{}` is declared with two different core signatures {} and {}",
                        i.module,
                        i.name,
                        prev.show(),
                        i.sig.show()
                    ),
                    true,
                );
            }
            continue;
        }
        all_imports.insert(key.clone(), i.sig.clone());
        match exp.lookup_import(&i.module, &i.name) {
            Some(x) => {
                if let Some((idx, asy)) = x.func {
                    v.import_abi.entry(idx).or_default().insert(if asy { "async".into() } else { "sync".into() });
                }
                if x.sig != i.sig {
                    push(
                        &mut v,
                        "import-sig",
                        x.class.clone(),
                        format!(
                            "import `{}` `{}` ({}, {}) declared as {} but the canonical ABI gives {}",
                            i.module, i.name, i.file, i.ident, i.sig.show(), x.sig.show()
                        ),
                        x.class != "[task-return]",
                    );
                } else {
                    good_imports.insert(key, i.sig.clone());
                }
            }
            None => {
                // same name under another module the world knows?
                let elsewhere: Vec<&(String, String)> =
                    exp.imports.keys().filter(|(_, n)| *n == i.name).collect();
                let (kind, pat) = if let Some(diag) = exp.diagnose_payload_intrinsic(&i.module, &i.name) {
                    ("import-name", format!("future/stream-intrinsic:{diag}"))
                } else if !elsewhere.is_empty() || (i.module != "$root" && root_intrinsic(&i.name).is_some()) {
                    (
                        "import-module",
                        format!("{}@{}", exp.normalise(&i.name), exp.normalise(&i.module)),
                    )
                } else {
                    ("import-name", format!("{}@{}", exp.normalise(&i.name), exp.normalise(&i.module)))
                };
                push(
                    &mut v,
                    kind,
                    pat,
                    format!(
                        "import `{}` `{}` ({}, {}) is not a name the component model assigns to an item of this world{}",
                        i.module,
                        i.name,
                        i.file,
                        i.ident,
                        if elsewhere.is_empty() {
                            String::new()
                        } else {
                            format!(" (that name exists in module `{}`)", elsewhere[0].0)
                        }
                    ),
                    true,
                );
                v.violations.last_mut().unwrap().import = Some((key.clone(), i.sig.clone()));
            }
        }
    }

    // ---- exports
    let mut seen: BTreeMap<String, Sig> = BTreeMap::new();
    let mut enc_exports: Vec<(String, Sig)> = vec![];
    let mut fixed_exports: Vec<(String, Sig)> = vec![];
    let mut forms: BTreeMap<usize, BTreeSet<&'static str>> = BTreeMap::new();
    let mut callbacks: BTreeSet<usize> = BTreeSet::new();
    let mut posts: BTreeSet<usize> = BTreeSet::new();
    let mut dtors_seen: BTreeSet<usize> = BTreeSet::new();
    // unknown export names; a missing export whose name differs from one of these only by
    // `-` vs `_` is the same defect and is reported once (as `export-name`)
    let mut unknown_exports: Vec<String> = vec![];
    let near_miss = |unknown: &Vec<String>, expected: &str| -> bool {
        let canon = |s: &str| s.replace('_', "-");
        unknown.iter().any(|u| canon(u) == canon(expected))
    };
    for x in &d.exports {
        v.exports_checked += 1;
        if seen.contains_key(&x.name) {
            push(
                &mut v,
                "export-duplicate",
                exp.normalise(&x.name),
                format!("export `{}` is generated twice ({})", x.name, x.file),
                true,
            );
            continue;
        }
        seen.insert(x.name.clone(), x.sig.clone());
        enc_exports.push((x.name.clone(), x.sig.clone()));
        match exp.exports.get(&x.name) {
            None => {
                if matches!(
                    x.name.as_str(),
                    "canonical_abi_realloc" | "cabi_import_realloc" | "cabi_export_realloc"
                ) {
                    fixed_exports.push((x.name.clone(), x.sig.clone()));
                    continue;
                }
                unknown_exports.push(x.name.clone());
                push(
                    &mut v,
                    "export-name",
                    exp.normalise(&x.name),
                    format!(
                        "export `{}` ({}, {}) is not a name the component model assigns to an item of this world: \
                         the component encoder silently ignores it",
                        x.name, x.file, x.ident
                    ),
                    false,
                );
            }
            Some(e) => {
                match &e.class {
                    ExportClass::SyncLift(i) => {
                        forms.entry(*i).or_default().insert("sync");
                    }
                    ExportClass::AsyncLift(i) => {
                        forms.entry(*i).or_default().insert("async");
                    }
                    ExportClass::StackfulLift(i) => {
                        forms.entry(*i).or_default().insert("stackful");
                    }
                    ExportClass::Callback(i) => {
                        callbacks.insert(*i);
                    }
                    ExportClass::PostReturn(i) => {
                        posts.insert(*i);
                    }
                    ExportClass::Dtor(i) => {
                        dtors_seen.insert(*i);
                    }
                    _ => {}
                }
                if e.sig != x.sig {
                    let class = match &e.class {
                        ExportClass::SyncLift(_) => "func",
                        ExportClass::AsyncLift(_) => "[async-lift]",
                        ExportClass::StackfulLift(_) => "[async-lift-stackful]",
                        ExportClass::Callback(_) => "[callback]",
                        ExportClass::PostReturn(_) => "cabi_post",
                        ExportClass::Dtor(_) => "[dtor]",
                        ExportClass::Realloc => "cabi_realloc",
                        ExportClass::Initialize => "_initialize",
                    };
                    push(
                        &mut v,
                        "export-sig",
                        class.into(),
                        format!(
                            "export `{}` ({}, {}) has core signature {} but the canonical ABI gives {}",
                            x.name, x.file, x.ident, x.sig.show(), e.sig.show()
                        ),
                        true,
                    );
                    fixed_exports.push((x.name.clone(), e.sig.clone()));
                } else {
                    fixed_exports.push((x.name.clone(), x.sig.clone()));
                }
            }
        }
    }
    for (idx, f) in exp.funcs.iter().enumerate() {
        let full = match &f.iface {
            Some(i) => format!("{i}#{}", f.name),
            None => f.name.clone(),
        };
        let fs = forms.get(&idx).cloned().unwrap_or_default();
        if fs.is_empty() {
            push(
                &mut v,
                "export-missing",
                exp.normalise(&full),
                format!("exported function `{full}` has no core export in any lift form"),
                true,
            );
            // make the repaired module complete
            let n = exp.exports.iter().find(|(_, e)| e.class == ExportClass::SyncLift(idx)).unwrap();
            fixed_exports.push((n.0.clone(), n.1.sig.clone()));
            continue;
        }
        if fs.len() > 1 {
            push(
                &mut v,
                "export-two-forms",
                exp.normalise(&full),
                format!("exported function `{full}` is exported in several lift forms {fs:?}"),
                false,
            );
        }
        let form = *fs.iter().next().unwrap();
        v.export_abi.insert(idx, form.to_string());
        if fs.contains("async") && !callbacks.contains(&idx) {
            push(
                &mut v,
                "export-missing",
                format!("[callback][async-lift]{}", exp.normalise(&full)),
                format!("`[async-lift]{full}` is exported without its `[callback]` export"),
                true,
            );
            let n = exp.exports.iter().find(|(_, e)| e.class == ExportClass::Callback(idx)).unwrap();
            fixed_exports.push((n.0.clone(), n.1.sig.clone()));
        }
        if callbacks.contains(&idx) && !fs.contains("async") {
            push(
                &mut v,
                "export-orphan",
                format!("[callback][async-lift]{}", exp.normalise(&full)),
                format!("`[callback][async-lift]{full}` is exported but `[async-lift]{full}` is not"),
                false,
            );
        }
        if posts.contains(&idx) && !fs.contains("sync") {
            push(
                &mut v,
                "export-orphan",
                format!("cabi_post_{}", exp.normalise(&full)),
                format!("`cabi_post_{full}` is exported but the function is not lifted synchronously ({fs:?})"),
                true,
            );
            let pn = exp.exports.iter().find(|(_, e)| e.class == ExportClass::PostReturn(idx)).unwrap().0.clone();
            fixed_exports.retain(|(n, _)| *n != pn);
        }
    }
    for (idx, (dn, rn)) in exp.dtors.iter().enumerate() {
        if !dtors_seen.contains(&idx) && !near_miss(&unknown_exports, dn) {
            push(
                &mut v,
                "export-missing",
                exp.normalise(dn),
                format!("exported resource `{rn}` has no destructor export `{dn}`"),
                false,
            );
        }
    }
    if let Some(m) = &d.memory_export {
        if m != "memory" {
            push(&mut v, "export-name", format!("memory:{m}"), format!("linear memory exported as `{m}`"), true);
        }
    }

    // ---- synthetic module → ComponentEncoder
    let realloc = "cabi_realloc".to_string();
    let with_realloc = |mut ex: Vec<(String, Sig)>| {
        if !ex.iter().any(|(n, _)| *n == realloc) {
            ex.push((realloc.clone(), sig(&[I32, I32, I32, I32], &[I32])));
        }
        ex
    };
    // Functions bound with the async ABI although the WIT does not declare them `async`
    // (`--async` directives): the validator of the pinned wit-component rejects the `async`
    // canonical option on a non-async function type. That is reported once (per backend) and the
    // rest of the judgement continues against a copy of the world in which exactly those
    // functions are `async`, so that every other declaration is still checked.
    let mut forced: Vec<&FuncInfo> = vec![];
    for (idx, set) in &v.import_abi {
        if set.contains("async") && !exp.import_funcs[*idx].wit_async {
            forced.push(&exp.import_funcs[*idx]);
        }
    }
    for (idx, form) in &v.export_abi {
        if form != "sync" && !exp.funcs[*idx].wit_async {
            forced.push(&exp.funcs[*idx]);
        }
    }
    let mut patched: Option<Resolve> = None;
    // a constructor has no `async` form in WIT: the world cannot be patched for it, the encoder's
    // complaint is then the very same defect and is not reported a second time
    let mut async_unpatchable = false;
    if !forced.is_empty() {
        let mut r = resolve.clone();
        let mut unpatchable = vec![];
        for f in &forced {
            let func: Option<&mut Function> = match f.iface_id {
                Some(id) => r.interfaces[id].functions.get_mut(&f.name),
                None => {
                    let items = if f.import { &mut r.worlds[world].imports } else { &mut r.worlds[world].exports };
                    match items.get_mut(&WorldKey::Name(f.name.clone())) {
                        Some(WorldItem::Function(func)) => Some(func),
                        _ => None,
                    }
                }
            };
            match func {
                Some(func) => {
                    func.kind = match func.kind.clone() {
                        FunctionKind::Freestanding => FunctionKind::AsyncFreestanding,
                        FunctionKind::Method(t) => FunctionKind::AsyncMethod(t),
                        FunctionKind::Static(t) => FunctionKind::AsyncStatic(t),
                        other => {
                            if matches!(other, FunctionKind::Constructor(_)) {
                                unpatchable.push(f.name.clone());
                            }
                            other
                        }
                    }
                }
                None => unpatchable.push(f.name.clone()),
            }
        }
        let first = forced[0];
        let n = forced.len();
        // confirm with the trusted encoder that the unpatched world is really rejected for this reason
        let imps: Vec<((String, String), Sig)> = all_imports.iter().map(|(k, s)| (k.clone(), s.clone())).collect();
        let ex = with_realloc(enc_exports.clone());
        let confirmed = match vcommon::catch(|| encode(resolve, world, synth_module(&imps, &ex))) {
            Ok(Ok(_)) => false,
            _ => true,
        };
        if confirmed {
            push(
                &mut v,
                "async-abi",
                "function-not-declared-async".into(),
                format!(
                    "{n} function(s) not declared `async` in the WIT are bound with the async ABI (first: {} `{}{}`); \
                     the component-model validator of wit-component rejects the `async` canonical option on a \
                     non-async function type, so the module cannot be componentized",
                    if first.import { "import" } else { "export" },
                    first.iface.as_ref().map(|i| format!("{i}#")).unwrap_or_default(),
                    first.name
                ),
                false,
            );
        } else {
            v.reference_overruled.push("async-abi:function-not-declared-async".into());
        }
        async_unpatchable = !unpatchable.is_empty();
        patched = Some(r);
    }
    let enc_resolve: &Resolve = patched.as_ref().unwrap_or(resolve);
    let enc = |imports: &BTreeMap<(String, String), Sig>, exports: &Vec<(String, Sig)>| -> Result<Encoded, String> {
        let imps: Vec<((String, String), Sig)> = imports.iter().map(|(k, s)| (k.clone(), s.clone())).collect();
        let ex = with_realloc(exports.clone());
        match vcommon::catch(|| encode(enc_resolve, world, synth_module(&imps, &ex))) {
            Ok(Ok(e)) => Ok(e),
            Ok(Err(e)) => Err(format!("{e:#}")),
            Err(p) => Err(format!("encoder panicked: {p}")),
        }
    };
    let mut good_exports: Vec<(String, Sig)> = vec![];
    {
        let mut names = BTreeSet::new();
        for (n, s) in fixed_exports {
            if names.insert(n.clone()) {
                good_exports.push((n, s));
            }
        }
    }
    // (a) exactly what was generated
    let raw = enc(&all_imports, &enc_exports);
    let mut final_component: Option<Encoded> = None;
    if v.violations.iter().all(|x| x.kind == "async-abi") {
        match raw {
            Ok(e) => {
                v.encoder = "accepted".into();
                final_component = Some(e);
            }
            Err(m) if async_unpatchable && m.contains("requires an async function type") => {
                v.encoder = "not-run-to-completion(async-constructor)".into();
            }
            Err(m) => {
                v.encoder = "rejected".into();
                push(
                    &mut v,
                    "encoder",
                    exp.normalise(&strip_numbers(&m)),
                    format!("the component encoder rejects a module with exactly the generated declarations: {m}"),
                    true,
                );
            }
        }
    } else {
        // (b) the declarations the reference accepts, flagged ones corrected/removed
        match enc(&good_imports, &good_exports) {
            Err(m) if async_unpatchable && m.contains("requires an async function type") => {
                v.encoder = "not-run-to-completion(async-constructor)".into();
            }
            Err(m) => {
                v.encoder = "rejected-after-repair".into();
                push(
                    &mut v,
                    "encoder",
                    exp.normalise(&strip_numbers(&m)),
                    format!(
                        "after correcting the declarations the reference flagged, the component encoder still \
                         rejects the module: {m}"
                    ),
                    true,
                );
            }
            Ok(base) => {
                // (c) the encoder has the last word on import *names*: a flagged import that the
                // encoder accepts on its own is not reported (reference overruled, counted)
                let mut keep = vec![];
                for x in std::mem::take(&mut v.violations) {
                    if let (true, Some((k, s))) = (x.kind == "import-name" || x.kind == "import-module", x.import.clone()) {
                        let mut trial = good_imports.clone();
                        trial.insert(k.clone(), s.clone());
                        if enc(&trial, &good_exports).is_ok() {
                            v.reference_overruled.push(format!("{}:{}", x.kind, x.pattern));
                            good_imports.insert(k, s);
                            continue;
                        }
                    }
                    keep.push(x);
                }
                v.violations = keep;
                final_component = Some(base);
                let hard: Vec<String> =
                    v.violations.iter().filter(|x| x.hard).map(|x| format!("{}:{}", x.kind, x.pattern)).collect();
                match (&raw, hard.is_empty()) {
                    (Ok(_), true) => v.encoder = "accepted".into(),
                    (Err(_), false) => v.encoder = "rejected-as-predicted".into(),
                    (Ok(_), false) => {
                        v.encoder = "accepted-but-reference-rejects".into();
                        v.oracle_inconsistent =
                            Some(format!("reference flags {hard:?} but the component encoder accepts the module"));
                    }
                    (Err(m), true) => {
                        v.encoder = "rejected".into();
                        push(
                            &mut v,
                            "encoder",
                            exp.normalise(&strip_numbers(m)),
                            format!(
                                "the component encoder rejects a module with exactly the generated declarations: {m}"
                            ),
                            true,
                        );
                    }
                }
            }
        }
    }
    if let Some(enc) = final_component {
        v.component_bytes = enc.bytes.len();
        if enc.exports != exp.export_keys {
            push(
                &mut v,
                "component-exports",
                "differ".into(),
                format!("encoded component exports {:?}, the world exports {:?}", enc.exports, exp.export_keys),
                true,
            );
        }
        let extra: Vec<&String> = enc.imports.iter().filter(|i| !exp.import_keys.contains(*i)).collect();
        if !extra.is_empty() {
            push(
                &mut v,
                "component-imports",
                "extra".into(),
                format!("encoded component imports {extra:?} which the world does not import"),
                true,
            );
        }
    }
    v
}

fn strip_numbers(s: &str) -> String {
    // keep messages short and free of indices so that they can serve as keys
    let s = s.split(" (at offset").next().unwrap_or(s);
    let first = s.split(": ").last().unwrap_or(s);
    let mut out = String::new();
    for c in first.chars().take(140) {
        if c.is_ascii_digit() {
            if !out.ends_with('N') {
                out.push('N');
            }
        } else {
            out.push(c);
        }
    }
    out
}

/// Which ABI form does the generated text use for every imported / exported function?
/// (used by C17; no encoder run)  Returns (imports: idx → forms, exports: idx → forms).
pub fn abi_forms(
    exp: &Expected,
    d: &Decls,
) -> (BTreeMap<usize, BTreeSet<String>>, BTreeMap<usize, BTreeSet<String>>) {
    let mut imp: BTreeMap<usize, BTreeSet<String>> = BTreeMap::new();
    let mut ex: BTreeMap<usize, BTreeSet<String>> = BTreeMap::new();
    for i in &d.imports {
        if !i.referenced {
            continue;
        }
        if let Some(x) = exp.imports.get(&(i.module.clone(), i.name.clone())) {
            if let Some((idx, asy)) = x.func {
                imp.entry(idx).or_default().insert(if asy { "async".into() } else { "sync".into() });
            }
        }
    }
    for x in &d.exports {
        if let Some(e) = exp.exports.get(&x.name) {
            match e.class {
                ExportClass::SyncLift(i) => {
                    ex.entry(i).or_default().insert("sync".into());
                }
                ExportClass::AsyncLift(i) | ExportClass::StackfulLift(i) => {
                    ex.entry(i).or_default().insert("async".into());
                }
                _ => {}
            }
        }
    }
    (imp, ex)
}
