//! One (world, backend, variant) evaluation: load → generate → extract → judge.

use crate::extract::{extract, Decls};
use crate::gen::{generate, load, Backend};
use crate::oracle::{judge, Verdict};
use crate::worlds::{excluded, features, Source, WorldCase};
use serde_json::{json, Value};
use wit_parser::{Resolve, WorldId};

pub fn load_case(case: &WorldCase) -> anyhow::Result<(Resolve, WorldId)> {
    match &case.src {
        Source::Inline(t) => load(None, Some(t)),
        Source::Corpus { path, .. } => load(Some(path), None),
    }
}

pub fn wit_text(case: &WorldCase) -> String {
    match &case.src {
        Source::Inline(t) => t.clone(),
        Source::Corpus { path, .. } => {
            if path.is_file() {
                std::fs::read_to_string(path).unwrap_or_default()
            } else {
                format!("<directory {}>", path.display())
            }
        }
    }
}

pub struct Checked {
    pub decls: Decls,
    pub verdict: Verdict,
    pub files: Vec<(String, String)>,
}

pub enum Outcome {
    Excluded(String),
    LoadError(String),
    GenFailed(String),
    Machinery(String),
    Checked(Checked),
}

pub fn run(b: Backend, variant: &str, args: &[String], case: &WorldCase) -> Outcome {
    let (mut resolve, world) = match load_case(case) {
        Ok(x) => x,
        Err(e) => return Outcome::LoadError(format!("{e:#}")),
    };
    let feat = features(&resolve, world);
    if let Some(why) = excluded(b, variant, case, &feat) {
        return Outcome::Excluded(why);
    }
    // generators may mutate the resolve: judge against a pristine copy
    let pristine = resolve.clone();
    let g = match vcommon::catch(|| generate(b, args, &mut resolve, world)) {
        Ok(Ok(g)) => g,
        Ok(Err(e)) => return Outcome::GenFailed(format!("error: {e:#}")),
        Err(p) => return Outcome::GenFailed(format!("panic: {p}")),
    };
    let decls = match extract(b, &g.files) {
        Ok(d) => d,
        Err(e) => return Outcome::Machinery(format!("extractor({}): {e}", b.name())),
    };
    let verdict = judge(&pristine, world, &decls);
    Outcome::Checked(Checked { decls, verdict, files: g.files })
}

/// JSON summary shipped from the worker processes.
pub fn summarise(b: Backend, variant: &str, case: &WorldCase, o: &Outcome) -> Value {
    match o {
        Outcome::Excluded(w) => json!({"st": "excluded", "why": w}),
        Outcome::LoadError(e) => json!({"st": "load-error", "msg": e}),
        Outcome::GenFailed(e) => json!({"st": "gen-failed", "msg": e}),
        Outcome::Machinery(e) => json!({"st": "machinery", "msg": e}),
        Outcome::Checked(c) => {
            let v = &c.verdict;
            // fingerprint of the declaration *shapes* (names normalised by class, signatures kept)
            let mut shapes: Vec<String> = vec![];
            for i in &c.decls.imports {
                shapes.push(format!("i {} {}", strip_ids(&i.name), i.sig.show()));
            }
            for e in &c.decls.exports {
                shapes.push(format!("e {} {}", strip_ids(&e.name), e.sig.show()));
            }
            shapes.sort();
            shapes.dedup();
            let fp = vcommon::fnv(shapes.join("\n").as_bytes());
            json!({
                "st": "checked",
                "imports": v.imports_checked,
                "unref": v.imports_unreferenced,
                "exports": v.exports_checked,
                "encoder": v.encoder,
                "bytes": v.component_bytes,
                "fp": format!("{fp:016x}"),
                "inconsistent": v.oracle_inconsistent,
                "overruled": v.reference_overruled,
                "viol": v.violations.iter().map(|x| json!({
                    "key": format!("{}:{}:{}", b.name(), x.kind, x.pattern),
                    "what": x.what,
                })).collect::<Vec<_>>(),
                "export_abi": v.export_abi.iter().map(|(k, s)| (k.to_string(), s.clone())).collect::<std::collections::BTreeMap<_, _>>(),
                "import_abi": v.import_abi.iter().map(|(k, s)| (k.to_string(), s.iter().cloned().collect::<Vec<_>>())).collect::<std::collections::BTreeMap<_, _>>(),
                "id": case.id, "variant": variant,
            })
        }
    }
}

fn strip_ids(name: &str) -> String {
    // keep the bracketed class prefixes and the `cabi_post_` marker, drop identifiers
    let mut out = String::new();
    let mut rest = name;
    if let Some(r) = rest.strip_prefix("cabi_post_") {
        out.push_str("cabi_post_");
        rest = r;
    }
    let mut depth = 0;
    let mut last_ident = false;
    for c in rest.chars() {
        match c {
            '[' => {
                depth += 1;
                out.push(c);
                last_ident = false;
            }
            ']' => {
                depth -= 1;
                out.push(c);
                last_ident = false;
            }
            _ if depth > 0 => {
                if !c.is_ascii_digit() {
                    out.push(c)
                }
            }
            '#' | '.' => {
                out.push(c);
                last_ident = false;
            }
            _ => {
                if !last_ident {
                    out.push('_');
                    last_ident = true;
                }
            }
        }
    }
    out
}
