//! In-process generation with every backend, exactly like /repo/src/bin/wit-bindgen.rs does
//! (clap-parsed `Opts` + `.build()` + `WorldGenerator::generate`).

use anyhow::{anyhow, Result};
use clap::Parser;
use std::path::Path;
use wit_bindgen_core::{Files, WorldGenerator};
use wit_parser::{Resolve, WorldId};

#[derive(Clone, Copy, PartialEq, Eq, Debug, PartialOrd, Ord)]
pub enum Backend {
    Rust,
    C,
    Cpp,
    CSharp,
    Go,
    MoonBit,
    D,
}

pub const ALL_BACKENDS: [Backend; 7] = [
    Backend::Rust,
    Backend::C,
    Backend::Cpp,
    Backend::CSharp,
    Backend::Go,
    Backend::MoonBit,
    Backend::D,
];

impl Backend {
    pub fn name(self) -> &'static str {
        match self {
            Backend::Rust => "rust",
            Backend::C => "c",
            Backend::Cpp => "cpp",
            Backend::CSharp => "csharp",
            Backend::Go => "go",
            Backend::MoonBit => "moonbit",
            Backend::D => "d",
        }
    }
    pub fn from_name(s: &str) -> Option<Backend> {
        ALL_BACKENDS.iter().copied().find(|b| b.name() == s)
    }
}

#[derive(Parser)]
struct CppW {
    #[clap(flatten)]
    o: wit_bindgen_cpp::Opts,
}
#[derive(Parser)]
struct CsW {
    #[clap(flatten)]
    o: wit_bindgen_csharp::Opts,
}

fn argv<'a>(args: &'a [String]) -> impl Iterator<Item = String> + 'a {
    std::iter::once("wit-bindgen".to_string()).chain(args.iter().cloned())
}

pub fn build_generator(b: Backend, args: &[String]) -> Result<Box<dyn WorldGenerator>> {
    let e = |e: clap::Error| anyhow!("option parsing failed: {e}");
    Ok(match b {
        Backend::Rust => Box::new(wit_bindgen_rust::Opts::try_parse_from(argv(args)).map_err(e)?.build()),
        Backend::C => wit_bindgen_c::Opts::try_parse_from(argv(args)).map_err(e)?.build(),
        Backend::Cpp => CppW::try_parse_from(argv(args)).map_err(e)?.o.build(None),
        Backend::CSharp => CsW::try_parse_from(argv(args)).map_err(e)?.o.build(),
        Backend::Go => wit_bindgen_go::Opts::try_parse_from(argv(args)).map_err(e)?.build(),
        Backend::MoonBit => wit_bindgen_moonbit::Opts::try_parse_from(argv(args)).map_err(e)?.build(),
        Backend::D => wit_bindgen_d::Opts::try_parse_from(argv(args)).map_err(e)?.build(None),
    })
}

/// Load a WIT file / directory (or inline text when `text` is given) and select its world the way
/// crates/test does (`select_world(None)` falling back to the world named `imports`).
pub fn load(path: Option<&Path>, text: Option<&str>) -> Result<(Resolve, WorldId)> {
    let mut resolve = Resolve::default();
    resolve.all_features = true;
    let pkg = match (path, text) {
        (Some(p), _) => resolve.push_path(p)?.0,
        (None, Some(t)) => resolve.push_str("inline.wit", t)?,
        _ => return Err(anyhow!("nothing to load")),
    };
    let world = resolve
        .select_world(&[pkg], None)
        .or_else(|err| resolve.select_world(&[pkg], Some("imports")).map_err(|_| err))?;
    Ok((resolve, world))
}

pub struct Generated {
    pub files: Vec<(String, String)>,
}

pub fn generate(b: Backend, args: &[String], resolve: &mut Resolve, world: WorldId) -> Result<Generated> {
    let mut g = build_generator(b, args)?;
    let mut files = Files::default();
    g.generate(resolve, world, &mut files)?;
    let mut out = Vec::new();
    for (name, contents) in files.iter() {
        out.push((name.to_string(), String::from_utf8_lossy(contents).into_owned()));
    }
    Ok(Generated { files: out })
}
