//! The bounded space of C13: enumerated worlds (function shape × asyncness × position × naming
//! × package version, resource worlds, combined worlds) and the tests/codegen corpus; backend
//! option variants as listed in crates/test; declared exclusions as a cited feature table.

use crate::gen::Backend;
use std::path::PathBuf;
use wit_parser::{FunctionKind, Resolve, Type, TypeDefKind, WorldId, WorldItem, WorldKey};

#[derive(Clone, Debug)]
pub enum Source {
    Inline(String),
    Corpus { name: String, path: PathBuf, cfg_async: bool, cfg_error_context: bool },
}

#[derive(Clone, Debug)]
pub struct WorldCase {
    pub id: String,
    pub src: Source,
}

/// function shapes: (id, params, result, needs_resource)
pub const SHAPES: &[(&str, &str, &str, bool)] = &[
    ("p0", "", "", false),
    ("p1r1", "a: u32", "u32", false),
    ("p16", "a1: u32, a2: u32, a3: u32, a4: u32, a5: u32, a6: u32, a7: u32, a8: u32, a9: u32, a10: u32, a11: u32, a12: u32, a13: u32, a14: u32, a15: u32, a16: u32", "", false),
    ("p17", "a1: u32, a2: u32, a3: u32, a4: u32, a5: u32, a6: u32, a7: u32, a8: u32, a9: u32, a10: u32, a11: u32, a12: u32, a13: u32, a14: u32, a15: u32, a16: u32, a17: u32", "", false),
    ("r2", "", "tuple<u32, u32>", false),
    ("str", "s: string", "string", false),
    ("lists", "l: list<u8>", "list<string>", false),
    ("mix", "a: f32, b: f64, c: s64, d: u8", "f64", false),
    ("optres", "o: option<u64>", "result<u32, string>", false),
    ("p4r1", "a: u64, b: u64, c: u64, d: u64", "u64", false),
    ("p5", "a: u64, b: u64, c: u64, d: u64, e: u64", "", false),
    ("futstr", "f: future<string>", "stream<u8>", false),
    ("nested", "x: list<future<u32>>, y: tuple<u8, stream<string>>", "option<future<stream<u8>>>", false),
    ("unitfs", "f: future, s: stream", "future", false),
    ("futres", "f: future<result<list<u8>, string>>", "result<stream<u32>, string>", false),
    ("handles", "b: borrow<RES>, o: RES", "RES", true),
    ("futhandle", "f: future<RES>", "stream<RES>", true),
    ("errctx", "e: error-context", "result<u32, error-context>", false),
];

#[derive(Clone, Copy, PartialEq, Eq, Debug)]
pub enum Pos {
    WorldImport,
    WorldExport,
    IfaceImport,
    IfaceExport,
    IfaceBoth,
    InlineImport,
    InlineExport,
}

pub const POSITIONS: [Pos; 7] = [
    Pos::WorldImport,
    Pos::WorldExport,
    Pos::IfaceImport,
    Pos::IfaceExport,
    Pos::IfaceBoth,
    Pos::InlineImport,
    Pos::InlineExport,
];

#[derive(Clone, Copy, PartialEq, Eq, Debug)]
pub struct Naming {
    pub kebab: bool,
    /// 0 = no version, 1 = `@1.2.3`, 2 = `@0.2.0-rc.1`
    pub version: u8,
}

impl Naming {
    pub fn func(&self) -> &'static str {
        if self.kebab { "do-it-now" } else { "f" }
    }
    pub fn iface(&self) -> &'static str {
        if self.kebab { "my-iface" } else { "i" }
    }
    pub fn res(&self) -> &'static str {
        if self.kebab { "my-thing" } else { "r" }
    }
    pub fn pkg(&self) -> &'static str {
        match (self.kebab, self.version) {
            (false, 0) => "t:e",
            (false, 1) => "t:e@1.2.3",
            (false, _) => "t:e@0.2.0-rc.1",
            (true, 0) => "my-ns:my-pkg",
            (true, 1) => "my-ns:my-pkg@1.2.3",
            (true, _) => "my-ns:my-pkg@0.2.0-rc.1",
        }
    }
    pub fn tag(&self) -> String {
        format!("{}{}", if self.kebab { "kebab" } else { "plain" }, ["", "-v", "-rc"][self.version as usize])
    }
}

pub fn func_world(shape: usize, is_async: bool, pos: Pos, nm: Naming) -> Option<WorldCase> {
    let (sid, params, result, needs_res) = SHAPES[shape];
    let world_level = matches!(pos, Pos::WorldImport | Pos::WorldExport);
    let params = params.replace("RES", nm.res());
    let result = result.replace("RES", nm.res());
    let f = format!(
        "{}: {}func({}){}",
        nm.func(),
        if is_async { "async " } else { "" },
        params,
        if result.is_empty() { String::new() } else { format!(" -> {result}") }
    );
    let resdecl = if needs_res {
        format!("  resource {} {{ constructor(); }}\n", nm.res())
    } else {
        String::new()
    };
    let mut s = format!("package {};\n\n", nm.pkg());
    match pos {
        Pos::WorldImport | Pos::WorldExport => {
            if needs_res {
                // the resource lives in an imported interface and is `use`d by the world
                s += &format!("interface {} {{\n{resdecl}}}\n\n", nm.iface());
                s += &format!("world my-world {{\n  use {}.{{{}}};\n", nm.iface(), nm.res());
            } else {
                s += "world my-world {\n";
            }
            s += &format!("  {} {f};\n}}\n", if pos == Pos::WorldImport { "import" } else { "export" });
        }
        Pos::IfaceImport | Pos::IfaceExport | Pos::IfaceBoth => {
            s += &format!("interface {} {{\n{resdecl}  {f};\n}}\n\nworld my-world {{\n", nm.iface());
            if matches!(pos, Pos::IfaceImport | Pos::IfaceBoth) {
                s += &format!("  import {};\n", nm.iface());
            }
            if matches!(pos, Pos::IfaceExport | Pos::IfaceBoth) {
                s += &format!("  export {};\n", nm.iface());
            }
            s += "}\n";
        }
        Pos::InlineImport | Pos::InlineExport => {
            s += &format!(
                "world my-world {{\n  {} {}: interface {{\n  {resdecl}    {f};\n  }}\n}}\n",
                if pos == Pos::InlineImport { "import" } else { "export" },
                if nm.kebab { "my-inline" } else { "n" }
            );
        }
    }
    let _ = world_level;
    Some(WorldCase {
        id: format!("fn/{sid}/{}/{pos:?}/{}", if is_async { "async" } else { "sync" }, nm.tag()),
        src: Source::Inline(s),
    })
}

/// resource worlds: members × position × naming
pub const RES_MEMBERS: &[(&str, &str)] = &[
    ("basic", "constructor(a: u32);\n    get-it: func() -> string;\n    make-one: static func(s: string) -> RES;\n    take-it: static func(b: borrow<RES>, o: RES);"),
    ("noctor", "get-it: func() -> u32;"),
    ("asyncm", "constructor();\n    do-async: async func(x: u32) -> u32;\n    st-async: static async func(s: string) -> string;"),
    ("fallible", "constructor(s: string) -> result<RES, string>;"),
    ("futm", "constructor();\n    watch: func() -> stream<u8>;\n    send: static func(f: future<RES>);"),
];

pub fn res_world(members: usize, pos: Pos, nm: Naming) -> Option<WorldCase> {
    let (mid, body) = RES_MEMBERS[members];
    let body = body.replace("RES", nm.res());
    let res = format!("  resource {} {{\n    {body}\n  }}\n", nm.res());
    let mut s = format!("package {};\n\n", nm.pkg());
    match pos {
        Pos::WorldImport => {
            // a resource imported directly by the world
            s += &format!("world my-world {{\n{res}}}\n");
        }
        Pos::WorldExport => return None,
        Pos::IfaceImport | Pos::IfaceExport | Pos::IfaceBoth => {
            s += &format!("interface {} {{\n{res}}}\n\nworld my-world {{\n", nm.iface());
            if matches!(pos, Pos::IfaceImport | Pos::IfaceBoth) {
                s += &format!("  import {};\n", nm.iface());
            }
            if matches!(pos, Pos::IfaceExport | Pos::IfaceBoth) {
                s += &format!("  export {};\n", nm.iface());
            }
            s += "}\n";
        }
        Pos::InlineImport | Pos::InlineExport => {
            s += &format!(
                "world my-world {{\n  {} {}: interface {{\n  {res}  }}\n}}\n",
                if pos == Pos::InlineImport { "import" } else { "export" },
                if nm.kebab { "my-inline" } else { "n" }
            );
        }
    }
    Some(WorldCase { id: format!("res/{mid}/{pos:?}/{}", nm.tag()), src: Source::Inline(s) })
}

/// one world with everything at once (interactions: future indices across functions, equal
/// names imported and exported, world-level and interface-level functions side by side)
pub fn combined_world(with_async: bool, nm: Naming) -> WorldCase {
    let r = nm.res();
    let a = if with_async { "async " } else { "" };
    let mut s = format!("package {};\n\ninterface {} {{\n", nm.pkg(), nm.iface());
    s += &format!(
        "  resource {r} {{\n    constructor(a: u32);\n    get-it: func() -> string;\n    make-one: static func(s: string) -> {r};\n  }}\n"
    );
    s += &format!("  plain-fn: func(a: u32, b: string) -> list<u8>;\n  two-res: func() -> tuple<u32, u32>;\n");
    s += &format!("  take: func(t: borrow<{r}>, o: {r});\n  {}: {a}func(s: string) -> string;\n", nm.func());
    if with_async {
        s += "  fut: func(f: future<string>) -> stream<u8>;\n  fut2: async func(f: future<string>, g: future<u32>) -> future<string>;\n";
    }
    s += "}\n\nworld my-world {\n";
    s += &format!("  import {};\n  export {};\n", nm.iface(), nm.iface());
    s += &format!("  import {}: {a}func(a: f32) -> f64;\n", nm.func());
    s += &format!("  export {}: {a}func(s: string) -> string;\n", nm.func());
    s += "  import other-imp: func(l: list<string>);\n  export other-exp: func() -> list<string>;\n";
    if with_async {
        s += "  import w-fut: func(s: stream<string>) -> future<u8>;\n  export w-fut: async func(s: stream<string>) -> future<u8>;\n";
    }
    s += "}\n";
    WorldCase {
        id: format!("combined/{}/{}", if with_async { "async" } else { "sync" }, nm.tag()),
        src: Source::Inline(s),
    }
}

/// two functions in one interface (payload-type de-duplication and per-function future/stream
/// indices interact across functions); thorough tier
pub const PAIR_SHAPES: &[&str] = &["str", "futstr", "nested", "unitfs", "futres", "futhandle"];

pub fn pair_world(s1: usize, s2: usize, is_async: bool, pos: Pos, nm: Naming) -> Option<WorldCase> {
    if !matches!(pos, Pos::IfaceImport | Pos::IfaceExport | Pos::IfaceBoth) {
        return None;
    }
    let mk = |si: usize, name: &str| {
        let (_, params, result, _) = SHAPES[si];
        format!(
            "  {name}: {}func({}){};\n",
            if is_async { "async " } else { "" },
            params.replace("RES", nm.res()),
            if result.is_empty() { String::new() } else { format!(" -> {}", result.replace("RES", nm.res())) }
        )
    };
    let needs_res = SHAPES[s1].3 || SHAPES[s2].3;
    let mut s = format!("package {};\n\ninterface {} {{\n", nm.pkg(), nm.iface());
    if needs_res {
        s += &format!("  resource {} {{ constructor(); }}\n", nm.res());
    }
    s += &mk(s1, nm.func());
    s += &mk(s2, if nm.kebab { "other-fn" } else { "g" });
    s += "}\n\nworld my-world {\n";
    if matches!(pos, Pos::IfaceImport | Pos::IfaceBoth) {
        s += &format!("  import {};\n", nm.iface());
    }
    if matches!(pos, Pos::IfaceExport | Pos::IfaceBoth) {
        s += &format!("  export {};\n", nm.iface());
    }
    s += "}\n";
    Some(WorldCase {
        id: format!(
            "pair/{}+{}/{}/{pos:?}/{}",
            SHAPES[s1].0,
            SHAPES[s2].0,
            if is_async { "async" } else { "sync" },
            nm.tag()
        ),
        src: Source::Inline(s),
    })
}

/// "payload sequence" band: the flattened future/stream list of one function is an arbitrary
/// sequence over PAYLOAD_ALPHABET, so it contains every repeat pattern of a type id (repeat
/// first / in the middle / last, followed by the other kind or a fresh payload type). The
/// per-function index N of `[future-OP-N]f` / `[stream-OP-N]f` must be the *position* in that
/// list, whatever de-duplication a backend does for its vtables.
pub const PAYLOAD_ALPHABET: [&str; 4] = ["stream<u8>", "future<u8>", "stream<string>", "future<string>"];
pub const SEQ_PLACES: [&str; 4] = ["IfaceBoth", "WorldBoth", "MethodImport", "MethodExport"];

/// `seq` = indices into PAYLOAD_ALPHABET; the first `nparams` are parameters, the rest the
/// result (one type, or a tuple).
pub fn payload_seq_world(seq: &[usize], nparams: usize, place: &str, is_async: bool, nm: Naming) -> WorldCase {
    let params: Vec<String> =
        seq[..nparams].iter().enumerate().map(|(i, t)| format!("p{i}: {}", PAYLOAD_ALPHABET[*t])).collect();
    let res: Vec<&str> = seq[nparams..].iter().map(|t| PAYLOAD_ALPHABET[*t]).collect();
    let result = match res.len() {
        0 => String::new(),
        1 => format!(" -> {}", res[0]),
        _ => format!(" -> tuple<{}>", res.join(", ")),
    };
    let sig = format!("{}func({}){result}", if is_async { "async " } else { "" }, params.join(", "));
    let f = nm.func();
    let mut s = format!("package {};\n\n", nm.pkg());
    match place {
        "IfaceBoth" => {
            s += &format!(
                "interface {i} {{\n  {f}: {sig};\n}}\n\nworld my-world {{\n  import {i};\n  export {i};\n}}\n",
                i = nm.iface()
            );
        }
        "WorldBoth" => {
            s += &format!("world my-world {{\n  import {f}: {sig};\n  export {f}: {sig};\n}}\n");
        }
        _ => {
            s += &format!(
                "interface {i} {{\n  resource {r} {{\n    {f}: {sig};\n  }}\n}}\n\nworld my-world {{\n  {d} {i};\n}}\n",
                i = nm.iface(),
                r = nm.res(),
                d = if place == "MethodImport" { "import" } else { "export" }
            );
        }
    }
    let code: String = seq.iter().map(|t| ["s", "f", "S", "F"][*t]).collect();
    WorldCase {
        id: format!(
            "seq/{code}/{nparams}p/{place}/{}/{}",
            if is_async { "async" } else { "sync" },
            nm.tag()
        ),
        src: Source::Inline(s),
    }
}

fn sequences(len: usize) -> Vec<Vec<usize>> {
    let mut out = vec![vec![]];
    for _ in 0..len {
        out = out.into_iter().flat_map(|v: Vec<usize>| (0..4).map(move |t| { let mut n = v.clone(); n.push(t); n })).collect();
    }
    out
}

pub fn payload_seq_band(thorough: bool) -> Vec<WorldCase> {
    let kebab_v = Naming { kebab: true, version: 1 };
    let mut out = vec![];
    // all 64 sequences of length 3, two splits, interface and world level, import + export
    for seq in sequences(3) {
        for nparams in if thorough { vec![0, 1, 2, 3] } else { vec![1, 2] } {
            for place in SEQ_PLACES {
                for is_async in [false, true] {
                    let quick = !is_async && matches!(place, "IfaceBoth" | "WorldBoth");
                    // resource methods: sync only
                    if quick || (thorough && !(is_async && place.starts_with("Method"))) {
                        out.push(payload_seq_world(&seq, nparams, place, is_async, kebab_v));
                    }
                }
            }
        }
    }
    // quick: the length-4 sequences that repeat their first type in third place (x y x z)
    // thorough: all 256 sequences of length 4, every split, interface level
    for seq in sequences(4) {
        if thorough {
            for nparams in [0, 2, 4] {
                out.push(payload_seq_world(&seq, nparams, "IfaceBoth", false, kebab_v));
            }
        } else if seq[0] == seq[2] {
            out.push(payload_seq_world(&seq, 2, "IfaceBoth", false, kebab_v));
        }
    }
    out
}

pub fn enumerated(thorough: bool) -> Vec<WorldCase> {
    let mut out = vec![];
    let kebab_v = Naming { kebab: true, version: 1 };
    let plain = Naming { kebab: false, version: 0 };
    let namings: Vec<Naming> = if thorough {
        let mut v = vec![];
        for kebab in [false, true] {
            for version in 0..3u8 {
                v.push(Naming { kebab, version });
            }
        }
        v
    } else {
        vec![kebab_v, plain]
    };
    for (si, _) in SHAPES.iter().enumerate() {
        for is_async in [false, true] {
            for pos in POSITIONS {
                for nm in &namings {
                    // quick: plain naming only for three representative shapes
                    if !thorough && !nm.kebab && !matches!(SHAPES[si].0, "str" | "futstr" | "handles") {
                        continue;
                    }
                    if let Some(w) = func_world(si, is_async, pos, *nm) {
                        out.push(w);
                    }
                }
            }
        }
    }
    for (mi, _) in RES_MEMBERS.iter().enumerate() {
        for pos in POSITIONS {
            for nm in &namings {
                if let Some(w) = res_world(mi, pos, *nm) {
                    out.push(w);
                }
            }
        }
    }
    for with_async in [false, true] {
        for nm in &namings {
            out.push(combined_world(with_async, *nm));
        }
    }
    if thorough {
        let idx = |n: &str| SHAPES.iter().position(|s| s.0 == n).unwrap();
        for a in PAIR_SHAPES {
            for b in PAIR_SHAPES {
                for is_async in [false, true] {
                    for pos in POSITIONS {
                        for nm in [kebab_v, plain] {
                            if let Some(w) = pair_world(idx(a), idx(b), is_async, pos, nm) {
                                out.push(w);
                            }
                        }
                    }
                }
            }
        }
    }
    out.extend(payload_seq_band(thorough));
    out
}

pub fn corpus() -> Result<Vec<WorldCase>, String> {
    let dir = PathBuf::from(vcommon::repo_root()).join("tests/codegen");
    let mut entries: Vec<PathBuf> = std::fs::read_dir(&dir)
        .map_err(|e| format!("{dir:?}: {e}"))?
        .filter_map(|e| e.ok().map(|e| e.path()))
        .collect();
    entries.sort();
    let mut out = vec![];
    for p in entries {
        let name = p.file_name().unwrap().to_string_lossy().to_string();
        if p.is_file() {
            if p.extension().and_then(|s| s.to_str()) != Some("wit") {
                continue;
            }
            let text = std::fs::read_to_string(&p).map_err(|e| format!("{p:?}: {e}"))?;
            // `//@ key = value` lines at the top of the file (crates/test/src/config.rs)
            let mut cfg_async = false;
            let mut cfg_ec = false;
            for l in text.lines().take_while(|l| l.starts_with("//@")) {
                let l = l[3..].replace(' ', "");
                if l == "async=true" {
                    cfg_async = true;
                } else if l == "error-context=true" {
                    cfg_ec = true;
                } else {
                    return Err(format!("{name}: unknown test configuration line {l:?}"));
                }
            }
            out.push(WorldCase {
                id: format!("corpus/{name}"),
                src: Source::Corpus { name, path: p, cfg_async, cfg_error_context: cfg_ec },
            });
        } else if p.join("wit").is_dir() {
            out.push(WorldCase {
                id: format!("corpus/{name}"),
                src: Source::Corpus { name, path: p.join("wit"), cfg_async: false, cfg_error_context: false },
            });
        }
    }
    Ok(out)
}

// --------------------------------------------------------------------- variants

/// (variant name, full argument list) per backend: `default_bindgen_args` +
/// `default_bindgen_args_for_codegen` + `codegen_test_variants` of crates/test/src/<lang>.rs.
pub fn variants(b: Backend) -> Vec<(&'static str, Vec<String>)> {
    let v = |base: &[&str], vars: &[(&'static str, &[&str])]| -> Vec<(&'static str, Vec<String>)> {
        let mut out = vec![("default", base.iter().map(|s| s.to_string()).collect::<Vec<_>>())];
        for (n, extra) in vars {
            let mut a: Vec<String> = base.iter().map(|s| s.to_string()).collect();
            a.extend(extra.iter().map(|s| s.to_string()));
            out.push((*n, a));
        }
        out
    };
    match b {
        Backend::Rust => v(
            &["--generate-all", "--format", "--stubs"],
            &[
                ("borrowed", &["--ownership=borrowing"]),
                ("borrowed-duplicate", &["--ownership=borrowing-duplicate-if-necessary"]),
                ("async", &["--async=all"]),
                ("no-std", &["--std-feature"]),
                ("merge-equal", &["--merge-structurally-equal-types"]),
                ("hashmap", &["--map-type=std::collections::HashMap"]),
            ],
        ),
        Backend::C => v(
            &[],
            &[
                ("no-sig-flattening", &["--no-sig-flattening"]),
                ("autodrop", &["--autodrop-borrows=yes"]),
                ("async", &["--async=all"]),
            ],
        ),
        Backend::Cpp => v(&[], &[]),
        Backend::CSharp => v(&["--runtime=native-aot", "--generate-stub"], &[]),
        Backend::Go => v(&["--generate-stubs"], &[]),
        Backend::MoonBit => v(
            &["--derive-debug", "--derive-show", "--derive-eq", "--derive-error"],
            &[("async", &["--async=all"])],
        ),
        Backend::D => v(&["--emit-export-stubs"], &[]),
    }
}

// --------------------------------------------------------------------- features & exclusions

#[derive(Clone, Debug, Default)]
pub struct Features {
    pub async_func: bool,
    pub future_stream: bool,
    pub error_context: bool,
    pub fixed_list: bool,
    pub map: bool,
    pub async_resource_func: bool,
    pub fallible_ctor: bool,
    pub resource_import_and_export: bool,
    pub named_interface_import: bool,
}

impl Features {
    pub fn any_async(&self) -> bool {
        self.async_func || self.future_stream || self.error_context
    }
}

pub fn features(resolve: &Resolve, world: WorldId) -> Features {
    let mut f = Features::default();
    for (_, t) in resolve.types.iter() {
        match &t.kind {
            TypeDefKind::Future(_) | TypeDefKind::Stream(_) => f.future_stream = true,
            TypeDefKind::FixedLengthList(..) => f.fixed_list = true,
            TypeDefKind::Map(..) => f.map = true,
            _ => {}
        }
    }
    let uses_ec = |t: &Type| matches!(t, Type::ErrorContext);
    for (_, t) in resolve.types.iter() {
        let hit = match &t.kind {
            TypeDefKind::Type(x) | TypeDefKind::Option(x) | TypeDefKind::List(x) | TypeDefKind::FixedLengthList(x, _) => {
                uses_ec(x)
            }
            TypeDefKind::Future(x) | TypeDefKind::Stream(x) => x.as_ref().map_or(false, uses_ec),
            TypeDefKind::Result(r) => r.ok.as_ref().map_or(false, uses_ec) || r.err.as_ref().map_or(false, uses_ec),
            TypeDefKind::Tuple(t) => t.types.iter().any(uses_ec),
            TypeDefKind::Record(r) => r.fields.iter().any(|x| uses_ec(&x.ty)),
            TypeDefKind::Variant(v) => v.cases.iter().any(|c| c.ty.as_ref().map_or(false, uses_ec)),
            TypeDefKind::Map(k, v) => uses_ec(k) || uses_ec(v),
            _ => false,
        };
        f.error_context |= hit;
    }
    let w = &resolve.worlds[world];
    let mut imported = std::collections::BTreeSet::new();
    let mut exported = std::collections::BTreeSet::new();
    let scan = |func: &wit_parser::Function, f: &mut Features| {
        match func.kind {
            FunctionKind::AsyncFreestanding => f.async_func = true,
            FunctionKind::AsyncMethod(_) | FunctionKind::AsyncStatic(_) => {
                f.async_func = true;
                f.async_resource_func = true;
            }
            FunctionKind::Constructor(_) => {
                if !func.is_constructor_shorthand(resolve) {
                    f.fallible_ctor = true;
                }
            }
            _ => {}
        }
        if func.params.iter().any(|p| uses_ec(&p.ty)) || func.result.as_ref().map_or(false, uses_ec) {
            f.error_context = true;
        }
    };
    for (dir, items) in [(true, &w.imports), (false, &w.exports)] {
        for (key, item) in items.iter() {
            match item {
                WorldItem::Function(func) => scan(func, &mut f),
                WorldItem::Interface { id, .. } => {
                    let has_res = resolve.interfaces[*id]
                        .types
                        .values()
                        .any(|t| matches!(resolve.types[*t].kind, TypeDefKind::Resource));
                    if has_res {
                        if dir {
                            imported.insert(*id);
                        } else {
                            exported.insert(*id);
                        }
                    }
                    if dir && matches!(key, WorldKey::Name(_)) && resolve.interfaces[*id].name.is_some() {
                        f.named_interface_import = true;
                    }
                    for (_, func) in resolve.interfaces[*id].functions.iter() {
                        scan(func, &mut f);
                    }
                }
                WorldItem::Type { .. } => {}
            }
        }
    }
    f.resource_import_and_export = imported.intersection(&exported).next().is_some();
    f
}

/// One row of the declared-exclusion table: the source text it is derived from must still be
/// present in crates/test/src/<file>, else the table is out of date (machinery error).
pub struct ExclusionSource {
    pub file: &'static str,
    pub line: u32,
    pub must_contain: &'static str,
}

pub const EXCLUSION_SOURCES: &[ExclusionSource] = &[
    ExclusionSource { file: "c.rs", line: 60, must_contain: r#"config.error_context || name.starts_with("named-fixed-length-list.wit")"# },
    ExclusionSource { file: "cpp.rs", line: 50, must_contain: r#"if name == "issue-1598.wit" {"# },
    ExclusionSource { file: "cpp.rs", line: 54, must_contain: r#""issue1514-6.wit" | "named-fixed-length-list.wit" => true,"# },
    ExclusionSource { file: "cpp.rs", line: 56, must_contain: r#"} || config.async_;"# },
    ExclusionSource { file: "csharp.rs", line: 47, must_contain: r#""error-context.wit"
                | "resource-fallible-constructor.wit"
                | "async-resource-func.wit"
                | "import-export-resource.wit"
                | "issue-1433.wit"
                | "named-fixed-length-list.wit""# },
    ExclusionSource { file: "go.rs", line: 42, must_contain: r#"if config.error_context {
            return true;
        }
        if name == "named-fixed-length-list.wit" {
            return true;
        }
        if !runner.go_async_supported() {
            return name == "async-trait-function.wit" || name == "issue-1598.wit";
        }

        false"# },
    ExclusionSource { file: "moonbit.rs", line: 132, must_contain: r#"name == "named-fixed-length-list.wit-async" || config.error_context"# },
    ExclusionSource { file: "d.rs", line: 34, must_contain: r#"config.async_ || config.error_context || name == "map.wit" || name == "issue1642.wit""# },
    ExclusionSource { file: "rust.rs", line: 84, must_contain: r#"if name == "wasi-http-borrowed-duplicate" || name == "more-variants.wit-borrowed-duplicate""# },
    ExclusionSource { file: "rust.rs", line: 90, must_contain: r#"if name == "named-fixed-length-list.wit-async" {"# },
    // variants
    ExclusionSource { file: "c.rs", line: 65, must_contain: r#"("no-sig-flattening", &["--no-sig-flattening"]),
            ("autodrop", &["--autodrop-borrows=yes"]),
            ("async", &["--async=all"]),"# },
    ExclusionSource { file: "moonbit.rs", line: 37, must_contain: r#"&[("async", &["--async=all"])]"# },
    ExclusionSource { file: "rust.rs", line: 99, must_contain: r#"("borrowed", &["--ownership=borrowing"]),"# },
    ExclusionSource { file: "rust.rs", line: 104, must_contain: r#"("async", &["--async=all"]),
            ("no-std", &["--std-feature"]),
            ("merge-equal", &["--merge-structurally-equal-types"]),
            ("hashmap", &["--map-type=std::collections::HashMap"]),"# },
];

pub fn check_exclusion_sources() -> Result<(), String> {
    for s in EXCLUSION_SOURCES {
        let p = format!("{}/crates/test/src/{}", vcommon::repo_root(), s.file);
        let text = std::fs::read_to_string(&p).map_err(|e| format!("{p}: {e}"))?;
        let norm = |t: &str| t.split_whitespace().collect::<Vec<_>>().join(" ");
        if !norm(&text).contains(&norm(s.must_contain)) {
            return Err(format!(
                "exclusion table out of date: crates/test/src/{}:{} no longer contains {:?}",
                s.file, s.line, s.must_contain
            ));
        }
    }
    Ok(())
}

/// Is (world, backend, variant) declared unsupported? Returns the cited reason.
pub fn excluded(b: Backend, variant: &str, case: &WorldCase, feat: &Features) -> Option<String> {
    match &case.src {
        Source::Corpus { name, cfg_async, cfg_error_context, .. } => {
            // literal replica of `should_fail_verify(name-with-variant, config)`
            let full = if variant == "default" { name.clone() } else { format!("{name}-{variant}") };
            let hit = match b {
                Backend::C => *cfg_error_context || full.starts_with("named-fixed-length-list.wit"),
                Backend::Cpp => {
                    // crates/test exempts `issue-1598.wit` from the blanket async exclusion because
                    // it *compiles*; the backend still declares async unsupported, so C13 keeps the
                    // blanket rule (cpp.rs:56) for it.
                    if full == "issue-1598.wit" && !*cfg_async {
                        false
                    } else {
                        matches!(full.as_str(), "issue1514-6.wit" | "named-fixed-length-list.wit") || *cfg_async
                    }
                }
                Backend::CSharp => matches!(
                    full.as_str(),
                    "error-context.wit"
                        | "resource-fallible-constructor.wit"
                        | "async-resource-func.wit"
                        | "import-export-resource.wit"
                        | "issue-1433.wit"
                        | "named-fixed-length-list.wit"
                ),
                Backend::Go => *cfg_error_context || full == "named-fixed-length-list.wit",
                Backend::MoonBit => full == "named-fixed-length-list.wit-async" || *cfg_error_context,
                Backend::D => *cfg_async || *cfg_error_context || full == "map.wit" || full == "issue1642.wit",
                Backend::Rust => matches!(
                    full.as_str(),
                    "wasi-http-borrowed-duplicate"
                        | "more-variants.wit-borrowed-duplicate"
                        | "named-fixed-length-list.wit-async"
                ),
            };
            if b == Backend::Cpp && full == "issue-1598.wit" && hit {
                return Some(
                    "async (cpp.rs:56; the issue-1598.wit exemption at cpp.rs:50 only says that it compiles)".into(),
                );
            }
            hit.then(|| format!("should_fail_verify({full:?}) in crates/test/src/{}.rs", b.name()))
        }
        Source::Inline(_) => {
            let r = |c: bool, why: &str| c.then(|| why.to_string());
            match b {
                Backend::C => r(feat.error_context, "error-context (c.rs:60)").or(r(feat.fixed_list, "fixed-length list (c.rs:60)")),
                Backend::Cpp => r(feat.any_async(), "async (cpp.rs:56)").or(r(feat.fixed_list, "fixed-length list (cpp.rs:54)")),
                Backend::CSharp => r(feat.error_context, "error-context (csharp.rs:47)")
                    .or(r(feat.fallible_ctor, "fallible resource constructor (csharp.rs:48)"))
                    .or(r(feat.async_resource_func, "async resource function (csharp.rs:49)"))
                    .or(r(feat.resource_import_and_export, "same resource imported and exported (csharp.rs:50)"))
                    .or(r(feat.fixed_list, "fixed-length list (csharp.rs:52)")),
                Backend::Go => r(feat.error_context, "error-context (go.rs:42)").or(r(feat.fixed_list, "fixed-length list (go.rs:45)")),
                Backend::MoonBit => r(feat.error_context, "error-context (moonbit.rs:132)")
                    .or(r(feat.fixed_list && variant == "async", "fixed-length list with --async=all (moonbit.rs:132)")),
                Backend::D => r(feat.any_async(), "async (d.rs:34)")
                    .or(r(feat.map, "map (d.rs:34)"))
                    .or(r(feat.named_interface_import, "named interface import (d.rs:34, issue1642.wit)")),
                Backend::Rust => r(feat.fixed_list && variant == "async", "fixed-length list with --async=all (rust.rs:90)"),
            }
        }
    }
}
