//! Entry point shared by the `c10` and `c11` binaries.

use crate::engine;
use crate::gen::CConfig;
use crate::ty::Ty;
use crate::world;
use serde_json::{json, Value};
use std::collections::{BTreeMap, BTreeSet};

pub const MAX_REPORT_PER_CLASS: usize = 3;

fn belongs(id: &str, class: &str) -> bool {
    match id {
        "C10" => class.starts_with("value:"),
        _ => class.starts_with("own:") || class.starts_with("alloc:"),
    }
}

fn chunks(types: &[Ty], n: usize) -> Vec<Vec<Ty>> {
    types.chunks(n).map(|c| c.to_vec()).collect()
}

pub struct UniverseOutcome {
    pub coverage: Value,
    /// (key, what, detail)
    pub violations: Vec<(String, String, Value)>,
    pub machinery: Vec<String>,
}

/// Shapes around the 16-flat-parameter limit (the refabi universes stop at exactly 16): the
/// parameter list is passed flat with 16 core values and through a caller-allocated record with 17.
pub fn wide_types() -> Vec<Ty> {
    let s = || Ty::String;
    vec![
        Ty::Tuple(vec![Ty::U32; 16]),
        Ty::Tuple(vec![Ty::U32; 17]),
        Ty::Tuple(vec![s(), s(), s(), s(), s(), s(), s(), s()]),
        Ty::Tuple(vec![s(), s(), s(), s(), s(), s(), s(), s(), Ty::U8]),
        Ty::Record(vec![Ty::U64, Ty::U64, Ty::U64, Ty::U64, Ty::U64, Ty::U64, Ty::U64, Ty::U64, s(), s(), s(), s(), s()]),
        Ty::Tuple(vec![Ty::U8, Ty::F64, Ty::U16, Ty::F32, Ty::Bool, Ty::S64, Ty::Char, Ty::List(Box::new(Ty::U8)), Ty::U8, Ty::U8, Ty::U8, Ty::U8, Ty::U8, Ty::U8, Ty::U8, Ty::Option(Box::new(s()))]),
        // the smallest named type that nests an anonymous list
        Ty::Record(vec![Ty::List(Box::new(Ty::U8))]),
        Ty::Record(vec![Ty::List(Box::new(s())), Ty::Option(Box::new(Ty::List(Box::new(Ty::U64)))), Ty::Result(Some(Box::new(s())), Some(Box::new(Ty::List(Box::new(s()))))), Ty::Variant(vec![None, Some(s()), Some(Ty::F64)]), Ty::Tuple(vec![Ty::U8; 9])]),
    ]
}

/// Lists whose *element* mixes a heap-owning member with scalars of every width (element sizes
/// of the form `k + n*sizeof(void*)`, element strides, per-element cleanup): `list<T>` for every
/// layout pair / triple T of `refabi::universe::pairs()` that owns heap data, a few more element
/// shapes (list member, three fields, option next to a 64-bit scalar), and the option / result /
/// tuple / record wrappers of the record-shaped ones. V(list<T>) has lengths 0, 1, 2, 3.
pub fn heap_element_lists() -> Vec<Ty> {
    let b = |t: &Ty| Box::new(t.clone());
    let s = || Ty::String;
    let mut elems: Vec<Ty> = refabi::universe::pairs().into_iter().filter(|t| t.contains_heap()).collect();
    elems.extend([
        Ty::Record(vec![Ty::F64, Ty::List(Box::new(Ty::U8))]),
        Ty::Record(vec![Ty::List(Box::new(Ty::U64)), Ty::U8]),
        Ty::Record(vec![Ty::U8, s(), Ty::U64]),
        Ty::Record(vec![Ty::U64, Ty::Option(Box::new(s()))]),
        Ty::Tuple(vec![s(), Ty::U64]),
        Ty::Tuple(vec![Ty::U16, Ty::List(Box::new(s())), Ty::F64]),
        Ty::Variant(vec![Some(Ty::U64), Some(Ty::List(Box::new(Ty::U16))), None]),
        Ty::Result(Some(Box::new(Ty::List(Box::new(Ty::U32)))), Some(Box::new(Ty::F64))),
    ]);
    let mut out: Vec<Ty> = elems.iter().map(|e| Ty::List(b(e))).collect();
    for e in elems.iter().filter(|e| matches!(e, Ty::Record(_))) {
        let l = Ty::List(b(e));
        out.push(Ty::Option(b(&l)));
        out.push(Ty::Result(Some(b(&l)), None));
        out.push(Ty::Result(Some(Box::new(Ty::U8)), Some(b(&l))));
        out.push(Ty::Tuple(vec![Ty::U8, l.clone()]));
        out.push(Ty::Record(vec![l.clone(), Ty::U64]));
        out.push(Ty::List(b(&l)));
    }
    out
}

fn universe_types(name: &str) -> Vec<Ty> {
    let mut out = Vec::new();
    for part in name.split('+') {
        if part == "wide" {
            out.extend(wide_types());
        } else if part == "split" {
            // dev: only the split-interfaces world (added by run_universe)
        } else if part == "heaplists" {
            out.extend(heap_element_lists());
        } else {
            out.extend(refabi::universe::universe(part));
        }
    }
    let mut seen = BTreeSet::new();
    out.retain(|t| seen.insert(t.clone()));
    out
}

/// Run the universe part: `plan` = list of (universe name, configurations).
pub fn run_universe(id: &str, plan: &[(String, Vec<CConfig>)], chunk: usize, level2: bool, seed: u64, known: &dyn Fn(&str) -> bool) -> UniverseOutcome {
    let clang = crate::cc::clang();
    let mut excluded: BTreeMap<&'static str, usize> = BTreeMap::new();
    let mut jobs: Vec<(CConfig, String, Vec<Ty>, Option<String>)> = Vec::new();
    let mut plan_json = Vec::new();
    let mut all_types: BTreeSet<Ty> = BTreeSet::new();
    let mut configs: Vec<CConfig> = Vec::new();
    for (uname, cfgs) in plan {
        let all = universe_types(uname);
        let mut types = Vec::new();
        for t in &all {
            match world::exclusion(t) {
                Some(r) => {
                    if all_types.insert(t.clone()) {
                        *excluded.entry(r).or_insert(0) += 1;
                    }
                }
                // a type already covered by an earlier (wider-configured) entry of the plan is not repeated
                None => {
                    if all_types.insert(t.clone()) {
                        types.push(t.clone())
                    }
                }
            }
        }
        plan_json.push(json!({"universe": uname, "types": types.len(), "configurations": cfgs.iter().map(|c| c.name()).collect::<Vec<_>>()}));
        for cfg in cfgs {
            if !configs.contains(cfg) {
                configs.push(*cfg);
            }
            for (k, c) in chunks(&types, chunk).into_iter().enumerate() {
                jobs.push((*cfg, format!("{}/{uname}#{k}", cfg.name()), c, None));
            }
        }
    }
    // the split-interfaces world (base types in an import-only interface), once per configuration
    // of the first plan entry
    let (split_types, split_wit) = world::split_world();
    if std::env::var_os("E4_UNIVERSE").is_none() || std::env::var("E4_UNIVERSE").as_deref() == Ok("split") {
        if let Some((_, cfgs)) = plan.first() {
            for cfg in cfgs {
                jobs.push((*cfg, format!("{}/split-interfaces", cfg.name()), split_types.clone(), Some(split_wit.clone())));
            }
            plan_json.push(json!({"universe": "split-interfaces world: 4 heap-owning base types in an import-only interface x {T, record{T,u64}, list<T>, option<T>, alias, record{T,list<T>}, variant{T,u64}, tuple<u8,T>}",
                                  "types": split_types.len(), "configurations": cfgs.iter().map(|c| c.name()).collect::<Vec<_>>()}));
        }
    }
    // biggest universes first would starve nothing: VERIF_SEED only rotates the order of work
    if !jobs.is_empty() {
        let r = (seed as usize) % jobs.len();
        jobs.rotate_left(r);
    }
    let timeout = 300_000;
    let results = vcommon::par_map(jobs.len(), vcommon::ncpu(), |j| {
        let (cfg, label, types, wit) = &jobs[j];
        engine::job(types, cfg, &clang, level2, label, timeout, wit.as_deref())
    });
    let types: Vec<Ty> = all_types.into_iter().filter(|t| world::exclusion(t).is_none()).collect();
    let mut out = aggregate(id, &json!(plan_json), &configs, &types, excluded, &results, chunk, known);
    out.coverage["jobs"] = json!(jobs.len());
    out
}

pub fn aggregate(
    id: &str,
    universe: &Value,
    configs: &[CConfig],
    types: &[Ty],
    excluded: BTreeMap<&'static str, usize>,
    results: &[Value],
    chunk: usize,
    known: &dyn Fn(&str) -> bool,
) -> UniverseOutcome {
    let mut machinery = Vec::new();
    let mut per_cfg: BTreeMap<String, BTreeMap<String, u64>> = BTreeMap::new();
    let mut nontrivial: BTreeSet<(String, String)> = BTreeSet::new();
    let mut skipped: BTreeMap<String, BTreeSet<String>> = BTreeMap::new();
    let mut samples = Vec::new();
    let mut by_class: BTreeMap<String, Vec<Value>> = BTreeMap::new();
    let mut other_property = 0usize;
    for r in results {
        if let Some(m) = r.get("machinery").and_then(|m| m.as_str()) {
            machinery.push(format!("{}: {m}", r["label"]));
            continue;
        }
        for m in r["machinery_list"].as_array().unwrap() {
            machinery.push(m.as_str().unwrap().to_string());
        }
        let cfg = r["config"].as_str().unwrap().to_string();
        let e = per_cfg.entry(cfg.clone()).or_default();
        for (k, v) in r["stats"].as_object().unwrap() {
            if let Some(n) = v.as_u64() {
                *e.entry(k.clone()).or_insert(0) += n;
            }
        }
        for n in r["stats"]["nontrivial"].as_array().unwrap() {
            nontrivial.insert((cfg.clone(), n.as_str().unwrap().to_string()));
        }
        for s in r["skipped"].as_array().unwrap() {
            skipped.entry(s[1].as_str().unwrap().to_string()).or_default().insert(s[0].as_str().unwrap().to_string());
        }
        for s in r["samples"].as_array().unwrap() {
            if samples.len() < 12 {
                samples.push(s.clone());
            }
        }
        for p in r["problems"].as_array().unwrap() {
            let class = p["class"].as_str().unwrap().to_string();
            if !belongs(id, &class) {
                other_property += 1;
                continue;
            }
            let mut p = p.clone();
            p["config"] = json!(cfg);
            by_class.entry(class).or_default().push(p);
        }
    }
    // minimise: per class the smallest types first, at most MAX_REPORT_PER_CLASS distinct keys
    let mut violations = Vec::new();
    for (class, mut ps) in by_class {
        ps.sort_by_key(|p| {
            (p["nodes"].as_u64().unwrap_or(0), p["ty"].as_str().unwrap_or("").len(), p["ty"].as_str().unwrap_or("").to_string(), p["case"].as_u64().unwrap_or(0), p["config"].as_str().unwrap_or("").to_string())
        });
        let total = ps.len();
        let distinct_types: BTreeSet<&str> = ps.iter().map(|p| p["ty"].as_str().unwrap_or("")).collect();
        let ntypes = distinct_types.len();
        let mut seen = BTreeSet::new();
        let mut fresh = 0usize;
        for p in &ps {
            let split = p["world"].as_str() == Some("split-interfaces");
            let key = format!("{class}:{}{}", p["ty"].as_str().unwrap_or(""), if split { ":split-interfaces" } else { "" });
            if !seen.insert(key.clone()) {
                continue;
            }
            // listed known findings do not use up the cap (so they can never hide what comes next)
            if !known(&key) {
                fresh += 1;
                if fresh > MAX_REPORT_PER_CLASS {
                    break;
                }
            }
            let what = format!(
                "{class} on {} [{}], sent {} / answered {}: {} ({} failing cases over {} types in this class)",
                p["ty"].as_str().unwrap_or(""),
                p["config"].as_str().unwrap_or(""),
                p["v1"].as_str().unwrap_or(""),
                p["v2"].as_str().unwrap_or(""),
                p["msg"].as_str().unwrap_or(""),
                total,
                ntypes
            );
            let detail = json!({"kind": "universe", "world": p["world"], "config": p["config"], "ty": p["ty_json"], "case": p["case"],
                                "class": class, "msg": p["msg"], "v1": p["v1"], "v2": p["v2"]});
            violations.push((key, what, detail));
        }
    }
    let sum = |k: &str| -> u64 { per_cfg.values().map(|m| m.get(k).copied().unwrap_or(0)).sum() };
    let cases = sum("cases");
    let coverage = json!({
        "universe": universe,
        "bounds": refabi::universe::bounds_json(),
        "types_in_universe": types.len(),
        "types_excluded": excluded,
        "configurations": configs.iter().map(|c| c.name()).collect::<Vec<_>>(),
        "chunk_size": chunk,
        "cases_function_x_value": cases,
        "steps_per_case": ["export-param (host lowers, C lifts)", "import-param (C lowers, host lifts)", "import-result (host lowers, C lifts)", "export-result (C lowers, host lifts)"],
        "level1_pairs": cases,
        "level2_pairs_argument_compared_in_C": sum("l2_arg"),
        "level2_pairs_result_compared_in_C": sum("l2_ret"),
        "import_calls": sum("import_calls"),
        "post_return_calls": sum("post_returns"),
        "host_allocated_blocks_tracked": sum("host_blocks"),
        "buffers_whose_release_was_checked": sum("frees_checked"),
        "per_configuration": per_cfg,
        "chunks_built": sum("built"), "chunks_from_cache": sum("cached"),
        "types_skipped": skipped.iter().map(|(r, t)| json!({"reason": r, "count": t.len(), "types": t.iter().take(8).collect::<Vec<_>>()})).collect::<Vec<_>>(),
        "distinct_nontrivial_universe": nontrivial.len(),
        "problems_of_the_sibling_property_seen": other_property,
        "samples": samples,
    });
    UniverseOutcome { coverage, violations, machinery }
}


// ---------------------------------------------------------------------------------------------
// resources (C11)

pub struct ResourceOutcome {
    pub coverage: Value,
    pub violations: Vec<(String, String, Value)>,
    pub machinery: Vec<String>,
}

pub fn run_resources(depth: usize) -> ResourceOutcome {
    use crate::resources as rs;
    let clang = crate::cc::clang();
    let (hists, abstract_states) = rs::histories(depth);
    let mut machinery = Vec::new();
    let mut builds = Vec::new();
    for autodrop in [false, true] {
        match rs::prepare(autodrop, &clang) {
            Ok(b) => builds.push(b),
            Err(e) => machinery.push(format!("resource world (autodrop={autodrop}): {e}")),
        }
    }
    let parts = vcommon::ncpu().max(1);
    let per = hists.len().div_ceil(parts).max(1);
    let slices: Vec<(usize, usize)> = (0..hists.len()).step_by(per).map(|a| (a, (a + per).min(hists.len()))).collect();
    let jobs: Vec<(usize, usize)> = (0..builds.len()).flat_map(|b| (0..slices.len()).map(move |s| (b, s))).collect();
    let results = vcommon::par_map(jobs.len(), vcommon::ncpu(), |j| {
        let (b, s) = jobs[j];
        let (from, to) = slices[s];
        let mut r = rs::run_build(&builds[b], &hists[from..to], 300_000);
        r["from"] = json!(from);
        r["autodrop"] = json!(builds[b].autodrop);
        r
    });
    let mut by_key: BTreeMap<String, (usize, bool, String, usize)> = BTreeMap::new();
    let mut calls = 0u64;
    let mut dtor_runs = 0u64;
    let mut executed = 0u64;
    let mut outcomes: BTreeSet<String> = BTreeSet::new();
    for r in &results {
        if let Some(m) = r["machinery"].as_str() {
            machinery.push(m.to_string());
            continue;
        }
        let from = r["from"].as_u64().unwrap() as usize;
        let autodrop = r["autodrop"].as_bool().unwrap();
        let mut note_n = |key: String, hi: usize, msg: String, n: usize| {
            let e = by_key.entry(key).or_insert((hi, autodrop, msg.clone(), 0));
            e.3 += n;
            if hists[hi].len() < hists[e.0].len() || (hists[hi].len() == hists[e.0].len() && hi < e.0) {
                *e = (hi, autodrop, msg, e.3);
            }
        };
        let mut note = |key: String, hi: usize, msg: String| note_n(key, hi, msg, 1);
        for c in r["crashes"].as_array().unwrap() {
            let hi = from + c["history"].as_u64().unwrap() as usize;
            note("own:resource:trap".into(), hi, format!("generated C died ({}) at step {} of the history", c["what"].as_str().unwrap_or("?"), c["step"]));
        }
        let res = &r["result"];
        for m in res["imports_missing"].as_array().unwrap() {
            note(format!("own:resource:import-missing:{}", m.as_str().unwrap()), from, "generated C does not declare this core import".into());
        }
        for p in res["problems"].as_array().unwrap() {
            let hi = from + p[0].as_u64().unwrap() as usize;
            note_n(format!("own:{}", p[1].as_str().unwrap()), hi, p[2].as_str().unwrap().to_string(), p[3].as_u64().unwrap_or(1) as usize);
        }
        calls += res["calls"].as_u64().unwrap_or(0);
        dtor_runs += res["dtor_runs"].as_u64().unwrap_or(0);
        executed += (slices.iter().find(|(a, _)| *a == from).map(|(a, b)| b - a).unwrap_or(0) - r["crashes"].as_array().unwrap().len()) as u64;
        for o in res["outcomes"].as_array().unwrap() {
            outcomes.insert(format!("autodrop={autodrop} {}", o.as_str().unwrap()));
        }
    }
    let mut violations = Vec::new();
    for (key, (hi, autodrop, msg, n)) in &by_key {
        let h: Vec<String> = hists[*hi].iter().map(|a| a.name()).collect();
        let what = format!("{key} after host history [{}] (autodrop-borrows={}): {msg} ({n} histories hit this key)", h.join(", "), if *autodrop { "yes" } else { "no" });
        violations.push((key.clone(), what, json!({"kind": "resource", "autodrop": autodrop, "history": h, "msg": msg})));
    }
    let sample: Vec<Value> = hists
        .iter()
        .enumerate()
        .filter(|(i, _)| i.count_ones() == 1 || *i == hists.len() - 1)
        .take(10)
        .map(|(_, h)| json!(h.iter().map(|a| a.name()).collect::<Vec<_>>()))
        .collect();
    let coverage = json!({
        "resource_world": "imported + exported resources `thing` and `my-thing` (constructor, method), own in / out, borrow, keep / release",
        "alphabet": ["exp-new", "exp-borrow-call", "exp-host-drop", "exp-own-in", "imp-own-in", "imp-lend", "imp-construct-keep", "imp-guest-drop", "imp-own-out"],
        "alphabet_size": 18,
        "history_depth": depth,
        "max_host_owned_per_resource": rs::MAX_HOST_OWNED,
        "histories_enumerated": hists.len(),
        "modes": ["autodrop-borrows=no", "autodrop-borrows=yes"],
        "histories_executed": executed,
        "abstract_model_states": abstract_states,
        "export_calls": calls,
        "user_destructor_runs_observed": dtor_runs,
        "distinct_outcomes": outcomes.len(),
        "history_samples": sample,
    });
    ResourceOutcome { coverage, violations, machinery }
}

pub fn replay(id: &str, d: &Value) -> ! {
    let clang = crate::cc::clang();
    let mut failed = false;
    match d["kind"].as_str() {
        Some("universe") => {
            let ty = Ty::from_json(&d["ty"]).unwrap_or_else(|e| vcommon::machinery(&format!("replay: {e}")));
            let cfg = CConfig::from_name(d["config"].as_str().unwrap_or("")).unwrap_or_else(|| vcommon::machinery("replay: bad config"));
            let want_case = d["case"].as_u64().unwrap_or(0);
            println!("replaying {} on {ty} [{}], case {want_case}", d["class"], cfg.name());
            let r = if d["world"].as_str() == Some("split-interfaces") {
                let (tys, wit) = world::split_world();
                println!("(split-interfaces world: all of its functions are run, problems of other types are listed too)");
                engine::job(&tys, &cfg, &clang, true, "replay", 120_000, Some(&wit))
            } else {
                engine::job(&[ty], &cfg, &clang, true, "replay", 120_000, None)
            };
            if let Some(m) = r.get("machinery").and_then(|m| m.as_str()) {
                vcommon::machinery(m);
            }
            for p in r["problems"].as_array().unwrap() {
                let mine = belongs(id, p["class"].as_str().unwrap_or(""));
                println!("  case {} sent {} answered {}: {} — {}{}", p["case"], p["v1"], p["v2"], p["class"], p["msg"], if mine { "" } else { "  (sibling property)" });
                if mine && p["class"] == d["class"] {
                    failed = true;
                }
            }
        }
        Some("resource") => {
            use crate::resources as rs;
            let autodrop = d["autodrop"].as_bool().unwrap_or(false);
            let hist: Vec<rs::Act> = d["history"]
                .as_array()
                .unwrap()
                .iter()
                .map(|a| rs::Act::parse(a.as_str().unwrap_or("")).unwrap_or_else(|| vcommon::machinery("replay: bad action")))
                .collect();
            println!("replaying host history {:?} (autodrop-borrows={autodrop})", d["history"]);
            let b = rs::prepare(autodrop, &clang).unwrap_or_else(|e| vcommon::machinery(&e));
            let r = rs::run_build(&b, &[hist], 60_000);
            if let Some(m) = r["machinery"].as_str() {
                vcommon::machinery(m);
            }
            for c in r["crashes"].as_array().unwrap() {
                println!("  crash: {c}");
                failed = true;
            }
            if let Some(ps) = r["result"]["problems"].as_array() {
                for p in ps {
                    println!("  {}: {}", p[1], p[2]);
                    failed = true;
                }
            }
        }
        _ => vcommon::machinery("replay file has no known kind"),
    }
    println!("replay: {}", if failed { "still fails" } else { "passes" });
    std::process::exit(if failed { 1 } else { 0 })
}

pub fn main(id: &str) {
    vcommon::install_quiet_panic_hook();
    let mut run = vcommon::Run::from_args(id, "exploration");
    if let Some(d) = run.replay_detail() {
        replay(id, &d);
    }
    crate::cc::gc(48);
    // quick: u1 ∪ pairs ∪ wide ∪ heaplists, default configuration.
    // thorough: (u1 ∪ u2 ∪ wide ∪ heaplists) x all six configurations, and the depth-3 universe u3r x the two
    // configurations that differ most (default/utf8, no-sig-flattening/utf16).
    let mut plan: Vec<(String, Vec<CConfig>)> = if run.thorough() {
        vec![
            ("u1+u2+wide+heaplists".to_string(), CConfig::all()),
            ("u3r".to_string(), vec![CConfig::DEFAULT, CConfig { no_sig_flattening: true, autodrop: false, utf16: true }]),
        ]
    } else {
        vec![("quick+wide+heaplists".to_string(), vec![CConfig::DEFAULT])]
    };
    if let Ok(u) = std::env::var("E4_UNIVERSE") {
        plan = vec![(u, plan[0].1.clone())];
    }
    if let Ok(c) = std::env::var("E4_CONFIGS") {
        let cs: Vec<CConfig> = c.split(',').map(|n| CConfig::from_name(n).unwrap_or_else(|| vcommon::machinery("bad E4_CONFIGS"))).collect();
        for p in plan.iter_mut() {
            p.1 = cs.clone();
        }
    }
    let chunk = run.pick(32, 60);
    let out = run_universe(id, &plan, chunk, true, run.seed, &|k| run.is_known(k));
    let mut machinery = out.machinery;
    let mut violations = out.violations;
    let mut cov = out.coverage;
    let cases = cov["cases_function_x_value"].as_u64().unwrap_or(0);
    let mut evaluations = cases * 4;
    let mut distinct = cov["distinct_nontrivial_universe"].as_u64().unwrap_or(0);
    let mut rule = "distinct (configuration, type) pairs whose call moved at least one heap buffer or used the indirect parameter / result convention".to_string();
    if id == "C11" {
        let depth = std::env::var("E4_DEPTH").ok().and_then(|d| d.parse().ok()).unwrap_or(run.pick(4, 6));
        let r = run_resources(depth);
        machinery.extend(r.machinery);
        violations.extend(r.violations);
        evaluations += r.coverage["histories_executed"].as_u64().unwrap_or(0);
        distinct += r.coverage["distinct_outcomes"].as_u64().unwrap_or(0);
        rule.push_str(" + distinct (mode, export calls, destructor runs, problems) outcomes of resource histories");
        cov["resources"] = r.coverage;
    }
    if !machinery.is_empty() {
        for m in machinery.iter().take(10) {
            eprintln!("machinery: {m}");
        }
        vcommon::machinery(&format!("{} harness failures, first: {}", machinery.len(), machinery[0]));
    }
    for (k, w, d) in &violations {
        run.violation(k, w, d.clone());
    }
    cov["evaluations"] = json!(evaluations);
    cov["distinct_nontrivial"] = json!(distinct);
    cov["rule"] = json!(rule);
    // exhaustive = nothing cut the enumeration: no function abandoned after repeated crashes, every
    // enumerated resource history executed in both modes (crashed ones count as executed: observed)
    let abandoned = cov["types_skipped"].as_array().map(|a| a.iter().any(|s| s["reason"].as_str().unwrap_or("").starts_with("remaining cases"))).unwrap_or(false);
    cov["exhaustive"] = json!(!abandoned);
    let assumptions = vec![
        "native execution on x86-64: pointer width 8 only (refabi's width-8 extrapolation: pointers and lengths are 8 bytes, 8-aligned); the 32-bit layout is C01's subject".to_string(),
        "values are judged by refabi (val_eq: any NaN equals any NaN of the same width); joined i32 slots are compared after wrapping to 32 bits, as lift does".to_string(),
        "the mock host produces only behaviours the canonical ABI certainly allows: zero-length buffers are the non-null aligned pointer `align`, every non-empty buffer is its own allocation".to_string(),
        "exports are resolved by the names wit-parser's mangler assigns (trusted as a mangler); an export missing under that name is not called".to_string(),
        "core signatures are compared up to pointer ≡ i64 (width 8)".to_string(),
    ];
    run.finish(cov, assumptions);
}
