//! Parser for the generated `<world>.h` (typedefs, prototypes) and scanner for the generated
//! `<world>.c` (core import declarations and core export definitions with the component-model
//! names in their attributes). The harness never recomputes a C name: everything it calls or
//! defines is read from here. Anything that does not parse is an `Err` (a machinery error for
//! that chunk), never a silent skip.

use std::collections::BTreeMap;

#[derive(Clone, Debug, PartialEq, Eq)]
pub struct CTy {
    pub base: String,
    pub ptr: u8,
}

impl CTy {
    pub fn text(&self) -> String {
        format!("{}{}", self.base, " *".repeat(self.ptr as usize))
    }
    pub fn is_void(&self) -> bool {
        self.base == "void" && self.ptr == 0
    }
    pub fn deref(&self) -> CTy {
        CTy { base: self.base.clone(), ptr: self.ptr.saturating_sub(1) }
    }
}

#[derive(Clone, Debug)]
pub enum Field {
    Plain(CTy, String),
    /// `union { T a; U b; } name;`
    Union(Vec<(CTy, String)>, String),
}

#[derive(Clone, Debug)]
pub enum TypeDef {
    Struct(Vec<Field>),
    Alias(CTy),
    /// `typedef struct X X;`
    Opaque,
    /// `typedef enum X { .. } X;`
    CEnum,
}

#[derive(Clone, Debug)]
pub struct Proto {
    pub ret: CTy,
    pub name: String,
    pub params: Vec<(CTy, String)>,
}

impl Proto {
    pub fn text(&self) -> String {
        let ps: Vec<String> = self.params.iter().map(|(t, n)| format!("{} {n}", t.text())).collect();
        format!("{} {}({})", self.ret.text(), self.name, if ps.is_empty() { "void".into() } else { ps.join(", ") })
    }
}

#[derive(Clone, Debug, Default)]
pub struct Header {
    pub typedefs: BTreeMap<String, TypeDef>,
    /// prototypes under `// Imported Functions from …`, in order
    pub imports: Vec<Proto>,
    /// prototypes under `// Exported Functions from …`, in order
    pub exports: Vec<Proto>,
    /// every other prototype (helpers)
    pub helpers: Vec<Proto>,
}

impl Header {
    pub fn helper(&self, name: &str) -> Option<&Proto> {
        self.helpers.iter().find(|p| p.name == name)
    }
    /// Follow `typedef A B;` aliases of non-pointer types down to a struct or a scalar name.
    pub fn resolve(&self, name: &str) -> (String, Option<&TypeDef>) {
        let mut n = name.to_string();
        for _ in 0..8 {
            match self.typedefs.get(&n) {
                Some(TypeDef::Alias(t)) if t.ptr == 0 => n = t.base.clone(),
                other => return (n, other),
            }
        }
        (n, None)
    }
}

#[derive(Clone, Debug, PartialEq)]
enum Tok {
    Id(String),
    P(char),
    Str(String),
    /// section marker: 1 = imports, 2 = exports, 3 = helpers
    Section(u8),
}

fn lex(text: &str) -> Result<Vec<Tok>, String> {
    let mut out = Vec::new();
    for line in text.lines() {
        let t = line.trim_start();
        if t.starts_with('#') {
            continue;
        }
        if let Some(c) = t.strip_prefix("//") {
            let c = c.trim();
            if c.starts_with("Imported Functions from") {
                out.push(Tok::Section(1));
            } else if c.starts_with("Exported Functions from") {
                out.push(Tok::Section(2));
            } else if c.starts_with("Helper Functions") || c.starts_with("Async Helper Functions") {
                out.push(Tok::Section(3));
            }
            continue;
        }
        let b: Vec<char> = line.chars().collect();
        let mut i = 0;
        while i < b.len() {
            let c = b[i];
            if c.is_whitespace() {
                i += 1;
            } else if c == '/' && i + 1 < b.len() && b[i + 1] == '/' {
                break;
            } else if c.is_ascii_alphabetic() || c == '_' {
                let s = i;
                while i < b.len() && (b[i].is_ascii_alphanumeric() || b[i] == '_') {
                    i += 1;
                }
                out.push(Tok::Id(b[s..i].iter().collect()));
            } else if c.is_ascii_digit() {
                let s = i;
                while i < b.len() && (b[i].is_ascii_alphanumeric()) {
                    i += 1;
                }
                out.push(Tok::Id(b[s..i].iter().collect()));
            } else if c == '"' {
                let s = i + 1;
                i += 1;
                while i < b.len() && b[i] != '"' {
                    i += 1;
                }
                // (an unterminated literal is taken to the end of the line)
                out.push(Tok::Str(b[s..i.min(b.len())].iter().collect()));
                i += 1;
            } else {
                out.push(Tok::P(c));
                i += 1;
            }
        }
    }
    Ok(out)
}

struct Cur<'a> {
    t: &'a [Tok],
    i: usize,
}

impl<'a> Cur<'a> {
    fn peek(&self) -> Option<&'a Tok> {
        self.t.get(self.i)
    }
    fn peek_at(&self, k: usize) -> Option<&'a Tok> {
        self.t.get(self.i + k)
    }
    fn next(&mut self) -> Option<&'a Tok> {
        let t = self.t.get(self.i);
        self.i += 1;
        t
    }
    fn is_p(&self, c: char) -> bool {
        matches!(self.peek(), Some(Tok::P(x)) if *x == c)
    }
    fn is_id(&self, s: &str) -> bool {
        matches!(self.peek(), Some(Tok::Id(x)) if x == s)
    }
    fn expect_p(&mut self, c: char) -> Result<(), String> {
        match self.next() {
            Some(Tok::P(x)) if *x == c => Ok(()),
            o => Err(format!("expected {c:?}, found {o:?} near {}", self.context())),
        }
    }
    fn ident(&mut self) -> Result<String, String> {
        match self.next() {
            Some(Tok::Id(s)) => Ok(s.clone()),
            o => Err(format!("expected identifier, found {o:?} near {}", self.context())),
        }
    }
    fn context(&self) -> String {
        let s = self.i.saturating_sub(8);
        let e = (self.i + 4).min(self.t.len());
        self.t[s..e]
            .iter()
            .map(|t| match t {
                Tok::Id(s) => s.clone(),
                Tok::P(c) => c.to_string(),
                Tok::Str(s) => format!("{s:?}"),
                Tok::Section(_) => "§".into(),
            })
            .collect::<Vec<_>>()
            .join(" ")
    }
    /// `[const] [struct] NAME [const] *…`
    fn ctype(&mut self) -> Result<CTy, String> {
        while self.is_id("const") || self.is_id("struct") {
            self.i += 1;
        }
        let base = self.ident()?;
        let mut ptr = 0;
        loop {
            if self.is_p('*') {
                ptr += 1;
                self.i += 1;
            } else if self.is_id("const") {
                self.i += 1;
            } else {
                break;
            }
        }
        Ok(CTy { base, ptr })
    }
    /// after `(`: parameters up to and including `)`
    fn params(&mut self) -> Result<Vec<(CTy, String)>, String> {
        let mut out = Vec::new();
        if self.is_id("void") && matches!(self.peek_at(1), Some(Tok::P(')'))) {
            self.i += 2;
            return Ok(out);
        }
        if self.is_p(')') {
            self.i += 1;
            return Ok(out);
        }
        loop {
            let t = self.ctype()?;
            let name = if let Some(Tok::Id(_)) = self.peek() { self.ident()? } else { format!("a{}", out.len()) };
            out.push((t, name));
            if self.is_p(',') {
                self.i += 1;
                continue;
            }
            self.expect_p(')')?;
            return Ok(out);
        }
    }
    fn skip_attribute(&mut self) -> Result<(), String> {
        // __attribute__ ( ( … ) )
        self.i += 1;
        self.expect_p('(')?;
        let mut depth = 1;
        while depth > 0 {
            match self.next() {
                Some(Tok::P('(')) => depth += 1,
                Some(Tok::P(')')) => depth -= 1,
                Some(_) => {}
                None => return Err("unterminated __attribute__".into()),
            }
        }
        Ok(())
    }
}

pub fn parse_header(text: &str) -> Result<Header, String> {
    let toks = lex(text)?;
    let mut c = Cur { t: &toks, i: 0 };
    let mut h = Header::default();
    let mut section = 0u8;
    while let Some(t) = c.peek() {
        match t {
            Tok::Section(s) => {
                section = *s;
                c.i += 1;
            }
            Tok::P('}') | Tok::P(';') => c.i += 1,
            Tok::Id(k) if k == "extern" && matches!(c.peek_at(1), Some(Tok::Str(_))) => {
                // extern "C" {
                c.i += 2;
                c.expect_p('{')?;
            }
            Tok::Id(k) if k == "typedef" => {
                c.i += 1;
                if c.is_id("struct") {
                    c.i += 1;
                    let tag = if let Some(Tok::Id(_)) = c.peek() { Some(c.ident()?) } else { None };
                    if c.is_p('{') {
                        c.i += 1;
                        let mut fields = Vec::new();
                        while !c.is_p('}') {
                            if c.is_id("union") {
                                c.i += 1;
                                c.expect_p('{')?;
                                let mut ms = Vec::new();
                                while !c.is_p('}') {
                                    let t = c.ctype()?;
                                    let n = c.ident()?;
                                    c.expect_p(';')?;
                                    ms.push((t, n));
                                }
                                c.i += 1;
                                let n = c.ident()?;
                                c.expect_p(';')?;
                                fields.push(Field::Union(ms, n));
                            } else {
                                let t = c.ctype()?;
                                let n = c.ident()?;
                                if c.is_p('[') {
                                    return Err(format!("array field {n} not understood"));
                                }
                                c.expect_p(';')?;
                                fields.push(Field::Plain(t, n));
                            }
                        }
                        c.i += 1;
                        let name = c.ident()?;
                        c.expect_p(';')?;
                        h.typedefs.insert(name, TypeDef::Struct(fields));
                    } else {
                        // typedef struct X X;   /  typedef struct X *Y;
                        let mut ptr = 0;
                        while c.is_p('*') {
                            ptr += 1;
                            c.i += 1;
                        }
                        let name = c.ident()?;
                        c.expect_p(';')?;
                        if ptr == 0 {
                            h.typedefs.insert(name, TypeDef::Opaque);
                        } else {
                            h.typedefs.insert(name, TypeDef::Alias(CTy { base: tag.unwrap_or_default(), ptr }));
                        }
                    }
                } else if c.is_id("enum") {
                    c.i += 1;
                    while !c.is_p('}') {
                        if c.next().is_none() {
                            return Err("unterminated enum".into());
                        }
                    }
                    c.i += 1;
                    let name = c.ident()?;
                    c.expect_p(';')?;
                    h.typedefs.insert(name, TypeDef::CEnum);
                } else {
                    let t = c.ctype()?;
                    let name = c.ident()?;
                    c.expect_p(';')?;
                    h.typedefs.insert(name, TypeDef::Alias(t));
                }
            }
            Tok::Id(k) if k == "__attribute__" => c.skip_attribute()?,
            Tok::Id(_) => {
                if c.is_id("extern") {
                    c.i += 1;
                }
                let ret = c.ctype()?;
                let name = c.ident()?;
                c.expect_p('(')?;
                let params = c.params()?;
                c.expect_p(';')?;
                let p = Proto { ret, name, params };
                match section {
                    1 => h.imports.push(p),
                    2 => h.exports.push(p),
                    _ => h.helpers.push(p),
                }
            }
            o => return Err(format!("header: unexpected token {o:?} near {}", c.context())),
        }
    }
    Ok(h)
}

// ---------------------------------------------------------------------------------------------
// <world>.c

#[derive(Clone, Debug)]
pub struct CoreImport {
    pub module: String,
    pub name: String,
    pub proto: Proto,
}

#[derive(Clone, Debug)]
pub struct CoreExport {
    pub export_name: String,
    pub weak: bool,
    pub proto: Proto,
}

#[derive(Clone, Debug, Default)]
pub struct CSource {
    pub imports: Vec<CoreImport>,
    pub exports: Vec<CoreExport>,
    /// other undefined externs the file needs (`extern void f(void);` without attributes)
    pub plain_externs: Vec<Proto>,
}

/// Scan the generated C source for attribute-carrying declarations / definitions.
pub fn scan_c(text: &str) -> Result<CSource, String> {
    let toks = lex(text)?;
    let mut c = Cur { t: &toks, i: 0 };
    let mut out = CSource::default();
    let mut depth = 0i32;
    while let Some(t) = c.peek() {
        match t {
            Tok::P('{') => {
                depth += 1;
                c.i += 1;
            }
            Tok::P('}') => {
                depth -= 1;
                c.i += 1;
            }
            Tok::Id(k) if k == "__attribute__" && depth == 0 => {
                // collect the attribute's tokens
                let start = c.i;
                c.skip_attribute()?;
                let attr = &toks[start..c.i];
                let find = |key: &str| -> Option<String> {
                    attr.windows(3).find_map(|w| match w {
                        [Tok::Id(k), Tok::P('('), Tok::Str(s)] if k == key => Some(s.clone()),
                        _ => None,
                    })
                };
                let module = find("__import_module__");
                let iname = find("__import_name__");
                let ename = find("__export_name__");
                let weak = attr.iter().any(|t| matches!(t, Tok::Id(k) if k == "__weak__"));
                if module.is_some() != iname.is_some() {
                    return Err(format!("import attribute with only one of module/name near {}", c.context()));
                }
                if let (Some(m), Some(n)) = (module, iname) {
                    if c.is_id("extern") {
                        c.i += 1;
                    }
                    let ret = c.ctype()?;
                    let name = c.ident()?;
                    c.expect_p('(')?;
                    let params = c.params()?;
                    c.expect_p(';')?;
                    out.imports.push(CoreImport { module: m, name: n, proto: Proto { ret, name, params } });
                } else if let Some(e) = ename {
                    let ret = c.ctype()?;
                    let name = c.ident()?;
                    c.expect_p('(')?;
                    let params = c.params()?;
                    if !c.is_p('{') {
                        return Err(format!("export {e} is not followed by a definition"));
                    }
                    out.exports.push(CoreExport { export_name: e, weak, proto: Proto { ret, name, params } });
                }
            }
            Tok::Id(k) if k == "extern" && depth == 0 => {
                // extern T name(params);   (no attribute)
                let save = c.i;
                c.i += 1;
                let r = (|| -> Result<Proto, String> {
                    let ret = c.ctype()?;
                    let name = c.ident()?;
                    c.expect_p('(')?;
                    let params = c.params()?;
                    c.expect_p(';')?;
                    Ok(Proto { ret, name, params })
                })();
                match r {
                    Ok(p) => out.plain_externs.push(p),
                    Err(_) => c.i = save + 1,
                }
            }
            _ => c.i += 1,
        }
    }
    Ok(out)
}

/// Core type class of a C parameter / result type in a core signature:
/// `i` = i32, `I` = i64, `f` = f32, `d` = f64, `p` = pointer or length (i64 at pointer width 8).
pub fn core_class(t: &CTy) -> Result<char, String> {
    if t.ptr > 0 {
        return Ok('p');
    }
    Ok(match t.base.as_str() {
        "int32_t" | "uint32_t" => 'i',
        "int64_t" | "uint64_t" => 'I',
        "float" => 'f',
        "double" => 'd',
        "size_t" | "uintptr_t" | "intptr_t" => 'p',
        o => return Err(format!("core signature uses unknown C type {o}")),
    })
}

pub fn core_sig(p: &Proto) -> Result<String, String> {
    let mut s = String::new();
    for (t, _) in &p.params {
        s.push(core_class(t)?);
    }
    s.push('>');
    if !p.ret.is_void() {
        s.push(core_class(&p.ret)?);
    }
    Ok(s)
}
