//! The mock component-model host for one chunk of the universe world (sync half of `cmhost`,
//! DESIGN §3.3): lowers / lifts with `refabi` into native memory, calls the core exports through
//! the table keyed by component-model export name, serves the core imports, and keeps the heap
//! ledger the C11 oracle reads. Runs inside a forked child; a trap or hang is an observation.

use crate::abi::{self, Context, CoreTy, CoreVal, Lowered, MemRead, Width, MAX_FLAT_PARAMS};
use crate::alloc::arena;
use crate::gen::CConfig;
use crate::native_c::{dec_val, enc_ty, enc_val, lower_flat_n, lower_values_n, store_n, Enc, NativeMem};
use crate::ty::val_eq;
use crate::world::{expected_sig, normalise_c_sig, sig_string, FuncNames, FuncPlan};
use serde_json::{json, Value};
use std::collections::{BTreeMap, BTreeSet};
use std::ffi::{CStr, CString};
use std::path::PathBuf;

const W: Width = Width::W8;

#[derive(Clone)]
pub struct ChunkBuild {
    pub so: PathBuf,
    pub cfg: CConfig,
    pub funcs: Vec<FuncPlan>,
    pub names: Vec<FuncNames>,
    /// per function: level-2 check generated for (argument, result)
    pub level2: Vec<(bool, bool)>,
    /// per function: export-side argument type that owns heap data but has no free helper
    pub free_missing: Vec<Option<String>>,
    pub label: String,
}

#[derive(Clone, Debug)]
pub struct Problem {
    pub func: usize,
    pub case: usize,
    /// `value:export-param`, `own:post-return:leak`, …
    pub class: String,
    pub msg: String,
}

#[repr(C)]
pub struct VTable {
    pub malloc_: extern "C" fn(usize) -> *mut u8,
    pub calloc_: extern "C" fn(usize, usize) -> *mut u8,
    pub realloc_: extern "C" fn(*mut u8, usize) -> *mut u8,
    pub free_: extern "C" fn(*mut u8),
    pub abort_: extern "C" fn(),
    pub dispatch: extern "C" fn(i32, *const u64, i32, *mut u64),
    pub mark: extern "C" fn(i32, i32),
    pub fail: extern "C" fn(i32, i32, i32),
    pub event: extern "C" fn(i32, i32, u64),
}

#[repr(C)]
struct CExport {
    name: *const libc::c_char,
    call: Option<extern "C" fn(*const u64, *mut u64)>,
    sig: *const libc::c_char,
}
#[repr(C)]
struct CImport {
    module: *const libc::c_char,
    name: *const libc::c_char,
    sig: *const libc::c_char,
}

pub struct Loaded {
    pub exports: BTreeMap<String, (extern "C" fn(*const u64, *mut u64), String)>,
    pub imports: Vec<(String, String, String)>,
    pub cur_case: *mut i32,
}

/// dlopen the chunk and read its tables.
pub fn load_so(so: &std::path::Path, vt: &VTable) -> Result<Loaded, String> {
    unsafe {
        let p = CString::new(so.to_str().unwrap()).unwrap();
        let h = libc::dlopen(p.as_ptr(), libc::RTLD_NOW | libc::RTLD_LOCAL);
        if h.is_null() {
            let e = libc::dlerror();
            let m = if e.is_null() { "?".into() } else { CStr::from_ptr(e).to_string_lossy().into_owned() };
            return Err(format!("dlopen {so:?}: {m}"));
        }
        let sym = |n: &str| -> Result<*mut libc::c_void, String> {
            let c = CString::new(n).unwrap();
            let s = libc::dlsym(h, c.as_ptr());
            if s.is_null() {
                Err(format!("symbol {n} missing in {so:?}"))
            } else {
                Ok(s)
            }
        };
        let init: extern "C" fn(*const VTable) = std::mem::transmute(sym("verif_init")?);
        init(vt);
        let mut exports = BTreeMap::new();
        let mut e = sym("verif_exports")? as *const CExport;
        while !(*e).name.is_null() {
            let name = CStr::from_ptr((*e).name).to_string_lossy().into_owned();
            let sig = CStr::from_ptr((*e).sig).to_string_lossy().into_owned();
            exports.insert(name, ((*e).call.unwrap(), sig));
            e = e.add(1);
        }
        let mut imports = Vec::new();
        let mut i = sym("verif_imports")? as *const CImport;
        while !(*i).name.is_null() {
            imports.push((
                CStr::from_ptr((*i).module).to_string_lossy().into_owned(),
                CStr::from_ptr((*i).name).to_string_lossy().into_owned(),
                CStr::from_ptr((*i).sig).to_string_lossy().into_owned(),
            ));
            i = i.add(1);
        }
        Ok(Loaded { exports, imports, cur_case: sym("verif_cur_case")? as *mut i32 })
    }
}

// ---------------------------------------------------------------------------------------------
// native memory access

/// Read guest memory. Arena addresses must lie inside one live block; other addresses (the
/// guest's stack and statics) are read through `process_vm_readv`, which fails instead of faulting.
pub fn safe_read(addr: u64, len: u64) -> Result<Vec<u8>, String> {
    if len == 0 {
        return Ok(vec![]);
    }
    if len > (1 << 26) {
        return Err(format!("read of {len} bytes at {addr:#x}: length out of range"));
    }
    let a = arena();
    if a.contains(addr) {
        a.check_live_range(addr, len)?;
        let mut v = vec![0u8; len as usize];
        unsafe { std::ptr::copy_nonoverlapping(addr as *const u8, v.as_mut_ptr(), len as usize) };
        return Ok(v);
    }
    let mut v = vec![0u8; len as usize];
    let local = libc::iovec { iov_base: v.as_mut_ptr() as *mut _, iov_len: len as usize };
    let remote = libc::iovec { iov_base: addr as *mut _, iov_len: len as usize };
    let n = unsafe { libc::process_vm_readv(libc::getpid(), &local, 1, &remote, 1, 0) };
    if n == len as isize {
        Ok(v)
    } else if n < 0 && matches!(std::io::Error::last_os_error().raw_os_error(), Some(libc::EPERM) | Some(libc::ENOSYS)) {
        // the probing syscall is not available here: read directly (a wild pointer then crashes the
        // child, which is still attributed to the case in flight)
        unsafe { std::ptr::copy_nonoverlapping(addr as *const u8, v.as_mut_ptr(), len as usize) };
        Ok(v)
    } else {
        Err(format!("read of {len} bytes at {addr:#x}: unmapped memory"))
    }
}

pub fn safe_write(addr: u64, data: &[u8]) -> Result<(), String> {
    if data.is_empty() {
        return Ok(());
    }
    let a = arena();
    if a.contains(addr) {
        a.check_live_range(addr, data.len() as u64)?;
        unsafe { std::ptr::copy_nonoverlapping(data.as_ptr(), addr as *mut u8, data.len()) };
        return Ok(());
    }
    let local = libc::iovec { iov_base: data.as_ptr() as *mut _, iov_len: data.len() };
    let remote = libc::iovec { iov_base: addr as *mut _, iov_len: data.len() };
    let n = unsafe { libc::process_vm_writev(libc::getpid(), &local, 1, &remote, 1, 0) };
    if n == data.len() as isize {
        Ok(())
    } else if n < 0 && matches!(std::io::Error::last_os_error().raw_os_error(), Some(libc::EPERM) | Some(libc::ENOSYS)) {
        unsafe { std::ptr::copy_nonoverlapping(data.as_ptr(), addr as *mut u8, data.len()) };
        Ok(())
    } else {
        Err(format!("write of {} bytes at {addr:#x}: unmapped memory", data.len()))
    }
}

pub struct HostMem {
    pub owner: u8,
    pub allocated: Vec<(u64, u64)>,
    pub errors: Vec<String>,
}

impl HostMem {
    pub fn new(owner: u8) -> HostMem {
        HostMem { owner, allocated: Vec::new(), errors: Vec::new() }
    }
}

impl MemRead for HostMem {
    fn read(&self, addr: u64, len: u64) -> Result<Vec<u8>, String> {
        safe_read(addr, len)
    }
}

impl NativeMem for HostMem {
    fn alloc(&mut self, size: u64, align: u64) -> u64 {
        let a = arena();
        let save = a.owner;
        a.owner = self.owner;
        let p = a.malloc(size as usize, align as usize);
        a.owner = save;
        self.allocated.push((p, size));
        p
    }
    fn write(&mut self, addr: u64, data: &[u8]) {
        if let Err(e) = safe_write(addr, data) {
            self.errors.push(e);
        }
    }
}

pub struct HostRead;
impl MemRead for HostRead {
    fn read(&self, addr: u64, len: u64) -> Result<Vec<u8>, String> {
        safe_read(addr, len)
    }
}

// ---------------------------------------------------------------------------------------------
// the host proper

struct Cur {
    func: usize,
    case: usize,
    import_calls: u32,
    /// heap buffers of the export's argument, as lowered by the host
    arg_blocks: Vec<(u64, u64)>,
    arg_snap: Vec<Vec<u8>>,
    /// heap buffers of the import's result, as lowered by the host
    res_blocks: Vec<(u64, u64)>,
    marks: u32,
}

#[derive(Default, Clone, Debug)]
pub struct Stats {
    pub cases: u64,
    pub l2_arg: u64,
    pub l2_ret: u64,
    pub import_calls: u64,
    pub post_returns: u64,
    pub host_blocks: u64,
    pub frees_checked: u64,
    pub handle_drops: u64,
    pub nontrivial: BTreeSet<String>,
}

pub struct Host {
    build: ChunkBuild,
    enc: Enc,
    loaded: Loaded,
    import_func: BTreeMap<usize, usize>,
    cur: Option<Cur>,
    pub problems: Vec<Problem>,
    pub stats: Stats,
    progress: *mut u32,
}

static mut HOST: *mut Host = std::ptr::null_mut();

fn host() -> &'static mut Host {
    unsafe { &mut *HOST }
}

extern "C" fn vt_abort() {
    let h = host();
    let (f, c) = h.cur.as_ref().map(|c| (c.func, c.case)).unwrap_or((usize::MAX, 0));
    h.problems.push(Problem { func: f, case: c, class: "trap:abort".into(), msg: "generated C called abort()".into() });
}

extern "C" fn vt_event(_kind: i32, _a: i32, _b: u64) {}

extern "C" fn vt_fail(func: i32, c: i32, wher: i32) {
    let h = host();
    let (class, msg) = match wher {
        0 => ("value:export-param", "the C implementation of the export received a value that differs from the one the host sent (level-2 literal comparison)"),
        1 => ("value:import-result", "the C caller of the import received a result that differs from the one the host returned (level-2 literal comparison)"),
        _ => ("harness:case-index", "level-2 switch reached with an unknown case index"),
    };
    h.problems.push(Problem { func: func as usize, case: c as usize, class: class.into(), msg: msg.into() });
}

extern "C" fn vt_mark(what: i32, func: i32) {
    let h = host();
    h.set_phase(10 + what as u32);
    let Some(cur) = h.cur.as_mut() else { return };
    if cur.func != func as usize {
        return;
    }
    cur.marks |= 1 << what;
    let (f, c) = (cur.func, cur.case);
    let a = arena();
    let mut probs: Vec<(String, String)> = Vec::new();
    match what {
        1 => {
            a.take_freed();
        }
        2 => {
            // the import wrapper must have left its arguments alone
            let freed: BTreeSet<u64> = a.take_freed().into_iter().map(|(p, _)| p).collect();
            for ((p, s), snap) in cur.arg_blocks.iter().zip(&cur.arg_snap) {
                if freed.contains(p) || !a.blocks.get(p).map(|b| b.live).unwrap_or(false) {
                    probs.push((
                        "own:import-arg-freed".into(),
                        format!("argument buffer {p:#x}+{s} was freed while the import was called (import arguments stay owned by the caller)"),
                    ));
                } else {
                    let now = unsafe { std::slice::from_raw_parts(*p as *const u8, *s as usize) };
                    if now != snap.as_slice() {
                        probs.push((
                            "own:import-arg-modified".into(),
                            format!("argument buffer {p:#x}+{s} was modified by the import call"),
                        ));
                    }
                }
            }
            for (p, s) in &cur.res_blocks {
                if freed.contains(p) {
                    probs.push(("own:import-result-freed".into(), format!("result buffer {p:#x}+{s} was freed by the import wrapper")));
                }
            }
            let argset: BTreeSet<u64> = cur.arg_blocks.iter().map(|(p, _)| *p).collect();
            let resset: BTreeSet<u64> = cur.res_blocks.iter().map(|(p, _)| *p).collect();
            for p in freed.iter().filter(|p| !argset.contains(p) && !resset.contains(p)) {
                probs.push(("own:import-extra-free".into(), format!("the import call freed block {p:#x} which is neither argument nor result")));
            }
        }
        3 => {
            // the *_free helper must have freed exactly the argument's buffers
            let freed: BTreeSet<u64> = a.take_freed().into_iter().map(|(p, _)| p).collect();
            let want: BTreeSet<u64> = cur.arg_blocks.iter().map(|(p, _)| *p).collect();
            for p in want.difference(&freed) {
                let s = cur.arg_blocks.iter().find(|(q, _)| q == p).unwrap().1;
                probs.push((
                    "own:free-helper:leak".into(),
                    format!("the generated free helper did not release argument buffer {p:#x}+{s}"),
                ));
            }
            for p in freed.difference(&want) {
                probs.push((
                    "own:free-helper:extra".into(),
                    format!("the generated free helper released block {p:#x}, which is not part of the argument"),
                ));
            }
            h.stats.frees_checked += want.len() as u64;
        }
        _ => {}
    }
    for (class, msg) in probs {
        h.problems.push(Problem { func: f, case: c, class, msg });
    }
}

extern "C" fn vt_dispatch(idx: i32, args: *const u64, nargs: i32, ret: *mut u64) {
    let h = host();
    h.set_phase(2);
    let args: Vec<u64> = unsafe { std::slice::from_raw_parts(args, nargs.max(0) as usize).to_vec() };
    let r = h.import_call(idx as usize, &args);
    unsafe { *ret = r };
    h.set_phase(3);
}

fn core_vals(tys: &[CoreTy], bits: &[u64]) -> Vec<CoreVal> {
    tys.iter()
        .zip(bits)
        .map(|(t, b)| CoreVal {
            ty: *t,
            bits: match t {
                CoreTy::I32 | CoreTy::F32 => b & 0xffff_ffff,
                _ => *b,
            },
        })
        .collect()
}

impl Host {
    fn set_phase(&mut self, p: u32) {
        unsafe { *self.progress.add(2) = p };
    }

    fn problem(&mut self, class: &str, msg: String) {
        let (f, c) = self.cur.as_ref().map(|c| (c.func, c.case)).unwrap_or((usize::MAX, 0));
        self.problems.push(Problem { func: f, case: c, class: class.into(), msg });
    }

    fn import_call(&mut self, idx: usize, args: &[u64]) -> u64 {
        self.stats.import_calls += 1;
        let Some(&func) = self.import_func.get(&idx) else {
            let (m, n, _) = self.loaded.imports.get(idx).cloned().unwrap_or_default();
            if n.starts_with("[resource-drop]") {
                // handles of the universe world are plain numbers (ownership is the resource world's subject)
                self.stats.handle_drops += 1;
                return 0;
            }
            self.problem("value:unexpected-import", format!("generated C called import {m} / {n}, which no function of the world needs"));
            return 0;
        };
        let Some(cur) = self.cur.as_mut() else {
            self.problem("value:unexpected-import", "import called while no export is in flight".into());
            return 0;
        };
        if cur.func != func {
            let m = format!("export {} called the import of function {}", self.build.funcs[cur.func].name, self.build.funcs[func].name);
            self.problem("value:wrong-import", m);
            return 0;
        }
        cur.import_calls += 1;
        let case = cur.case;
        let plan = self.build.funcs[func].clone();
        let (v1, v2) = (plan.values[case].clone(), plan.answer(case).clone());
        let et = enc_ty(&plan.ty, self.enc);
        let sig = abi::flatten_functype(
            abi::CanonOpts { async_: false, callback: false },
            std::slice::from_ref(&et),
            plan.has_result().then_some(&et),
            Context::Lower,
            W,
        );
        if args.len() != sig.params.len() {
            self.problem(
                "value:import-signature",
                format!("core import called with {} arguments, the canonical ABI passes {}", args.len(), sig.params.len()),
            );
            return 0;
        }
        // arguments
        let nparam = if sig.result_indirect { sig.params.len() - 1 } else { sig.params.len() };
        let flat = core_vals(&sig.params[..nparam], &args[..nparam]);
        match abi::lift_flat_values(&HostRead, W, MAX_FLAT_PARAMS, &flat, std::slice::from_ref(&et)) {
            Err(e) => {
                let class = if e.contains("freed block") { "own:import-arg-freed" } else { "value:import-param" };
                self.problem(class, format!("the host cannot lift the import's argument: {e}"));
            }
            Ok(vs) => match dec_val(&plan.ty, &vs[0], self.enc) {
                Err(e) => self.problem("value:import-param", format!("argument string is not valid: {e}")),
                Ok(got) => {
                    if !val_eq(&got, &v1) {
                        self.problem(
                            "value:import-param",
                            format!("the host sent {v1} to the export, the echoed import call delivered {got}"),
                        );
                    }
                }
            },
        }
        // answer
        if !plan.has_result() {
            return 0;
        }
        let ev2 = enc_val(&plan.ty, &v2, self.enc);
        let mut mem = HostMem::new(2);
        let mut r = 0u64;
        if sig.result_indirect {
            let retptr = args[args.len() - 1];
            if retptr % abi::alignment(&et, W) != 0 {
                self.problem("value:import-retptr", format!("return pointer {retptr:#x} is not aligned for {}", plan.ty));
            } else {
                store_n(&mut mem, W, &ev2, &et, retptr);
            }
        } else {
            let fl = lower_flat_n(&mut mem, W, &ev2, &et);
            if let Some(v) = fl.first() {
                r = v.bits;
            }
        }
        for e in std::mem::take(&mut mem.errors) {
            self.problem("value:import-retptr", format!("the host cannot write the import's result: {e}"));
        }
        self.stats.host_blocks += mem.allocated.len() as u64;
        if let Some(cur) = self.cur.as_mut() {
            cur.res_blocks = mem.allocated;
        }
        r
    }

    fn run_case(&mut self, func: usize, case: usize) {
        unsafe {
            *self.progress = func as u32;
            *self.progress.add(1) = case as u32;
        }
        self.set_phase(1);
        arm_watchdog(CASE_CPU_SECONDS);
        let plan = self.build.funcs[func].clone();
        let names = self.build.names[func].clone();
        let (v1, v2) = (plan.values[case].clone(), plan.answer(case).clone());
        let et = enc_ty(&plan.ty, self.enc);
        let ev1 = enc_val(&plan.ty, &v1, self.enc);
        let a = arena();
        a.sweep();
        a.take_faults();
        a.take_freed();
        a.take_allocated();
        let baseline = a.live_count();
        self.stats.cases += 1;

        let Some((tramp, _)) = self.loaded.exports.get(&names.export).cloned() else {
            self.cur = Some(Cur { func, case, import_calls: 0, arg_blocks: vec![], arg_snap: vec![], res_blocks: vec![], marks: 0 });
            self.problem(
                "value:export-missing",
                format!("no core export named {:?} (the name the component model assigns)", names.export),
            );
            self.cur = None;
            return;
        };
        let sig = abi::flatten_functype(
            abi::CanonOpts { async_: false, callback: false },
            std::slice::from_ref(&et),
            plan.has_result().then_some(&et),
            Context::Lift,
            W,
        );
        // lower the argument
        let mut mem = HostMem::new(1);
        let lowered = lower_values_n(&mut mem, W, MAX_FLAT_PARAMS, std::slice::from_ref(&ev1), std::slice::from_ref(&et), None);
        let mut arg_blocks = std::mem::take(&mut mem.allocated);
        let mut param_record = None;
        let args: Vec<u64> = match &lowered {
            Lowered::Flat(vs) => vs.iter().map(|v| v.bits).collect(),
            Lowered::Indirect { ptr, size, .. } => {
                if *size > 0 {
                    param_record = Some(*ptr);
                    arg_blocks.retain(|(p, _)| p != ptr);
                }
                vec![*ptr]
            }
        };
        self.stats.host_blocks += arg_blocks.len() as u64;
        let arg_snap: Vec<Vec<u8>> = arg_blocks
            .iter()
            .map(|(p, s)| unsafe { std::slice::from_raw_parts(*p as *const u8, *s as usize).to_vec() })
            .collect();
        self.cur = Some(Cur { func, case, import_calls: 0, arg_blocks: arg_blocks.clone(), arg_snap, res_blocks: vec![], marks: 0 });
        unsafe { *self.loaded.cur_case = case as i32 };
        let mut ret = [0u64; 2];
        let mut argv = args.clone();
        argv.push(0);
        self.set_phase(1);
        tramp(argv.as_ptr(), ret.as_mut_ptr());
        self.set_phase(4);

        let cur = self.cur.as_ref().unwrap();
        let (import_calls, marks, res_blocks) = (cur.import_calls, cur.marks, cur.res_blocks.clone());
        if import_calls != 1 || marks != 0b1110 {
            self.problem(
                "value:echo-incomplete",
                format!("the export did not run the echo exactly once (import calls: {import_calls}, marks: {marks:#b})"),
            );
        }
        // parameter record: owned by the callee
        let a = arena();
        let freed: BTreeSet<u64> = a.take_freed().into_iter().map(|(p, _)| p).collect();
        if let Some(p) = param_record {
            if !freed.contains(&p) {
                self.problem("own:param-record:leak", format!("the export wrapper did not free its parameter record {p:#x}"));
            }
        }
        for p in freed.iter().filter(|p| Some(**p) != param_record) {
            self.problem("own:export-return:extra-free", format!("block {p:#x} was freed between the user's return and the wrapper's return"));
        }
        // lift the result
        let lifted = if !plan.has_result() {
            Ok(enc_val(&plan.ty, &v2, self.enc))
        } else if sig.result_indirect {
            let p = ret[0];
            if p % abi::alignment(&et, W) != 0 {
                Err(format!("result pointer {p:#x} is misaligned"))
            } else {
                abi::load(&HostRead, W, p, &et)
            }
        } else {
            let flat = core_vals(&sig.results, &ret[..sig.results.len()]);
            let mut it = abi::FlatIter { vals: &flat, pos: 0 };
            abi::lift_flat(&HostRead, W, &mut it, &et)
        };
        match lifted.and_then(|v| dec_val(&plan.ty, &v, self.enc)) {
            Err(e) => {
                let class = if e.contains("freed block") { "own:export-result-freed" } else { "value:export-result" };
                self.problem(class, format!("the host cannot lift the export's result: {e}"));
            }
            Ok(got) => {
                if !val_eq(&got, &v2) {
                    self.problem(
                        "value:export-result",
                        format!("the import answered {v2}, the export returned {got}"),
                    );
                }
            }
        }
        // post-return
        self.set_phase(5);
        let post = self.loaded.exports.get(&names.post_return).cloned();
        let res_heap = !res_blocks.is_empty();
        match post {
            Some((post, _)) => {
                self.stats.post_returns += 1;
                let argv = [ret[0], 0];
                let mut r = [0u64; 2];
                post(argv.as_ptr(), r.as_mut_ptr());
            }
            None => {
                if res_heap {
                    self.problem(
                        "own:post-return:missing",
                        format!("no core export named {:?} although the returned value owns heap data", names.post_return),
                    );
                }
            }
        }
        self.set_phase(6);
        let a = arena();
        let freed: BTreeSet<u64> = a.take_freed().into_iter().map(|(p, _)| p).collect();
        let want: BTreeSet<u64> = res_blocks.iter().map(|(p, _)| *p).collect();
        if post.is_some() {
            for p in want.difference(&freed) {
                let s = res_blocks.iter().find(|(q, _)| q == p).unwrap().1;
                self.problem("own:post-return:leak", format!("post-return did not free buffer {p:#x}+{s} of the returned value"));
            }
        }
        for p in freed.difference(&want) {
            self.problem("own:post-return:extra", format!("post-return freed block {p:#x}, which is not part of the returned value"));
        }
        self.stats.frees_checked += want.len() as u64;
        a.sweep();
        let live = a.live_count();
        if live != baseline && self.problems.iter().all(|p| !(p.func == func && p.case == case && p.class.starts_with("own:"))) {
            self.problem("own:leak", format!("{} blocks are live after the call and its post-return, {baseline} before", live));
        }
        for f in a.take_faults() {
            let class = if f.starts_with("double free") {
                "alloc:double-free"
            } else if f.starts_with("free of") {
                "alloc:bad-free"
            } else if f.starts_with("buffer overrun") {
                "alloc:overrun"
            } else if f.starts_with("write after free") {
                "alloc:write-after-free"
            } else {
                "alloc:other"
            };
            self.problem(class, f);
        }
        // release what the guest legitimately left behind is not needed: quarantine, no reuse
        if !arg_blocks.is_empty() || res_heap || sig.result_indirect || sig.params_indirect {
            self.stats.nontrivial.insert(format!("{}", plan.ty));
        }
        let l2 = self.build.level2[func];
        if l2.0 {
            self.stats.l2_arg += 1;
        }
        if l2.1 {
            self.stats.l2_ret += 1;
        }
        self.cur = None;
    }
}

/// Check the tables of the shared object against the names / signatures the reference expects.
fn check_tables(build: &ChunkBuild, loaded: &Loaded, enc: Enc) -> (BTreeMap<usize, usize>, Vec<Problem>) {
    let mut problems = Vec::new();
    let mut import_func = BTreeMap::new();
    for (k, (f, n)) in build.funcs.iter().zip(&build.names).enumerate() {
        let want_i = sig_string(&expected_sig(std::slice::from_ref(&f.ty), f.result(), Context::Lower, enc));
        let want_e = sig_string(&expected_sig(std::slice::from_ref(&f.ty), f.result(), Context::Lift, enc));
        match loaded.imports.iter().position(|(m, nm, _)| *m == n.import.0 && *nm == n.import.1) {
            None => problems.push(Problem {
                func: k,
                case: 0,
                class: "value:import-missing".into(),
                msg: format!("generated C declares no core import {:?} / {:?}", n.import.0, n.import.1),
            }),
            Some(idx) => {
                import_func.insert(idx, k);
                let got = normalise_c_sig(&loaded.imports[idx].2);
                if got != want_i {
                    problems.push(Problem {
                        func: k,
                        case: 0,
                        class: "value:import-signature".into(),
                        msg: format!("core import signature is {got}, the canonical ABI flattens to {want_i}"),
                    });
                }
            }
        }
        if let Some(Some(t)) = build.free_missing.get(k) {
            problems.push(Problem {
                func: k,
                case: 0,
                class: "own:free-helper:missing".into(),
                msg: format!("the header declares no `*_free` helper for `{t}`, the export's argument type, although a value of this type owns heap data (the README promises one for every type that requires allocation)"),
            });
        }
        if let Some((_, sig)) = loaded.exports.get(&n.export) {
            let got = normalise_c_sig(sig);
            if got != want_e {
                problems.push(Problem {
                    func: k,
                    case: 0,
                    class: "value:export-signature".into(),
                    msg: format!("core export signature is {got}, the canonical ABI flattens to {want_e}"),
                });
            }
        }
    }
    (import_func, problems)
}

extern "C" fn on_signal(sig: i32) {
    let h = host();
    let out = h.outcome(Some(sig));
    vcommon::child_finish(serde_json::to_string(&out).unwrap().as_bytes());
}

impl Host {
    fn outcome(&self, crashed: Option<i32>) -> Value {
        let (f, c, ph) = unsafe { (*self.progress, *self.progress.add(1), *self.progress.add(2)) };
        json!({
            "crashed": crashed.map(|s| json!({"signal": s, "func": f, "case": c, "phase": ph})),
            "problems": self.problems.iter().map(|p| json!([p.func, p.case, p.class, p.msg])).collect::<Vec<_>>(),
            "stats": {
                "cases": self.stats.cases, "l2_arg": self.stats.l2_arg, "l2_ret": self.stats.l2_ret,
                "import_calls": self.stats.import_calls, "post_returns": self.stats.post_returns,
                "host_blocks": self.stats.host_blocks, "frees_checked": self.stats.frees_checked,
                "nontrivial": self.stats.nontrivial.iter().collect::<Vec<_>>(),
            },
        })
    }
}

pub fn vtable() -> VTable {
    VTable {
        malloc_: crate::alloc::verif_malloc,
        calloc_: crate::alloc::verif_calloc,
        realloc_: crate::alloc::verif_realloc,
        free_: crate::alloc::verif_free,
        abort_: vt_abort,
        dispatch: vt_dispatch,
        mark: vt_mark,
        fail: vt_fail,
        event: vt_event,
    }
}

/// CPU-time budget of one case / one resource history (a legitimate one needs milliseconds). It is
/// CPU time (ITIMER_PROF), so machine load cannot make a healthy case look hung. Expiry = SIGPROF,
/// reported by the crash handler as a hang of the case in flight.
pub const CASE_CPU_SECONDS: i64 = 4;

pub fn arm_watchdog(seconds: i64) {
    let t = libc::itimerval {
        it_interval: libc::timeval { tv_sec: 0, tv_usec: 0 },
        it_value: libc::timeval { tv_sec: seconds, tv_usec: 0 },
    };
    unsafe { libc::setitimer(libc::ITIMER_PROF, &t, std::ptr::null_mut()) };
}

pub fn install_signal_handlers(handler: extern "C" fn(i32)) {
    unsafe {
        // alternate stack so that a stack overflow in the guest is still reported
        let sz = 1 << 16;
        let stack = libc::mmap(
            std::ptr::null_mut(),
            sz,
            libc::PROT_READ | libc::PROT_WRITE,
            libc::MAP_PRIVATE | libc::MAP_ANONYMOUS,
            -1,
            0,
        );
        let ss = libc::stack_t { ss_sp: stack, ss_flags: 0, ss_size: sz };
        libc::sigaltstack(&ss, std::ptr::null_mut());
        for s in [libc::SIGILL, libc::SIGSEGV, libc::SIGBUS, libc::SIGFPE, libc::SIGABRT, libc::SIGTRAP, libc::SIGPROF] {
            let mut sa: libc::sigaction = std::mem::zeroed();
            sa.sa_sigaction = handler as usize;
            sa.sa_flags = libc::SA_ONSTACK | libc::SA_NODEFER;
            libc::sigaction(s, &sa, std::ptr::null_mut());
        }
    }
}

/// Body of the forked child: run every (function, case) of the chunk except the skipped ones.
/// `progress` is a shared page (func, case, phase) the parent reads after a timeout.
pub fn child_run(build: &ChunkBuild, skip_cases: &BTreeSet<(usize, usize)>, skip_funcs: &BTreeSet<usize>, progress: *mut u32) -> Vec<u8> {
    let enc = if build.cfg.utf16 { Enc::Utf16 } else { Enc::Utf8 };
    let vt: &'static VTable = Box::leak(Box::new(vtable()));
    let loaded = match load_so(&build.so, vt) {
        Ok(l) => l,
        Err(e) => return serde_json::to_vec(&json!({"machinery": e})).unwrap(),
    };
    let (import_func, problems) = check_tables(build, &loaded, enc);
    let h = Box::leak(Box::new(Host {
        build: build.clone(),
        enc,
        loaded,
        import_func,
        cur: None,
        problems,
        stats: Stats::default(),
        progress,
    }));
    unsafe { HOST = h as *mut Host };
    install_signal_handlers(on_signal);
    for f in 0..build.funcs.len() {
        if skip_funcs.contains(&f) {
            continue;
        }
        for c in 0..build.funcs[f].values.len() {
            if skip_cases.contains(&(f, c)) {
                continue;
            }
            h.run_case(f, c);
        }
    }
    arm_watchdog(0);
    serde_json::to_vec(&h.outcome(None)).unwrap()
}
