//! C11, resources: a world with exported and imported resources named `thing` and `my-thing`
//! (single-word and multi-word kebab-case), driven by all host histories up to a depth bound over
//! {construct, borrow-call method, own transfer in / out, host drop, lend, keep / release} in both
//! `--autodrop-borrows` modes, against a handle-table reference model written from the component
//! model's resource semantics.
//!
//! The host reaches the guest the way a component-model host does: every export — including the
//! destructor `<iface>#[dtor]<resource>` — is looked up by the name wit-parser's mangler assigns.
//! An export that is missing under that name is not called; for a destructor this leaves the
//! user's destructor un-run and the representation leaked, which the counters and the ledger see.

use crate::alloc::arena;
use crate::cc;
use crate::gen::{self, CConfig};
use crate::harness;
use crate::host::{arm_watchdog, install_signal_handlers, load_so, vtable, Loaded, VTable, CASE_CPU_SECONDS};
use crate::hparse::{self, CTy, Header, Proto};
use crate::world::SYNC;
use serde_json::{json, Value};
use std::collections::{BTreeMap, BTreeSet};
use std::fmt::Write;
use std::path::PathBuf;
use wit_parser::{ResourceIntrinsic, TypeDefKind, WasmExport, WasmExportKind, WasmImport, WorldItem};

pub const RES: [&str; 2] = ["thing", "my-thing"];

pub const WIT: &str = r#"package t:r;

interface imp {
  resource thing {
    constructor(v: u32);
    get: func() -> u32;
  }
  resource my-thing {
    constructor(v: u32);
    get: func() -> u32;
  }
}

interface exp {
  use imp.{thing as imp-thing, my-thing as imp-my-thing};
  resource thing {
    constructor(v: u32);
    get: func() -> u32;
  }
  resource my-thing {
    constructor(v: u32);
    get: func() -> u32;
  }
  take-thing: func(x: thing) -> u32;
  take-my-thing: func(x: my-thing) -> u32;
  consume-thing: func(x: imp-thing) -> u32;
  consume-my-thing: func(x: imp-my-thing) -> u32;
  inspect-thing: func(x: borrow<imp-thing>) -> u32;
  inspect-my-thing: func(x: borrow<imp-my-thing>) -> u32;
  acquire-thing: func(v: u32);
  acquire-my-thing: func(v: u32);
  release-thing: func() -> u32;
  release-my-thing: func() -> u32;
  return-thing: func() -> imp-thing;
  return-my-thing: func() -> imp-my-thing;
}

world w {
  import imp;
  export exp;
}
"#;

/// WIT names of the exported functions, in declaration order (= order of the header's prototypes).
pub const EXPORT_ORDER: [&str; 16] = [
    "[constructor]thing",
    "[method]thing.get",
    "[constructor]my-thing",
    "[method]my-thing.get",
    "take-thing",
    "take-my-thing",
    "consume-thing",
    "consume-my-thing",
    "inspect-thing",
    "inspect-my-thing",
    "acquire-thing",
    "acquire-my-thing",
    "release-thing",
    "release-my-thing",
    "return-thing",
    "return-my-thing",
];

#[derive(Clone, Copy, Debug, PartialEq, Eq, Hash, PartialOrd, Ord)]
pub enum ImportKind {
    ImpCtor(usize),
    ImpGet(usize),
    ImpDrop(usize),
    ExpNew(usize),
    ExpRep(usize),
    ExpDrop(usize),
}

#[derive(Clone, Debug)]
pub struct Names {
    /// WIT function name → component-model export name
    pub exports: BTreeMap<String, String>,
    pub dtor: [String; 2],
    pub imports: BTreeMap<(String, String), ImportKind>,
}

pub fn expected_names() -> Result<(wit_parser::Resolve, wit_parser::WorldId, Names), String> {
    let mut resolve = wit_parser::Resolve::default();
    let pkg = resolve.push_str("r.wit", WIT).map_err(|e| format!("{e:#}"))?;
    let world = resolve.select_world(&[pkg], Some("w")).map_err(|e| format!("{e:#}"))?;
    let ik = crate::world::iface_key(&resolve, world, false, "imp").ok_or("imp not imported")?.clone();
    let ek = crate::world::iface_key(&resolve, world, true, "exp").ok_or("exp not exported")?.clone();
    let iid = match &resolve.worlds[world].imports[&ik] {
        WorldItem::Interface { id, .. } => *id,
        _ => unreachable!(),
    };
    let eid = match &resolve.worlds[world].exports[&ek] {
        WorldItem::Interface { id, .. } => *id,
        _ => unreachable!(),
    };
    let mut exports = BTreeMap::new();
    for (n, f) in resolve.interfaces[eid].functions.iter() {
        exports.insert(
            n.clone(),
            resolve.wasm_export_name(SYNC, WasmExport::Func { interface: Some(&ek), func: f, kind: WasmExportKind::Normal }),
        );
    }
    let mut imports = BTreeMap::new();
    for (n, f) in resolve.interfaces[iid].functions.iter() {
        let mn = resolve.wasm_import_name(SYNC, WasmImport::Func { interface: Some(&ik), func: f });
        let k = RES.iter().position(|r| n.ends_with(&format!("]{r}")) || n.ends_with(&format!("]{r}.get"))).ok_or("unknown import function")?;
        imports.insert(mn, if n.starts_with("[constructor]") { ImportKind::ImpCtor(k) } else { ImportKind::ImpGet(k) });
    }
    let mut dtor = [String::new(), String::new()];
    for (k, r) in RES.iter().enumerate() {
        let find = |iface: wit_parser::InterfaceId| {
            resolve.interfaces[iface]
                .types
                .get(*r)
                .copied()
                .filter(|id| matches!(resolve.types[*id].kind, TypeDefKind::Resource))
                .ok_or_else(|| format!("resource {r} not found"))
        };
        let it = find(iid)?;
        let et = find(eid)?;
        let mn = resolve.wasm_import_name(
            SYNC,
            WasmImport::ResourceIntrinsic { interface: Some(&ik), resource: it, intrinsic: ResourceIntrinsic::ImportedDrop },
        );
        imports.insert(mn, ImportKind::ImpDrop(k));
        for (i, kind) in [
            (ResourceIntrinsic::ExportedDrop, ImportKind::ExpDrop(k)),
            (ResourceIntrinsic::ExportedNew, ImportKind::ExpNew(k)),
            (ResourceIntrinsic::ExportedRep, ImportKind::ExpRep(k)),
        ] {
            let mn = resolve.wasm_import_name(SYNC, WasmImport::ResourceIntrinsic { interface: Some(&ek), resource: et, intrinsic: i });
            imports.insert(mn, kind);
        }
        dtor[k] = resolve.wasm_export_name(SYNC, WasmExport::ResourceDtor { interface: &ek, resource: et });
    }
    Ok((resolve, world, Names { exports, dtor, imports }))
}

// ---------------------------------------------------------------------------------------------
// user code

struct ExpRes<'a> {
    own: String,
    rep_ty: String,
    new: &'a Proto,
    rep: &'a Proto,
    drop_own: &'a Proto,
    destructor: &'a Proto,
}

struct ImpRes<'a> {
    own: String,
    borrow: String,
    ctor: &'a Proto,
    get: &'a Proto,
    drop_own: &'a Proto,
    drop_borrow: Option<&'a Proto>,
    borrow_fn: &'a Proto,
}

fn resolved(h: &Header, t: &CTy) -> String {
    h.resolve(&t.base).0
}

fn find_exp<'a>(h: &'a Header, ctor: &'a Proto) -> Result<ExpRes<'a>, String> {
    let own = ctor.ret.base.clone();
    let one = |f: &dyn Fn(&Proto) -> bool, what: &str| -> Result<&'a Proto, String> {
        let v: Vec<&Proto> = h.helpers.iter().filter(|p| f(p)).collect();
        if v.len() == 1 {
            Ok(v[0])
        } else {
            Err(format!("{} helpers match `{what}` for {own}", v.len()))
        }
    };
    let new = one(&|p| p.ret.base == own && p.ret.ptr == 0 && p.params.len() == 1 && p.params[0].0.ptr == 1, "new")?;
    let rep_ty = new.params[0].0.base.clone();
    let rep = one(&|p| p.ret.base == rep_ty && p.ret.ptr == 1 && p.params.len() == 1 && p.params[0].0.base == own, "rep")?;
    let drop_own = one(&|p| p.ret.is_void() && p.params.len() == 1 && p.params[0].0.base == own && p.params[0].0.ptr == 0, "drop_own")?;
    let destructor = one(
        &|p| p.ret.is_void() && p.params.len() == 1 && p.params[0].0.base == rep_ty && p.params[0].0.ptr == 1 && p.name.ends_with("_destructor"),
        "destructor",
    )?;
    Ok(ExpRes { own, rep_ty, new, rep, drop_own, destructor })
}

fn find_imp<'a>(h: &'a Header, ctor: &'a Proto, get: &'a Proto) -> Result<ImpRes<'a>, String> {
    let own = ctor.ret.base.clone();
    let borrow = get.params.first().ok_or("get without self")?.0.base.clone();
    let pick = |f: &dyn Fn(&Proto) -> bool| -> Vec<&'a Proto> { h.helpers.iter().filter(|p| f(p)).collect() };
    let d = pick(&|p| p.ret.is_void() && p.params.len() == 1 && p.params[0].0.base == own);
    let b = pick(&|p| p.ret.is_void() && p.params.len() == 1 && p.params[0].0.base == borrow);
    let f = pick(&|p| p.ret.base == borrow && p.params.len() == 1 && p.params[0].0.base == own);
    if d.len() != 1 || f.len() != 1 || b.len() > 1 {
        return Err(format!("helpers of imported resource {own} not understood"));
    }
    Ok(ImpRes { own, borrow, ctor, get, drop_own: d[0], drop_borrow: b.first().copied(), borrow_fn: f[0] })
}

/// The user side of the resource world, written by the README's ownership rules.
pub fn resource_user_code(h: &Header, autodrop: bool) -> Result<String, String> {
    if h.exports.len() != EXPORT_ORDER.len() || h.imports.len() != 4 {
        return Err(format!("resource world: {} exported / {} imported prototypes", h.exports.len(), h.imports.len()));
    }
    for (p, n) in h.exports.iter().zip(EXPORT_ORDER) {
        let last = n.rsplit([']', '.']).next().unwrap().replace('-', "_");
        let snake = n.trim_start_matches("[constructor]").trim_start_matches("[method]").replace(['-', '.'], "_");
        if !p.name.ends_with(&snake) && !p.name.ends_with(&last) {
            return Err(format!("prototype {} does not belong to WIT function {n}", p.name));
        }
    }
    let mut o = String::new();
    writeln!(o, "enum {{ EV_REP_ALLOC = 1, EV_DTOR = 2 }};").unwrap();
    for k in 0..2 {
        let e = find_exp(h, &h.exports[2 * k])?;
        let i = find_imp(h, &h.imports[2 * k], &h.imports[2 * k + 1])?;
        let (ctor, get) = (&h.exports[2 * k], &h.exports[2 * k + 1]);
        let (take, consume, inspect, acquire, release, ret) =
            (&h.exports[4 + k], &h.exports[6 + k], &h.exports[8 + k], &h.exports[10 + k], &h.exports[12 + k], &h.exports[14 + k]);
        if resolved(h, &consume.params[0].0) != i.own || resolved(h, &inspect.params[0].0) != i.borrow || resolved(h, &ret.ret) != i.own {
            return Err("handle types of the imported resource do not line up".into());
        }
        if take.params[0].0.base != e.own {
            return Err("handle types of the exported resource do not line up".into());
        }
        let rt = &e.rep_ty;
        writeln!(o, "struct {rt} {{ uint32_t v; uint32_t magic; }};").unwrap();
        writeln!(
            o,
            "{} {{\n  {rt} *r = ({rt} *) verif_malloc(sizeof({rt}));\n  r->v = v; r->magic = 0x7e57;\n  verif_vt.event(EV_REP_ALLOC, {k}, (uint64_t)(uintptr_t) r);\n  return {}(r);\n}}",
            ctor.text(),
            e.new.name
        )
        .unwrap();
        writeln!(o, "{} {{ return self->v; }}", get.text()).unwrap();
        writeln!(
            o,
            "{} {{\n  verif_vt.event(EV_DTOR, {k}, (uint64_t)(uintptr_t) rep);\n  verif_free(rep);\n}}",
            e.destructor.text()
        )
        .unwrap();
        writeln!(
            o,
            "{} {{\n  {rt} *r = {}(x);\n  uint32_t v = r->v;\n  {}(x);\n  return v;\n}}",
            take.text(),
            e.rep.name,
            e.drop_own.name
        )
        .unwrap();
        writeln!(
            o,
            "{} {{\n  uint32_t v = {}({}(x));\n  {}(x);\n  return v;\n}}",
            consume.text(),
            i.get.name,
            i.borrow_fn.name,
            i.drop_own.name
        )
        .unwrap();
        let drop_b = if autodrop {
            if i.drop_borrow.is_some() {
                return Err("autodrop build still declares drop_borrow".into());
            }
            String::new()
        } else {
            format!("  {}(x);\n", i.drop_borrow.ok_or("drop_borrow helper missing")?.name)
        };
        writeln!(o, "{} {{\n  uint32_t v = {}(x);\n{drop_b}  return v;\n}}", inspect.text(), i.get.name).unwrap();
        writeln!(o, "static {} verif_kept_{k};", i.own).unwrap();
        writeln!(o, "{} {{ verif_kept_{k} = {}(v); }}", acquire.text(), i.ctor.name).unwrap();
        writeln!(
            o,
            "{} {{\n  uint32_t v = {}({}(verif_kept_{k}));\n  {}(verif_kept_{k});\n  return v;\n}}",
            release.text(),
            i.get.name,
            i.borrow_fn.name,
            i.drop_own.name
        )
        .unwrap();
        writeln!(o, "{} {{ return verif_kept_{k}; }}", ret.text()).unwrap();
    }
    Ok(o)
}

pub struct ResBuild {
    pub so: PathBuf,
    pub autodrop: bool,
    pub names: Names,
}

pub fn prepare(autodrop: bool, clang: &str) -> Result<ResBuild, String> {
    let (resolve, world, names) = expected_names()?;
    let cfg = CConfig { no_sig_flattening: false, autodrop, utf16: false };
    let g = gen::generate(&resolve, world, &cfg)?;
    let hdr = hparse::parse_header(&g.h).map_err(|e| format!("header: {e}"))?;
    let src = hparse::scan_c(&g.c).map_err(|e| format!("source scan: {e}"))?;
    let mut user = String::new();
    writeln!(user, "#include \"{}\"", g.h_name).unwrap();
    user.push_str(harness::PRELUDE);
    user.push_str(&harness::import_shims(&src)?);
    user.push_str(&harness::export_table(&src)?);
    user.push_str(&resource_user_code(&hdr, autodrop)?);
    let files = [(g.c_name.as_str(), g.c.as_str()), (g.h_name.as_str(), g.h.as_str()), ("user.c", user.as_str()), ("t.wit", WIT)];
    let built = cc::build_so(clang, &files, clang)?;
    Ok(ResBuild { so: built.so, autodrop, names })
}

// ---------------------------------------------------------------------------------------------
// histories

#[derive(Clone, Copy, Debug, PartialEq, Eq, Hash, PartialOrd, Ord)]
pub enum Act {
    /// host constructs an exported resource (gets the own handle)
    ENew(usize),
    /// host calls a method with a borrow of an exported resource it owns
    EGet(usize),
    /// host drops its own handle of an exported resource → destructor
    EDrop(usize),
    /// host transfers its own handle back into the guest, which drops it
    ETake(usize),
    /// host gives an own handle of an imported resource; guest uses and drops it
    IGive(usize),
    /// host lends a borrow of an imported resource for one call
    ILend(usize),
    /// guest constructs an imported resource and keeps the own handle
    IAcquire(usize),
    /// guest drops the kept handle
    IRelease(usize),
    /// guest transfers the kept own handle out to the host
    IReturn(usize),
}

impl Act {
    pub fn name(&self) -> String {
        let (a, k) = match self {
            Act::ENew(k) => ("exp-new", k),
            Act::EGet(k) => ("exp-borrow-call", k),
            Act::EDrop(k) => ("exp-host-drop", k),
            Act::ETake(k) => ("exp-own-in", k),
            Act::IGive(k) => ("imp-own-in", k),
            Act::ILend(k) => ("imp-lend", k),
            Act::IAcquire(k) => ("imp-construct-keep", k),
            Act::IRelease(k) => ("imp-guest-drop", k),
            Act::IReturn(k) => ("imp-own-out", k),
        };
        format!("{a}({})", RES[*k])
    }
    pub fn parse(s: &str) -> Option<Act> {
        let (a, r) = s.strip_suffix(')')?.split_once('(')?;
        let k = RES.iter().position(|x| *x == r)?;
        Some(match a {
            "exp-new" => Act::ENew(k),
            "exp-borrow-call" => Act::EGet(k),
            "exp-host-drop" => Act::EDrop(k),
            "exp-own-in" => Act::ETake(k),
            "imp-own-in" => Act::IGive(k),
            "imp-lend" => Act::ILend(k),
            "imp-construct-keep" => Act::IAcquire(k),
            "imp-guest-drop" => Act::IRelease(k),
            "imp-own-out" => Act::IReturn(k),
            _ => return None,
        })
    }
    fn res(&self) -> usize {
        match self {
            Act::ENew(k) | Act::EGet(k) | Act::EDrop(k) | Act::ETake(k) | Act::IGive(k) | Act::ILend(k) | Act::IAcquire(k) | Act::IRelease(k) | Act::IReturn(k) => *k,
        }
    }
}

/// Abstract model state used to enumerate the *enabled* histories.
#[derive(Clone, Copy, Debug, PartialEq, Eq, Hash, PartialOrd, Ord, Default)]
pub struct Abs {
    pub host_owned: [u8; 2],
    pub kept: [bool; 2],
}

pub const MAX_HOST_OWNED: u8 = 2;

pub fn enabled(s: &Abs) -> Vec<Act> {
    let mut v = Vec::new();
    for k in 0..2 {
        if s.host_owned[k] < MAX_HOST_OWNED {
            v.push(Act::ENew(k));
        }
        if s.host_owned[k] > 0 {
            v.extend([Act::EGet(k), Act::EDrop(k), Act::ETake(k)]);
        }
        v.extend([Act::IGive(k), Act::ILend(k)]);
        if s.kept[k] {
            v.extend([Act::IRelease(k), Act::IReturn(k)]);
        } else {
            v.push(Act::IAcquire(k));
        }
    }
    v
}

pub fn step_abs(s: &Abs, a: Act) -> Abs {
    let mut n = *s;
    match a {
        Act::ENew(k) => n.host_owned[k] += 1,
        Act::EDrop(k) | Act::ETake(k) => n.host_owned[k] -= 1,
        Act::IAcquire(k) => n.kept[k] = true,
        Act::IRelease(k) | Act::IReturn(k) => n.kept[k] = false,
        _ => {}
    }
    n
}

/// All enabled histories of length 1..=depth, shortest first (breadth-first order).
pub fn histories(depth: usize) -> (Vec<Vec<Act>>, usize) {
    let mut out: Vec<Vec<Act>> = Vec::new();
    let mut frontier: Vec<(Vec<Act>, Abs)> = vec![(vec![], Abs::default())];
    let mut states: BTreeSet<Abs> = BTreeSet::new();
    states.insert(Abs::default());
    for _ in 0..depth {
        let mut next = Vec::new();
        for (h, s) in &frontier {
            for a in enabled(s) {
                let mut h2 = h.clone();
                h2.push(a);
                let s2 = step_abs(s, a);
                states.insert(s2);
                out.push(h2.clone());
                next.push((h2, s2));
            }
        }
        frontier = next;
    }
    (out, states.len())
}

// ---------------------------------------------------------------------------------------------
// the resource host

#[derive(Clone, Debug)]
struct GEntry {
    exported: bool,
    res: usize,
    own: bool,
    /// guest pointer (exported resource) or host object id (imported resource)
    rep: u64,
}

#[derive(Clone, Debug, Default)]
struct RepInfo {
    res: usize,
    dtor_runs: u32,
}

#[derive(Clone, Debug)]
struct HostObj {
    res: usize,
    v: u32,
    dtor_runs: u32,
}

pub struct RHost {
    loaded: Loaded,
    names: Names,
    kinds: Vec<Option<ImportKind>>,
    gtab: BTreeMap<u32, GEntry>,
    next_handle: u32,
    host_owned: [Vec<(u64, u32)>; 2],
    objs: Vec<HostObj>,
    kept: [Option<(u32, u32)>; 2],
    reps: BTreeMap<u64, RepInfo>,
    new_handles: Vec<u32>,
    pub problems: Vec<(String, String)>,
    pub calls: u64,
    pub dtor_runs_seen: u64,
    progress: *mut u32,
}

static mut RHOST: *mut RHost = std::ptr::null_mut();
fn rhost() -> &'static mut RHost {
    unsafe { &mut *RHOST }
}

extern "C" fn r_event(kind: i32, a: i32, b: u64) {
    let h = rhost();
    match kind {
        1 => {
            h.reps.insert(b, RepInfo { res: a as usize, dtor_runs: 0 });
        }
        2 => {
            h.dtor_runs_seen += 1;
            let info = h.reps.get_mut(&b).map(|r| {
                r.dtor_runs += 1;
                (r.res, r.dtor_runs)
            });
            match info {
                Some((res, runs)) => {
                    if runs > 1 {
                        h.problem("resource:dtor-ran-twice", res, format!("user destructor ran {runs} times for representation {b:#x}"));
                    }
                    if a as usize != res {
                        h.problem("resource:dtor-wrong-resource", res, format!("destructor of {} ran for a representation of {}", RES[a as usize], RES[res]));
                    }
                }
                None => h.problem("resource:dtor-of-unknown-rep", a as usize, format!("user destructor ran for {b:#x}, which no constructor allocated")),
            }
        }
        _ => {}
    }
}

extern "C" fn r_dispatch(idx: i32, args: *const u64, nargs: i32, ret: *mut u64) {
    let h = rhost();
    let args: Vec<u64> = unsafe { std::slice::from_raw_parts(args, nargs.max(0) as usize).to_vec() };
    let r = h.import_call(idx as usize, &args);
    unsafe { *ret = r };
}

extern "C" fn r_mark(_: i32, _: i32) {}
extern "C" fn r_fail(_: i32, _: i32, _: i32) {}

impl RHost {
    fn problem(&mut self, class: &str, res: usize, msg: String) {
        self.problems.push((format!("{class}:{}", RES[res]), msg));
    }

    fn fresh(&mut self, e: GEntry) -> u32 {
        let h = self.next_handle;
        self.next_handle += 1;
        self.gtab.insert(h, e);
        h
    }

    fn import_call(&mut self, idx: usize, args: &[u64]) -> u64 {
        let Some(kind) = self.kinds.get(idx).copied().flatten() else {
            let (m, n, _) = self.loaded.imports.get(idx).cloned().unwrap_or_default();
            self.problems.push(("resource:unexpected-import".into(), format!("generated C called import {m} / {n}, which the world does not have")));
            return 0;
        };
        let a0 = args.first().copied().unwrap_or(0);
        match kind {
            ImportKind::ImpCtor(k) => {
                self.objs.push(HostObj { res: k, v: a0 as u32, dtor_runs: 0 });
                let id = (self.objs.len() - 1) as u64;
                self.fresh(GEntry { exported: false, res: k, own: true, rep: id }) as u64
            }
            ImportKind::ImpGet(k) => match self.gtab.get(&(a0 as u32)) {
                Some(e) if !e.exported && e.res == k => self.objs[e.rep as usize].v as u64,
                _ => {
                    self.problem("resource:method-on-invalid-handle", k, format!("method called with handle {a0}, which is not a live handle of this resource"));
                    0xdead
                }
            },
            ImportKind::ImpDrop(k) => {
                match self.gtab.get(&(a0 as u32)).cloned() {
                    Some(e) if !e.exported && e.res == k => {
                        self.gtab.remove(&(a0 as u32));
                        if e.own {
                            self.objs[e.rep as usize].dtor_runs += 1;
                        }
                    }
                    _ => self.problem("resource:drop-of-invalid-handle", k, format!("[resource-drop] of handle {a0}, which is not a live handle of this imported resource (double drop?)")),
                }
                0
            }
            ImportKind::ExpNew(k) => {
                let rep = a0 & 0xffff_ffff;
                let h = self.fresh(GEntry { exported: true, res: k, own: true, rep });
                self.new_handles.push(h);
                h as u64
            }
            ImportKind::ExpRep(k) => match self.gtab.get(&(a0 as u32)) {
                Some(e) if e.exported && e.res == k => e.rep,
                _ => {
                    self.problem("resource:rep-of-invalid-handle", k, format!("[resource-rep] of handle {a0}, which is not a live handle of this resource"));
                    0
                }
            },
            ImportKind::ExpDrop(k) => {
                match self.gtab.get(&(a0 as u32)).cloned() {
                    Some(e) if e.exported && e.res == k && e.own => {
                        self.gtab.remove(&(a0 as u32));
                        self.run_dtor(k, e.rep);
                    }
                    _ => self.problem("resource:drop-of-invalid-handle", k, format!("[resource-drop] of handle {a0}, which is not a live own handle of this exported resource")),
                }
                0
            }
        }
    }

    /// What a component-model host does when the last own handle of a guest-defined resource
    /// goes away: call the destructor the guest exports under `<iface>#[dtor]<resource>`.
    fn run_dtor(&mut self, k: usize, rep: u64) {
        let name = self.names.dtor[k].clone();
        match self.loaded.exports.get(&name).cloned() {
            Some((f, _)) => {
                let before = self.reps.get(&rep).map(|r| r.dtor_runs).unwrap_or(0);
                let a = [rep, 0];
                let mut r = [0u64; 2];
                self.calls += 1;
                f(a.as_ptr(), r.as_mut_ptr());
                let after = self.reps.get(&rep).map(|r| r.dtor_runs).unwrap_or(0);
                if after != before + 1 {
                    self.problem("resource:dtor-not-run", k, format!("the exported destructor was called for {rep:#x} but the user's destructor did not run"));
                }
            }
            None => {
                let found: Vec<String> = self.loaded.exports.keys().filter(|n| n.contains("[dtor]")).cloned().collect();
                self.problem(
                    "resource:dtor-export-missing",
                    k,
                    format!("no core export named {name:?}: a host dropping the last own handle cannot reach the destructor, the user's destructor never runs and the representation leaks (destructor exports present: {found:?})"),
                );
            }
        }
    }

    fn call(&mut self, wit_name: &str, args: &[u64]) -> Option<u64> {
        let name = self.names.exports.get(wit_name).cloned().unwrap_or_default();
        let Some((f, _)) = self.loaded.exports.get(&name).cloned() else {
            self.problems.push((format!("resource:export-missing:{wit_name}"), format!("no core export named {name:?}")));
            return None;
        };
        let mut a = args.to_vec();
        a.push(0);
        let mut r = [0u64; 2];
        self.calls += 1;
        f(a.as_ptr(), r.as_mut_ptr());
        Some(r[0])
    }

    fn expect_val(&mut self, what: &str, k: usize, got: Option<u64>, want: u32) {
        if let Some(g) = got {
            if g as u32 != want {
                self.problem("resource:wrong-value", k, format!("{what} returned {} instead of {want}", g as u32));
            }
        }
    }

    fn step(&mut self, a: Act, v: u32) {
        let n = RES[a.res()];
        match a {
            Act::ENew(k) => {
                self.new_handles.clear();
                let r = self.call(&format!("[constructor]{n}"), &[v as u64]);
                if let Some(h) = r {
                    match self.gtab.get(&(h as u32)).cloned() {
                        Some(e) if e.exported && e.res == k && e.own && self.new_handles == vec![h as u32] => {
                            // lifting `own` moves the handle out of the guest's table
                            self.gtab.remove(&(h as u32));
                            self.host_owned[k].push((e.rep, v));
                        }
                        _ => self.problem("resource:constructor-result", k, format!("constructor returned {h}, not the fresh own handle from [resource-new] ({:?})", self.new_handles)),
                    }
                }
            }
            Act::EGet(k) => {
                if let Some((rep, v0)) = self.host_owned[k].first().copied() {
                    let r = self.call(&format!("[method]{n}.get"), &[rep]);
                    self.expect_val("method through a borrow", k, r, v0);
                }
            }
            Act::EDrop(k) => {
                if !self.host_owned[k].is_empty() {
                    let (rep, _) = self.host_owned[k].remove(0);
                    self.run_dtor(k, rep);
                }
            }
            Act::ETake(k) => {
                if !self.host_owned[k].is_empty() {
                    let (rep, v0) = self.host_owned[k].remove(0);
                    let h = self.fresh(GEntry { exported: true, res: k, own: true, rep });
                    let r = self.call(&format!("take-{n}"), &[h as u64]);
                    self.expect_val("own-in function", k, r, v0);
                    if self.gtab.remove(&h).is_some() {
                        self.problem("resource:own-not-dropped", k, "the guest kept an own handle it was documented to drop".into());
                    }
                }
            }
            Act::IGive(k) => {
                self.objs.push(HostObj { res: k, v, dtor_runs: 0 });
                let id = self.objs.len() - 1;
                let h = self.fresh(GEntry { exported: false, res: k, own: true, rep: id as u64 });
                let r = self.call(&format!("consume-{n}"), &[h as u64]);
                self.expect_val("function consuming an imported resource", k, r, v);
                if self.gtab.remove(&h).is_some() || self.objs[id].dtor_runs != 1 {
                    self.problem("resource:imported-own-not-dropped", k, format!("own handle given to the guest was dropped {} times", self.objs[id].dtor_runs));
                }
            }
            Act::ILend(k) => {
                self.objs.push(HostObj { res: k, v, dtor_runs: 0 });
                let id = self.objs.len() - 1;
                let h = self.fresh(GEntry { exported: false, res: k, own: false, rep: id as u64 });
                let r = self.call(&format!("inspect-{n}"), &[h as u64]);
                self.expect_val("function borrowing an imported resource", k, r, v);
                if self.gtab.remove(&h).is_some() {
                    self.problem("resource:borrow-not-dropped", k, "a borrow handle lent for the call is still in the guest's table when the call returns (a host traps here)".into());
                }
            }
            Act::IAcquire(k) => {
                let before: BTreeSet<u32> = self.gtab.keys().copied().collect();
                self.call(&format!("acquire-{n}"), &[v as u64]);
                let new: Vec<u32> = self.gtab.keys().copied().filter(|h| !before.contains(h)).collect();
                if new.len() == 1 {
                    self.kept[k] = Some((new[0], v));
                } else {
                    self.problem("resource:imported-constructor", k, format!("guest-side construction left {} new handles", new.len()));
                }
            }
            Act::IRelease(k) => {
                if let Some((h, v0)) = self.kept[k].take() {
                    let id = self.gtab.get(&h).map(|e| e.rep as usize);
                    let r = self.call(&format!("release-{n}"), &[]);
                    self.expect_val("guest-side use of a kept handle", k, r, v0);
                    if self.gtab.remove(&h).is_some() || id.map(|i| self.objs[i].dtor_runs) != Some(1) {
                        self.problem("resource:imported-own-not-dropped", k, "kept own handle was not dropped exactly once".into());
                    }
                }
            }
            Act::IReturn(k) => {
                if let Some((h, _)) = self.kept[k].take() {
                    let r = self.call(&format!("return-{n}"), &[]);
                    match r {
                        Some(g) if g as u32 == h && self.gtab.get(&h).map(|e| e.own && !e.exported && e.res == k) == Some(true) => {
                            self.gtab.remove(&h);
                        }
                        Some(g) => self.problem("resource:own-out", k, format!("function returning an own handle returned {g}, expected the live handle {h}")),
                        None => {}
                    }
                }
            }
        }
    }

    /// Run one history from a fresh state, then bring everything to quiescence and take the census.
    pub fn run_history(&mut self, hist: &[Act]) {
        let a = arena();
        a.sweep();
        a.take_faults();
        let baseline = a.live_count();
        self.gtab.clear();
        self.next_handle = 1;
        self.host_owned = [vec![], vec![]];
        self.objs.clear();
        self.kept = [None, None];
        self.reps.clear();
        for (i, act) in hist.iter().enumerate() {
            unsafe { *self.progress.add(1) = i as u32 };
            self.step(*act, 100 + 7 * i as u32 + act.res() as u32);
        }
        unsafe { *self.progress.add(1) = 99 };
        // quiescence: the guest releases what it keeps, the host drops what it owns
        for k in 0..2 {
            if self.kept[k].is_some() {
                self.step(Act::IRelease(k), 0);
            }
            while !self.host_owned[k].is_empty() {
                self.step(Act::EDrop(k), 0);
            }
        }
        // census
        let reps: Vec<(u64, RepInfo)> = self.reps.iter().map(|(a, r)| (*a, r.clone())).collect();
        for (rep, r) in reps {
            if r.dtor_runs != 1 && !self.problems.iter().any(|(c, _)| c.starts_with("resource:dtor-export-missing")) {
                self.problem("resource:dtor-count", r.res, format!("user destructor ran {} times for {rep:#x} (every representation was dropped exactly once by the history)", r.dtor_runs));
            }
        }
        if !self.gtab.is_empty() {
            let e = self.gtab.values().next().unwrap().clone();
            self.problem("resource:handle-leak", e.res, format!("{} handles are left in the guest's table at quiescence", self.gtab.len()));
        }
        let a = arena();
        a.sweep();
        let live = a.live_count();
        if live != baseline {
            let missing = self.problems.iter().any(|(c, _)| c.starts_with("resource:dtor-export-missing"));
            if !missing {
                self.problems.push(("resource:rep-leak".into(), format!("{} blocks live at quiescence, {baseline} before the history", live)));
            }
        }
        for f in a.take_faults() {
            self.problems.push(("alloc:resource-world".into(), f));
        }
        // the host reclaims what the guest leaked, so that every history starts from an empty arena
        for (p, _) in a.live() {
            a.free(p);
        }
        a.take_faults();
        a.take_freed();
        a.take_allocated();
        a.reset();
    }
}

extern "C" fn r_on_signal(sig: i32) {
    let h = rhost();
    let (hi, step) = unsafe { (*h.progress, *h.progress.add(1)) };
    let out = json!({"crashed": {"signal": sig, "history": hi, "step": step}});
    vcommon::child_finish(serde_json::to_string(&out).unwrap().as_bytes());
}

/// Child body: run histories `[from, to)` of `hists`; returns per-history problems.
pub fn child_run(b: &ResBuild, hists: &[Vec<Act>], skip: &BTreeSet<usize>, progress: *mut u32) -> Vec<u8> {
    let mut vt: VTable = vtable();
    vt.dispatch = r_dispatch;
    vt.event = r_event;
    vt.mark = r_mark;
    vt.fail = r_fail;
    let vt: &'static VTable = Box::leak(Box::new(vt));
    let loaded = match load_so(&b.so, vt) {
        Ok(l) => l,
        Err(e) => return serde_json::to_vec(&json!({"machinery": e})).unwrap(),
    };
    let kinds: Vec<Option<ImportKind>> =
        loaded.imports.iter().map(|(m, n, _)| b.names.imports.get(&(m.clone(), n.clone())).copied()).collect();
    let mut missing = Vec::new();
    for ((m, n), k) in &b.names.imports {
        if !loaded.imports.iter().any(|(a, c, _)| a == m && c == n) {
            missing.push(format!("{m} / {n} ({k:?})"));
        }
    }
    let h = Box::leak(Box::new(RHost {
        loaded,
        names: b.names.clone(),
        kinds,
        gtab: BTreeMap::new(),
        next_handle: 1,
        host_owned: [vec![], vec![]],
        objs: vec![],
        kept: [None, None],
        reps: BTreeMap::new(),
        new_handles: vec![],
        problems: vec![],
        calls: 0,
        dtor_runs_seen: 0,
        progress,
    }));
    unsafe { RHOST = h as *mut RHost };
    install_signal_handlers(r_on_signal);
    // per problem key: (first = shortest history index, message, count)
    let mut out: BTreeMap<String, (usize, String, u64)> = BTreeMap::new();
    let mut outcomes: BTreeSet<String> = BTreeSet::new();
    for (i, hist) in hists.iter().enumerate() {
        if skip.contains(&i) {
            continue;
        }
        unsafe { *progress = i as u32 };
        h.problems.clear();
        arm_watchdog(CASE_CPU_SECONDS);
        let (c0, d0) = (h.calls, h.dtor_runs_seen);
        h.run_history(hist);
        outcomes.insert(format!("calls={} dtors={} problems={}", h.calls - c0, h.dtor_runs_seen - d0, h.problems.len()));
        for (c, m) in &h.problems {
            let e = out.entry(c.clone()).or_insert((i, m.clone(), 0));
            e.2 += 1;
            if hist.len() < hists[e.0].len() {
                e.0 = i;
                e.1 = m.clone();
            }
        }
    }
    arm_watchdog(0);
    let out: Vec<Value> = out.into_iter().map(|(c, (i, m, n))| json!([i, c, m, n])).collect();
    serde_json::to_vec(&json!({"problems": out, "calls": h.calls, "dtor_runs": h.dtor_runs_seen,
                               "imports_missing": missing, "outcomes": outcomes.into_iter().collect::<Vec<_>>()}))
    .unwrap()
}

/// Run all histories of one build in forked children (crash ⇒ recorded, history skipped, rerun).
pub fn run_build(b: &ResBuild, hists: &[Vec<Act>], timeout_ms: u64) -> Value {
    let progress = unsafe {
        libc::mmap(std::ptr::null_mut(), 4096, libc::PROT_READ | libc::PROT_WRITE, libc::MAP_SHARED | libc::MAP_ANONYMOUS, -1, 0) as *mut u32
    };
    let mut skip = BTreeSet::new();
    let mut crashes = Vec::new();
    let mut result = json!(null);
    let mut machinery: Option<String> = None;
    for _ in 0..60 {
        unsafe {
            *progress = u32::MAX;
            *progress.add(1) = 0;
        }
        let out = vcommon::isolated(timeout_ms, || child_run(b, hists, &skip, progress));
        let (hi, step) = unsafe { (*progress as usize, *progress.add(1)) };
        let what = match out {
            vcommon::Outcome::Ok(bytes) => match serde_json::from_slice::<Value>(&bytes) {
                Ok(v) if v.get("machinery").is_some() => {
                    machinery = Some(v["machinery"].as_str().unwrap_or("?").to_string());
                    break;
                }
                Ok(v) if v.get("crashed").is_none() => {
                    result = v;
                    break;
                }
                Ok(v) => format!("signal {}", v["crashed"]["signal"]),
                Err(e) => {
                    machinery = Some(format!("child result unreadable: {e}"));
                    break;
                }
            },
            vcommon::Outcome::Timeout => "timeout".into(),
            o => o.describe(),
        };
        if hi == u32::MAX as usize {
            machinery = Some(format!("resource child died before the first history: {what}"));
            break;
        }
        crashes.push(json!({"history": hi, "step": step, "what": what}));
        skip.insert(hi);
    }
    unsafe { libc::munmap(progress as *mut _, 4096) };
    if result.is_null() && machinery.is_none() {
        machinery = Some("resource histories did not finish after 60 restarts".into());
    }
    json!({"result": result, "crashes": crashes, "machinery": machinery})
}
