//! E4 c-e2e: generated C bindings run natively (x86-64, pointer width 8) against a mock
//! component-model host; every value and every heap effect is judged by `refabi`.
pub use refabi::{abi, ty};
/// Additive extension of `refabi` (native lowering, utf16). The file lives in the refabi crate;
/// it is compiled here so that no existing refabi file had to be edited.
#[path = "../../refabi/src/native_c.rs"]
pub mod native_c;

pub mod alloc;
pub mod cc;
pub mod check;
pub mod engine;
pub mod gen;
pub mod harness;
pub mod host;
pub mod hparse;
pub mod resources;
pub mod world;
