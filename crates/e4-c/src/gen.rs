//! Running the real C generator in-process.
use wit_parser::{Resolve, WorldId};

#[derive(Clone, Copy, Debug, PartialEq, Eq, Hash, PartialOrd, Ord)]
pub struct CConfig {
    pub no_sig_flattening: bool,
    pub autodrop: bool,
    pub utf16: bool,
}

impl CConfig {
    pub fn name(&self) -> String {
        let base = if self.no_sig_flattening {
            "no-sig-flattening"
        } else if self.autodrop {
            "autodrop"
        } else {
            "default"
        };
        format!("{base}/{}", if self.utf16 { "utf16" } else { "utf8" })
    }
    pub fn from_name(n: &str) -> Option<CConfig> {
        let (b, e) = n.split_once('/')?;
        if !["default", "no-sig-flattening", "autodrop"].contains(&b) || !["utf8", "utf16"].contains(&e) {
            return None;
        }
        Some(CConfig { no_sig_flattening: b == "no-sig-flattening", autodrop: b == "autodrop", utf16: e == "utf16" })
    }
    pub const DEFAULT: CConfig = CConfig { no_sig_flattening: false, autodrop: false, utf16: false };
    /// {default, --no-sig-flattening, --autodrop-borrows=yes} x {utf8, utf16}
    pub fn all() -> Vec<CConfig> {
        let mut v = Vec::new();
        for utf16 in [false, true] {
            for k in 0..3 {
                v.push(CConfig { no_sig_flattening: k == 1, autodrop: k == 2, utf16 });
            }
        }
        v
    }
}

pub struct Generated {
    pub c: String,
    pub h: String,
    pub c_name: String,
    pub h_name: String,
}

pub fn generate(resolve: &Resolve, world: WorldId, cfg: &CConfig) -> Result<Generated, String> {
    let mut resolve = resolve.clone();
    let mut opts = wit_bindgen_c::Opts::default();
    opts.no_sig_flattening = cfg.no_sig_flattening;
    opts.no_object_file = true;
    if cfg.autodrop {
        opts.autodrop_borrows = wit_bindgen_c::Enabled::Yes;
    }
    if cfg.utf16 {
        opts.string_encoding = wit_component::StringEncoding::UTF16;
    }
    let r = vcommon::catch(move || {
        let mut files = wit_bindgen_core::Files::default();
        let mut g = opts.build();
        g.generate(&mut resolve, world, &mut files).map(|_| {
            files.iter().map(|(n, b)| (n.to_string(), b.to_vec())).collect::<Vec<_>>()
        })
    });
    let files = match r {
        Err(p) => return Err(format!("generator panicked: {p}")),
        Ok(Err(e)) => return Err(format!("generator error: {e:#}")),
        Ok(Ok(f)) => f,
    };
    let mut c = None;
    let mut h = None;
    for (n, b) in files {
        let s = String::from_utf8_lossy(&b).into_owned();
        if n.ends_with(".c") {
            c = Some((n, s));
        } else if n.ends_with(".h") {
            h = Some((n, s));
        }
    }
    match (c, h) {
        (Some((cn, c)), Some((hn, h))) => Ok(Generated { c, h, c_name: cn, h_name: hn }),
        _ => Err("generator did not produce a .c and a .h".into()),
    }
}
