//! Generator of `user.c`: the user side of the generated bindings plus the native glue.
//!
//! * **level 1** (every function): `exports_<ns>_f(args…, outs…)` forwards to its import twin
//!   `<ns>_f` with pointer casts, then frees its owned arguments with the `*_free` helper the
//!   header declares for the argument's type;
//! * **level 2** (every type the header parser understands): before forwarding, the received C
//!   value is compared field by field with a C literal generated from the reference value of the
//!   case in flight, and after the import returns, the received result likewise;
//! * definitions of every core import symbol (funnelled into the host's `dispatch`);
//! * a table of the core exports keyed by **component-model export name** with uniform
//!   trampolines;
//! * `malloc` / `realloc` / `free` / `calloc` / `abort` replacements forwarding to the host.

use crate::gen::CConfig;
use crate::hparse::{core_class, core_sig, CSource, CTy, Field, Header, Proto, TypeDef};
use crate::ty::{Ty, Val};
use crate::world::FuncPlan;
use std::fmt::Write;

pub const PRELUDE: &str = r#"
#include <stdint.h>
#include <stddef.h>
#include <stdbool.h>
#include <string.h>

struct verif_vtable {
  void *(*malloc_)(size_t);
  void *(*calloc_)(size_t, size_t);
  void *(*realloc_)(void *, size_t);
  void (*free_)(void *);
  void (*abort_)(void);
  void (*dispatch)(int idx, const uint64_t *args, int nargs, uint64_t *ret);
  void (*mark)(int what, int func);
  void (*fail)(int func, int c, int where);
  void (*event)(int kind, int a, uint64_t b);
};
static struct verif_vtable verif_vt;
int verif_cur_case;
void verif_init(const struct verif_vtable *vt) { verif_vt = *vt; }

void *verif_malloc(size_t n) { return verif_vt.malloc_(n); }
void *verif_calloc(size_t n, size_t m) { return verif_vt.calloc_(n, m); }
void *verif_realloc(void *p, size_t n) { return verif_vt.realloc_(p, n); }
void verif_free(void *p) { verif_vt.free_(p); }
void verif_abort(void) { verif_vt.abort_(); __builtin_trap(); }

static inline uint32_t verif_f32_bits(float f) { uint32_t u; memcpy(&u, &f, 4); return u; }
static inline uint64_t verif_f64_bits(double f) { uint64_t u; memcpy(&u, &f, 8); return u; }
static inline float verif_bits_f32(uint64_t b) { uint32_t u = (uint32_t) b; float f; memcpy(&f, &u, 4); return f; }
static inline double verif_bits_f64(uint64_t b) { double f; memcpy(&f, &b, 8); return f; }
static inline bool verif_nan32(float f) { return (verif_f32_bits(f) & 0x7f800000u) == 0x7f800000u && (verif_f32_bits(f) & 0x007fffffu) != 0; }
static inline bool verif_nan64(double f) { return (verif_f64_bits(f) & 0x7ff0000000000000ull) == 0x7ff0000000000000ull && (verif_f64_bits(f) & 0x000fffffffffffffull) != 0; }
static inline bool verif_memeq(const void *a, const void *b, size_t n) { return n == 0 || memcmp(a, b, n) == 0; }

struct verif_export { const char *name; void (*call)(const uint64_t *a, uint64_t *r); const char *sig; };
struct verif_import { const char *module; const char *name; const char *sig; };
"#;

pub struct Harness {
    pub user_c: String,
    /// per function: was the level-2 check generated for the argument / for the result
    pub level2: Vec<(bool, bool)>,
    /// per function: the argument owns heap data but the header declares no free helper for the
    /// export-side argument type (name of that type)
    pub free_missing: Vec<Option<String>>,
}

fn conv_to_u64(t: &CTy, e: &str) -> Result<String, String> {
    Ok(match core_class(t)? {
        'p' if t.ptr > 0 => format!("(uint64_t)(uintptr_t)({e})"),
        'p' => format!("(uint64_t)({e})"),
        'i' => format!("(uint64_t)(uint32_t)({e})"),
        'I' => format!("(uint64_t)({e})"),
        'f' => format!("(uint64_t)verif_f32_bits({e})"),
        'd' => format!("verif_f64_bits({e})"),
        _ => unreachable!(),
    })
}

fn conv_from_u64(t: &CTy, e: &str) -> Result<String, String> {
    Ok(match core_class(t)? {
        'p' if t.ptr > 0 => format!("({})(uintptr_t)({e})", t.text()),
        'f' => format!("verif_bits_f32({e})"),
        'd' => format!("verif_bits_f64({e})"),
        _ => format!("({})({e})", t.text()),
    })
}

fn c_str(s: &str) -> String {
    let mut o = String::from("\"");
    for b in s.bytes() {
        match b {
            b'"' => o.push_str("\\\""),
            b'\\' => o.push_str("\\\\"),
            0x20..=0x7e => o.push(b as char),
            _ => write!(o, "\\{:03o}", b).unwrap(),
        }
    }
    o.push('"');
    o
}

/// Definitions of all core import symbols + the `verif_imports` table.
pub fn import_shims(src: &CSource) -> Result<String, String> {
    let mut o = String::new();
    let mut table = String::new();
    for (idx, imp) in src.imports.iter().enumerate() {
        let p = &imp.proto;
        let params: Vec<String> =
            p.params.iter().enumerate().map(|(i, (t, _))| format!("{} a{i}", t.text())).collect();
        writeln!(
            o,
            "{} {}({}) {{",
            p.ret.text(),
            p.name,
            if params.is_empty() { "void".to_string() } else { params.join(", ") }
        )
        .unwrap();
        let n = p.params.len();
        if n > 0 {
            let convs: Vec<String> = p
                .params
                .iter()
                .enumerate()
                .map(|(i, (t, _))| conv_to_u64(t, &format!("a{i}")))
                .collect::<Result<_, _>>()?;
            writeln!(o, "  uint64_t a[{n}] = {{ {} }};", convs.join(", ")).unwrap();
        } else {
            writeln!(o, "  uint64_t a[1] = {{ 0 }};").unwrap();
        }
        writeln!(o, "  uint64_t r = 0;\n  verif_vt.dispatch({idx}, a, {n}, &r);").unwrap();
        if !p.ret.is_void() {
            writeln!(o, "  return {};", conv_from_u64(&p.ret, "r")?).unwrap();
        }
        writeln!(o, "}}\n").unwrap();
        writeln!(table, "  {{ {}, {}, {} }},", c_str(&imp.module), c_str(&imp.name), c_str(&core_sig(p)?)).unwrap();
    }
    writeln!(o, "const struct verif_import verif_imports[] = {{\n{table}  {{ 0, 0, 0 }}\n}};").unwrap();
    writeln!(o, "const int verif_nimports = {};", src.imports.len()).unwrap();
    for p in &src.plain_externs {
        // e.g. the component-type object's force-link symbol
        if p.params.is_empty() && p.ret.is_void() {
            writeln!(o, "void {}(void) {{}}", p.name).unwrap();
        }
    }
    Ok(o)
}

/// Prototypes + trampolines for all core exports + the `verif_exports` table.
pub fn export_table(src: &CSource) -> Result<String, String> {
    let mut o = String::new();
    let mut table = String::new();
    for (idx, ex) in src.exports.iter().enumerate() {
        let p = &ex.proto;
        let params: Vec<String> = p.params.iter().map(|(t, _)| t.text()).collect();
        // resource representation types are opaque in the header: declare through void* instead
        writeln!(
            o,
            "extern {} {}({});",
            p.ret.text(),
            p.name,
            if params.is_empty() { "void".to_string() } else { params.join(", ") }
        )
        .unwrap();
        let args: Vec<String> = p
            .params
            .iter()
            .enumerate()
            .map(|(i, (t, _))| conv_from_u64(t, &format!("a[{i}]")))
            .collect::<Result<_, _>>()?;
        writeln!(o, "static void verif_tramp_{idx}(const uint64_t *a, uint64_t *r) {{\n  (void) a; (void) r;").unwrap();
        if p.ret.is_void() {
            writeln!(o, "  {}({});", p.name, args.join(", ")).unwrap();
        } else {
            writeln!(o, "  r[0] = {};", conv_to_u64(&p.ret, &format!("{}({})", p.name, args.join(", ")))?).unwrap();
        }
        writeln!(o, "}}").unwrap();
        writeln!(table, "  {{ {}, verif_tramp_{idx}, {} }},", c_str(&ex.export_name), c_str(&core_sig(p)?)).unwrap();
    }
    writeln!(o, "const struct verif_export verif_exports[] = {{\n{table}  {{ 0, 0, 0 }}\n}};").unwrap();
    writeln!(o, "const int verif_nexports = {};", src.exports.len()).unwrap();
    Ok(o)
}

// ---------------------------------------------------------------------------------------------
// level 2: C comparison expressions

struct L2<'a> {
    hdr: &'a Header,
    utf16: bool,
}

fn scalar_c(t: &Ty) -> Option<&'static str> {
    Some(match t {
        Ty::Bool => "bool",
        Ty::U8 => "uint8_t",
        Ty::S8 => "int8_t",
        Ty::U16 => "uint16_t",
        Ty::S16 => "int16_t",
        Ty::U32 | Ty::Char => "uint32_t",
        Ty::S32 => "int32_t",
        Ty::U64 => "uint64_t",
        Ty::S64 => "int64_t",
        Ty::F32 => "float",
        Ty::F64 => "double",
        _ => return None,
    })
}

impl<'a> L2<'a> {
    fn struct_fields(&self, cty: &CTy) -> Option<&'a [Field]> {
        if cty.ptr != 0 {
            return None;
        }
        match self.hdr.resolve(&cty.base) {
            (_, Some(TypeDef::Struct(f))) => Some(f),
            _ => None,
        }
    }
    fn scalar_name(&self, cty: &CTy) -> Option<String> {
        if cty.ptr != 0 {
            return None;
        }
        match self.hdr.resolve(&cty.base) {
            (n, None) => Some(n),
            _ => None,
        }
    }
    /// `{ T *ptr; size_t len; }` → element type
    fn ptr_len(&self, cty: &CTy) -> Option<CTy> {
        match self.struct_fields(cty)? {
            [Field::Plain(p, pn), Field::Plain(l, ln)]
                if pn == "ptr" && ln == "len" && p.ptr == 1 && l.base == "size_t" && l.ptr == 0 =>
            {
                Some(p.deref())
            }
            _ => None,
        }
    }

    /// Boolean C expression: "the C value `e` of C type `cty` is the WIT value `v : t`".
    fn cmp(&self, t: &Ty, v: &Val, e: &str, cty: &CTy) -> Option<String> {
        Some(match (t, v) {
            (Ty::Bool, Val::Bool(b)) => {
                (self.scalar_name(cty)? == "bool").then_some(())?;
                format!("(({e}) == {})", if *b { "true" } else { "false" })
            }
            (Ty::U8 | Ty::U16 | Ty::U32 | Ty::U64, Val::U(x)) => {
                (self.scalar_name(cty)?.as_str() == scalar_c(t)?).then_some(())?;
                format!("(({e}) == ({}){x:#x}ull)", scalar_c(t)?)
            }
            (Ty::S8 | Ty::S16 | Ty::S32 | Ty::S64, Val::S(x)) => {
                (self.scalar_name(cty)?.as_str() == scalar_c(t)?).then_some(())?;
                format!("((int64_t)({e}) == (int64_t){:#x}ull)", *x as u64)
            }
            (Ty::Char, Val::Char(c)) => {
                (self.scalar_name(cty)? == "uint32_t").then_some(())?;
                format!("(({e}) == {c:#x}u)")
            }
            (Ty::F32, Val::F32(b)) => {
                (self.scalar_name(cty)? == "float").then_some(())?;
                if refabi::ty::is_nan32(*b) {
                    format!("verif_nan32({e})")
                } else {
                    format!("(verif_f32_bits({e}) == {b:#x}u)")
                }
            }
            (Ty::F64, Val::F64(b)) => {
                (self.scalar_name(cty)? == "double").then_some(())?;
                if refabi::ty::is_nan64(*b) {
                    format!("verif_nan64({e})")
                } else {
                    format!("(verif_f64_bits({e}) == {b:#x}ull)")
                }
            }
            (Ty::String, Val::Str(s)) => {
                let el = self.ptr_len(cty)?;
                if self.utf16 {
                    (el.base == "uint16_t" && el.ptr == 0).then_some(())?;
                    let units: Vec<String> = s.encode_utf16().map(|u| format!("{u:#x}")).collect();
                    if units.is_empty() {
                        format!("(({e}).len == 0)")
                    } else {
                        format!(
                            "(({e}).len == {} && verif_memeq(({e}).ptr, (const uint16_t[]){{{}}}, {}))",
                            units.len(),
                            units.join(","),
                            units.len() * 2
                        )
                    }
                } else {
                    (el.base == "uint8_t" && el.ptr == 0).then_some(())?;
                    if s.is_empty() {
                        format!("(({e}).len == 0)")
                    } else {
                        let bytes: Vec<String> = s.bytes().map(|u| format!("{u}")).collect();
                        format!(
                            "(({e}).len == {} && verif_memeq(({e}).ptr, (const uint8_t[]){{{}}}, {}))",
                            s.len(),
                            bytes.join(","),
                            s.len()
                        )
                    }
                }
            }
            (Ty::List(et), Val::List(xs)) => {
                let el = self.ptr_len(cty)?;
                let mut parts = vec![format!("(({e}).len == {})", xs.len())];
                for (i, x) in xs.iter().enumerate() {
                    parts.push(self.cmp(et, x, &format!("({e}).ptr[{i}]"), &el)?);
                }
                format!("({})", parts.join(" && "))
            }
            (Ty::Map(kt, vt), Val::Map(es)) => {
                let el = self.ptr_len(cty)?;
                let (kc, vc) = match self.struct_fields(&el)? {
                    [Field::Plain(k, kn), Field::Plain(v, vn)] if kn == "key" && vn == "value" => (k.clone(), v.clone()),
                    _ => return None,
                };
                let mut parts = vec![format!("(({e}).len == {})", es.len())];
                for (i, (k, x)) in es.iter().enumerate() {
                    parts.push(self.cmp(kt, k, &format!("({e}).ptr[{i}].key"), &kc)?);
                    parts.push(self.cmp(vt, x, &format!("({e}).ptr[{i}].value"), &vc)?);
                }
                format!("({})", parts.join(" && "))
            }
            (Ty::Record(fs) | Ty::Tuple(fs), Val::Record(xs)) => {
                let cf = self.struct_fields(cty)?;
                (cf.len() == fs.len()).then_some(())?;
                let mut parts = Vec::new();
                for ((ft, x), f) in fs.iter().zip(xs).zip(cf) {
                    match f {
                        Field::Plain(ct, n) => parts.push(self.cmp(ft, x, &format!("({e}).{n}"), ct)?),
                        _ => return None,
                    }
                }
                if parts.is_empty() {
                    "1".to_string()
                } else {
                    format!("({})", parts.join(" && "))
                }
            }
            (Ty::Variant(cases), Val::Variant(i, p)) => {
                let cf = self.struct_fields(cty)?;
                let payloads = cases.iter().filter(|c| c.is_some()).count();
                let (tag, members): (&str, &[(CTy, String)]) = match cf {
                    [Field::Plain(_, tag)] if payloads == 0 => (tag, &[]),
                    [Field::Plain(_, tag), Field::Union(ms, val)] if val == "val" && ms.len() == payloads => (tag, ms),
                    _ => return None,
                };
                (tag == "tag").then_some(())?;
                let mut s = format!("(({e}).tag == {i})");
                if let (Some(ct), Some(p)) = (&cases[*i as usize], p) {
                    let k = cases[..*i as usize].iter().filter(|c| c.is_some()).count();
                    let (mt, mn) = &members[k];
                    s = format!("({s} && {})", self.cmp(ct, p, &format!("({e}).val.{mn}"), mt)?);
                }
                s
            }
            (Ty::Enum(_), Val::Variant(i, None)) => {
                let n = self.scalar_name(cty)?;
                matches!(n.as_str(), "uint8_t" | "uint16_t" | "uint32_t").then_some(())?;
                format!("(({e}) == {i})")
            }
            (Ty::Flags(n), Val::Flags(bits)) => {
                let sn = self.scalar_name(cty)?;
                let width = match sn.as_str() {
                    "uint8_t" => 8,
                    "uint16_t" => 16,
                    "uint32_t" => 32,
                    "uint64_t" => 64,
                    _ => return None,
                };
                (*n as usize <= width).then_some(())?;
                let mut x = 0u64;
                for (k, b) in bits.iter().enumerate() {
                    if *b {
                        x |= 1 << k;
                    }
                }
                format!("(({e}) == ({sn}){x:#x}ull)")
            }
            (Ty::Own(_) | Ty::Borrow(_), Val::Handle(h)) => {
                match self.struct_fields(cty)? {
                    [Field::Plain(t, n)] if n == "__handle" && t.base == "int32_t" && t.ptr == 0 => {}
                    _ => return None,
                }
                format!("(({e}).__handle == (int32_t){h:#x})")
            }
            (Ty::Option(it), Val::Variant(i, p)) => {
                let cf = self.struct_fields(cty)?;
                let vt = match cf {
                    [Field::Plain(b, n), Field::Plain(vt, vn)] if n == "is_some" && vn == "val" && b.base == "bool" => vt,
                    _ => return None,
                };
                match p {
                    None => {
                        (*i == 0).then_some(())?;
                        format!("(({e}).is_some == false)")
                    }
                    Some(p) => format!("(({e}).is_some == true && {})", self.cmp(it, p, &format!("({e}).val"), vt)?),
                }
            }
            (Ty::Result(ok, err), Val::Variant(i, p)) => {
                let cf = self.struct_fields(cty)?;
                let members: &[(CTy, String)] = match cf {
                    [Field::Plain(b, n)] if n == "is_err" && b.base == "bool" => &[],
                    [Field::Plain(b, n), Field::Union(ms, val)] if n == "is_err" && b.base == "bool" && val == "val" => ms,
                    _ => return None,
                };
                let want = (ok.is_some() as usize) + (err.is_some() as usize);
                (members.len() == want).then_some(())?;
                let mut s = format!("(({e}).is_err == {})", if *i == 1 { "true" } else { "false" });
                let side = if *i == 0 { ok } else { err };
                if let (Some(st), Some(p)) = (side, p) {
                    let mname = if *i == 0 { "ok" } else { "err" };
                    let (mt, _) = members.iter().find(|(_, n)| n == mname)?;
                    s = format!("({s} && {})", self.cmp(st, p, &format!("({e}).val.{mname}"), mt)?);
                }
                s
            }
            _ => return None,
        })
    }
}

/// How the WIT parameter arrives in the export's C signature.
fn arg_check(l2: &L2, t: &Ty, v: &Val, param: &(CTy, String), cfg: &CConfig) -> Option<String> {
    let (cty, name) = param;
    if !cfg.no_sig_flattening && name.starts_with("maybe_") {
        if let (Ty::Option(inner), Val::Variant(i, p)) = (t, v) {
            (cty.ptr == 1).then_some(())?;
            return Some(match p {
                None => {
                    (*i == 0).then_some(())?;
                    format!("({name} == NULL)")
                }
                Some(p) => format!("({name} != NULL && {})", l2.cmp(inner, p, &format!("(*{name})"), &cty.deref())?),
            });
        }
        return None;
    }
    match cty.ptr {
        0 => l2.cmp(t, v, name, cty),
        1 => l2.cmp(t, v, &format!("(*{name})"), &cty.deref()),
        _ => None,
    }
}

/// How the WIT result leaves the import's C signature (`verif_r` = C return value).
fn ret_check(l2: &L2, t: &Ty, v: &Val, ret: &CTy, outs: &[(CTy, String)], cfg: &CConfig) -> Option<String> {
    let flat = !cfg.no_sig_flattening;
    match (t, v) {
        (Ty::Option(inner), Val::Variant(i, p)) if flat => {
            (ret.base == "bool" && ret.ptr == 0 && outs.len() == 1 && outs[0].1 == "ret" && outs[0].0.ptr == 1)
                .then_some(())?;
            Some(match p {
                None => {
                    (*i == 0).then_some(())?;
                    "(verif_r == false)".to_string()
                }
                Some(p) => format!("(verif_r == true && {})", l2.cmp(inner, p, "(*ret)", &outs[0].0.deref())?),
            })
        }
        (Ty::Result(ok, err), Val::Variant(i, p)) if flat => {
            (ret.base == "bool" && ret.ptr == 0).then_some(())?;
            let want = (ok.is_some() as usize) + (err.is_some() as usize);
            (outs.len() == want).then_some(())?;
            let mut s = format!("(verif_r == {})", if *i == 0 { "true" } else { "false" });
            let side = if *i == 0 { ok } else { err };
            if let (Some(st), Some(p)) = (side, p) {
                let oname = if *i == 0 { "ret" } else { "err" };
                let (ot, _) = outs.iter().find(|(_, n)| n == oname)?;
                (ot.ptr == 1).then_some(())?;
                s = format!("({s} && {})", l2.cmp(st, p, &format!("(*{oname})"), &ot.deref())?);
            }
            Some(s)
        }
        _ => {
            if ret.is_void() {
                (outs.len() == 1 && outs[0].1 == "ret" && outs[0].0.ptr == 1).then_some(())?;
                l2.cmp(t, v, "(*ret)", &outs[0].0.deref())
            } else {
                outs.is_empty().then_some(())?;
                l2.cmp(t, v, "verif_r", ret)
            }
        }
    }
}

fn free_helper<'a>(hdr: &'a Header, pointee: &CTy) -> Option<&'a Proto> {
    if pointee.ptr != 0 {
        return None;
    }
    let stem = pointee.base.strip_suffix("_t")?;
    let h = hdr.helper(&format!("{stem}_free"))?;
    (h.params.len() == 1 && h.params[0].0.ptr == 1 && h.params[0].0.base == pointee.base).then_some(h)
}

/// The echo implementation of every export of the universe world.
pub fn echo_exports(
    hdr: &Header,
    funcs: &[FuncPlan],
    cfg: &CConfig,
    want_level2: bool,
) -> Result<(String, Vec<(bool, bool)>, Vec<Option<String>>), String> {
    if hdr.exports.len() != funcs.len() || hdr.imports.len() != funcs.len() {
        return Err(format!(
            "header declares {} imported / {} exported functions, the world has {}",
            hdr.imports.len(),
            hdr.exports.len(),
            funcs.len()
        ));
    }
    let l2 = L2 { hdr, utf16: cfg.utf16 };
    let mut o = String::new();
    let mut levels = Vec::new();
    let mut free_missing = Vec::new();
    for (k, f) in funcs.iter().enumerate() {
        let exp = &hdr.exports[k];
        let imp = &hdr.imports[k];
        if exp.name != format!("exports_{}", imp.name) {
            return Err(format!("export {} and import {} are not twins", exp.name, imp.name));
        }
        let cname = f.name.replace('-', "_");
        if !imp.name.ends_with(&format!("_{cname}")) {
            return Err(format!("prototype {} does not belong to WIT function {}", imp.name, f.name));
        }
        if exp.params.len() != imp.params.len() || exp.params.is_empty() {
            return Err(format!("prototypes of {} and {} are not isomorphic", exp.name, imp.name));
        }
        for ((et, en), (it, inn)) in exp.params.iter().zip(&imp.params) {
            if en != inn || et.ptr != it.ptr {
                return Err(format!("prototypes of {} and {} are not isomorphic", exp.name, imp.name));
            }
        }
        writeln!(o, "{} {{", exp.text()).unwrap();
        writeln!(o, "  const int verif_c = verif_cur_case; (void) verif_c;\n  verif_vt.mark(1, {k});").unwrap();
        // level 2: argument
        let arg_exprs: Option<Vec<String>> = if want_level2 {
            f.values.iter().map(|v| arg_check(&l2, &f.ty, v, &exp.params[0], cfg)).collect()
        } else {
            None
        };
        if let Some(es) = &arg_exprs {
            writeln!(o, "  switch (verif_c) {{").unwrap();
            for (c, e) in es.iter().enumerate() {
                writeln!(o, "    case {c}: if (!{e}) verif_vt.fail({k}, {c}, 0); break;").unwrap();
            }
            writeln!(o, "    default: verif_vt.fail({k}, verif_c, 8);\n  }}").unwrap();
        }
        // forward
        let args: Vec<String> = exp
            .params
            .iter()
            .zip(&imp.params)
            .map(|((et, en), (it, _))| {
                if et.ptr > 0 {
                    format!("({}) {en}", it.text())
                } else if et.base != it.base && matches!(hdr.resolve(&et.base), (_, Some(TypeDef::Struct(_)))) {
                    format!("*({} *) &{en}", it.text())
                } else {
                    en.clone()
                }
            })
            .collect();
        if exp.ret.is_void() {
            writeln!(o, "  {}({});", imp.name, args.join(", ")).unwrap();
        } else {
            writeln!(o, "  {} verif_r = {}({});", imp.ret.text(), imp.name, args.join(", ")).unwrap();
        }
        writeln!(o, "  verif_vt.mark(2, {k});").unwrap();
        // level 2: result (as received from the import; `ret` / `err` are shared with the export)
        let ret_exprs: Option<Vec<String>> = if want_level2 && f.has_result() {
            (0..f.values.len())
                .map(|c| ret_check(&l2, &f.ty, f.answer(c), &imp.ret, &exp.params[1..], cfg))
                .collect()
        } else {
            None
        };
        if let Some(es) = &ret_exprs {
            writeln!(o, "  switch (verif_c) {{").unwrap();
            for (c, e) in es.iter().enumerate() {
                writeln!(o, "    case {c}: if (!{e}) verif_vt.fail({k}, {c}, 1); break;").unwrap();
            }
            writeln!(o, "    default: verif_vt.fail({k}, verif_c, 9);\n  }}").unwrap();
        }
        // free the owned argument: with the export-side helper on even cases, with the import-side
        // helper of the layout-identical twin type on odd cases (so both families of helpers run)
        let (pt, pn) = &exp.params[0];
        // (the helper also drops the handles inside the value; in this world handles are plain
        // numbers and `[resource-drop]` is a counted no-op of the host: handle ownership is judged
        // in the resource world, here only the buffers are)
        if pt.ptr == 1 {
            let guard = if pn.starts_with("maybe_") { format!("if ({pn}) ") } else { String::new() };
            let eh = free_helper(hdr, &pt.deref());
            let ih = free_helper(hdr, &imp.params[0].0.deref());
            let owned_heap = match (&f.ty, pn.starts_with("maybe_")) {
                (Ty::Option(inner), true) => inner.contains_heap(),
                _ => f.ty.contains_heap(),
            };
            free_missing.push((eh.is_none() && owned_heap).then(|| pt.deref().text()));
            match (eh, ih) {
                (Some(e), Some(i)) if e.name != i.name => {
                    writeln!(
                        o,
                        "  {guard}{{ if (verif_c & 1) {}(({}) {pn}); else {}({pn}); }}",
                        i.name,
                        imp.params[0].0.text(),
                        e.name
                    )
                    .unwrap();
                }
                (Some(e), _) => writeln!(o, "  {guard}{}({pn});", e.name).unwrap(),
                (None, Some(i)) => writeln!(o, "  {guard}{}(({}) {pn});", i.name, imp.params[0].0.text()).unwrap(),
                (None, None) => {}
            }
        }
        if free_missing.len() <= k {
            free_missing.push(None);
        }
        writeln!(o, "  verif_vt.mark(3, {k});").unwrap();
        if !exp.ret.is_void() {
            if exp.ret.base != imp.ret.base && matches!(hdr.resolve(&exp.ret.base), (_, Some(TypeDef::Struct(_)))) {
                writeln!(o, "  return *({} *) &verif_r;", exp.ret.text()).unwrap();
            } else {
                writeln!(o, "  return verif_r;").unwrap();
            }
        }
        writeln!(o, "}}\n").unwrap();
        levels.push((arg_exprs.is_some(), ret_exprs.is_some()));
    }
    Ok((o, levels, free_missing))
}

pub fn user_c(
    hdr: &Header,
    src: &CSource,
    h_name: &str,
    funcs: &[FuncPlan],
    cfg: &CConfig,
    want_level2: bool,
) -> Result<Harness, String> {
    let mut s = String::new();
    writeln!(s, "// generated by /verif/crates/e4-c").unwrap();
    writeln!(s, "#include \"{h_name}\"").unwrap();
    s.push_str(PRELUDE);
    s.push_str(&import_shims(src)?);
    s.push_str(&export_table(src)?);
    let (e, level2, free_missing) = echo_exports(hdr, funcs, cfg, want_level2)?;
    s.push_str(&e);
    Ok(Harness { user_c: s, level2, free_missing })
}
