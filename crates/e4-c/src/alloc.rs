//! Checking allocator for natively executed generated C (DESIGN §3.5).
//!
//! One 256 MiB arena below 2 GiB (`MAP_32BIT`: the C backend casts exported-resource pointers
//! through `int32_t`), bump allocation, 16-byte canary red zones on both sides, fresh memory
//! filled with `0xA5`, freed blocks poisoned with `0xDD` and quarantined for the life of the
//! process (never reused), ledger of every block. Faults (double free, free / realloc of a
//! pointer that is not a live block start, canary overwritten, write after free) are recorded
//! and drained per case by the host. Single-threaded by construction (one forked child per chunk).

use std::collections::BTreeMap;

pub const ARENA_SIZE: usize = 256 << 20;
const RED: usize = 16;
const CANARY: u8 = 0xCA;
const FRESH: u8 = 0xA5;
const POISON: u8 = 0xDD;

#[derive(Clone, Debug)]
pub struct Block {
    pub size: u64,
    pub live: bool,
    /// serial number of the allocation
    pub serial: u64,
    /// who allocated: 0 = guest code, 1 = host (export argument), 2 = host (import result)
    pub owner: u8,
    /// epoch (case counter) in which the block was freed
    pub freed_epoch: u64,
}

pub struct Arena {
    base: *mut u8,
    bump: usize,
    pub blocks: BTreeMap<u64, Block>,
    pub faults: Vec<String>,
    pub serial: u64,
    pub epoch: u64,
    /// owner tag given to blocks allocated from now on
    pub owner: u8,
    /// log of (addr, size) freed since the last `take_freed`
    pub freed_log: Vec<(u64, u64)>,
    /// log of (addr, size) allocated since the last `take_allocated`
    pub alloc_log: Vec<(u64, u64)>,
    /// blocks freed in the current epoch (for the write-after-free sweep)
    recent_freed: Vec<u64>,
    /// addresses of the live blocks
    live_set: std::collections::BTreeSet<u64>,
}

static mut ARENA: Option<Arena> = None;

#[allow(static_mut_refs)]
pub fn arena() -> &'static mut Arena {
    unsafe {
        if ARENA.is_none() {
            let p = libc::mmap(
                std::ptr::null_mut(),
                ARENA_SIZE,
                libc::PROT_READ | libc::PROT_WRITE,
                libc::MAP_PRIVATE | libc::MAP_ANONYMOUS | libc::MAP_32BIT | libc::MAP_NORESERVE,
                -1,
                0,
            );
            if p == libc::MAP_FAILED || (p as usize) + ARENA_SIZE > (1usize << 31) {
                vcommon::machinery("cannot map the checking allocator's arena below 2 GiB");
            }
            ARENA = Some(Arena {
                base: p as *mut u8,
                bump: 64,
                blocks: BTreeMap::new(),
                faults: Vec::new(),
                serial: 0,
                epoch: 0,
                owner: 0,
                freed_log: Vec::new(),
                alloc_log: Vec::new(),
                recent_freed: Vec::new(),
                live_set: std::collections::BTreeSet::new(),
            });
        }
        ARENA.as_mut().unwrap()
    }
}

/// More faults than this inside one case means the generated code is walking garbage (e.g. a
/// cleanup loop over a corrupted length): the case is cut short through SIGABRT, which the host's
/// handler reports like any other crash of the case in flight.
pub const FAULT_FLOOD: usize = 64;

impl Arena {
    fn fault(&mut self, what: String) {
        self.faults.push(what);
        if self.faults.len() >= FAULT_FLOOD {
            unsafe { libc::raise(libc::SIGABRT) };
        }
    }

    pub fn contains(&self, addr: u64) -> bool {
        let b = self.base as u64;
        addr >= b && addr < b + ARENA_SIZE as u64
    }

    pub fn malloc(&mut self, size: usize, align: usize) -> u64 {
        let align = align.max(16);
        let start = (self.base as usize + self.bump + RED).div_ceil(align) * align;
        let off = start - self.base as usize;
        let end = off + size + RED;
        if end + 64 > ARENA_SIZE {
            self.faults.push("arena exhausted".into());
            return 0;
        }
        unsafe {
            std::ptr::write_bytes(self.base.add(off - RED), CANARY, RED);
            std::ptr::write_bytes(self.base.add(off), FRESH, size);
            std::ptr::write_bytes(self.base.add(off + size), CANARY, RED);
        }
        self.bump = end;
        self.serial += 1;
        self.blocks.insert(
            start as u64,
            Block { size: size as u64, live: true, serial: self.serial, owner: self.owner, freed_epoch: 0 },
        );
        self.alloc_log.push((start as u64, size as u64));
        self.live_set.insert(start as u64);
        start as u64
    }

    fn canaries_ok(&self, addr: u64, size: u64) -> bool {
        unsafe {
            let p = addr as *const u8;
            (0..RED).all(|i| *p.sub(i + 1) == CANARY) && (0..RED).all(|i| *p.add(size as usize + i) == CANARY)
        }
    }

    pub fn free(&mut self, addr: u64) {
        if addr == 0 {
            return;
        }
        let Some(b) = self.blocks.get(&addr).cloned() else {
            let what = match self.block_containing(addr) {
                Some((s, b)) => format!(
                    "free of {addr:#x}, which is inside the {} block {s:#x}+{} (not its start)",
                    if b.live { "live" } else { "freed" },
                    b.size
                ),
                None if self.contains(addr) => format!("free of {addr:#x}, which is not a block of the allocator"),
                None => format!("free of foreign pointer {addr:#x} (outside the arena: static, stack or dangling)"),
            };
            self.fault(what);
            return;
        };
        if !b.live {
            self.fault(format!("double free of block {addr:#x}+{}", b.size));
            return;
        }
        if !self.canaries_ok(addr, b.size) {
            self.faults.push(format!("buffer overrun: red zone of block {addr:#x}+{} overwritten", b.size));
        }
        unsafe { std::ptr::write_bytes(addr as *mut u8, POISON, b.size as usize) };
        let e = self.epoch;
        let blk = self.blocks.get_mut(&addr).unwrap();
        blk.live = false;
        blk.freed_epoch = e;
        self.live_set.remove(&addr);
        self.freed_log.push((addr, b.size));
        self.recent_freed.push(addr);
    }

    pub fn realloc(&mut self, addr: u64, new_size: usize) -> u64 {
        if addr == 0 {
            return self.malloc(new_size, 16);
        }
        let Some(b) = self.blocks.get(&addr).cloned() else {
            self.fault(format!("realloc of {addr:#x}, which is not a block start"));
            return self.malloc(new_size, 16);
        };
        if !b.live {
            self.fault(format!("realloc of freed block {addr:#x}+{}", b.size));
            return self.malloc(new_size, 16);
        }
        let n = self.malloc(new_size, 16);
        if n != 0 {
            unsafe {
                std::ptr::copy_nonoverlapping(addr as *const u8, n as *mut u8, (b.size as usize).min(new_size))
            };
        }
        self.free(addr);
        n
    }

    pub fn block_containing(&self, addr: u64) -> Option<(u64, &Block)> {
        let (s, b) = self.blocks.range(..=addr).next_back()?;
        if addr < s + b.size.max(1) {
            Some((*s, b))
        } else {
            None
        }
    }

    /// Is `[addr, addr+len)` inside one live block?
    pub fn check_live_range(&self, addr: u64, len: u64) -> Result<(), String> {
        match self.blocks.range(..=addr).next_back() {
            Some((s, b)) if addr + len <= s + b.size => {
                if b.live {
                    Ok(())
                } else {
                    Err(format!("access to {addr:#x}+{len} inside freed block {s:#x}+{}", b.size))
                }
            }
            Some((s, b)) if addr < s + b.size => {
                Err(format!("access to {addr:#x}+{len} runs past the end of block {s:#x}+{}", b.size))
            }
            _ => Err(format!("access to {addr:#x}+{len}: not inside any block of the allocator")),
        }
    }

    pub fn live(&self) -> Vec<(u64, u64)> {
        self.live_set.iter().map(|a| (*a, self.blocks[a].size)).collect()
    }

    pub fn live_count(&self) -> usize {
        self.live_set.len()
    }

    /// End of a case: canaries of live blocks and of blocks freed in this epoch, poison of blocks
    /// freed in this epoch (write after free). Then start the next epoch.
    pub fn sweep(&mut self) {
        let mut faults = Vec::new();
        for a in self.live_set.iter() {
            let b = &self.blocks[a];
            if !self.canaries_ok(*a, b.size) {
                faults.push(format!("buffer overrun: red zone of live block {a:#x}+{} overwritten", b.size));
            }
        }
        for a in &self.recent_freed {
            let b = &self.blocks[a];
            let dirty = unsafe { (0..b.size as usize).any(|i| *(*a as *const u8).add(i) != POISON) };
            if dirty {
                faults.push(format!("write after free into block {a:#x}+{}", b.size));
            }
            if !self.canaries_ok(*a, b.size) {
                faults.push(format!("buffer overrun: red zone of freed block {a:#x}+{} overwritten", b.size));
            }
        }
        self.faults.extend(faults);
        self.recent_freed.clear();
        self.epoch += 1;
    }

    /// Start over with an empty arena. Only legal between executions (nothing live, guest state
    /// reset): quarantine is per execution.
    pub fn reset(&mut self) {
        assert_eq!(self.live_count(), 0);
        self.blocks.clear();
        self.live_set.clear();
        self.recent_freed.clear();
        self.freed_log.clear();
        self.alloc_log.clear();
        self.bump = 64;
    }

    pub fn take_faults(&mut self) -> Vec<String> {
        std::mem::take(&mut self.faults)
    }
    pub fn take_freed(&mut self) -> Vec<(u64, u64)> {
        std::mem::take(&mut self.freed_log)
    }
    pub fn take_allocated(&mut self) -> Vec<(u64, u64)> {
        std::mem::take(&mut self.alloc_log)
    }
}

// entry points handed to the shared object through the host vtable
pub extern "C" fn verif_malloc(size: usize) -> *mut u8 {
    arena().malloc(size, 16) as *mut u8
}
pub extern "C" fn verif_calloc(n: usize, size: usize) -> *mut u8 {
    let total = n.saturating_mul(size);
    let p = arena().malloc(total, 16) as *mut u8;
    if !p.is_null() {
        unsafe { std::ptr::write_bytes(p, 0, total) };
    }
    p
}
pub extern "C" fn verif_realloc(p: *mut u8, size: usize) -> *mut u8 {
    arena().realloc(p as u64, size) as *mut u8
}
pub extern "C" fn verif_free(p: *mut u8) {
    arena().free(p as u64)
}
