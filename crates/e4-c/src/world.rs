//! Universe worlds: per chunk of types `T_k` one interface `i` with `fx<k>: func(p0: T_k) -> T_k` (`f32` / `f64` are WIT keywords),
//! imported *and* exported by world `w` (so the export `fx<k>` can echo through the import `fx<k>`).
//! Expected component-model names come from wit-parser's name mangler (trusted as a mangler,
//! DESIGN §3.1), expected core signatures from `refabi::abi::flatten_functype`.

use crate::abi::{flatten_functype, CanonOpts, Context, CoreSig, CoreTy, Width};
use crate::native_c::{enc_ty, Enc};
use crate::ty::{Ty, Val};
use refabi::wit::{FuncDecl, WitDoc};
use wit_parser::{
    LiftLowerAbi, ManglingAndAbi, Resolve, WasmExport, WasmExportKind, WasmImport, WorldId, WorldItem, WorldKey,
};

pub const SYNC: ManglingAndAbi = ManglingAndAbi::Legacy(LiftLowerAbi::Sync);

/// What the C backend declares unsupported (crates/test/src/c.rs `should_fail_verify`:
/// error-context, fixed-length lists) plus what this engine leaves to other checks.
pub fn exclusion(t: &Ty) -> Option<&'static str> {
    if t.contains(&|t| matches!(t, Ty::ErrorContext)) {
        return Some("error-context: declared unsupported by the C backend (crates/test/src/c.rs)");
    }
    if t.contains(&|t| matches!(t, Ty::FixedList(..))) {
        return Some("fixed-length list: declared unsupported by the C backend (crates/test/src/c.rs)");
    }
    if t.contains(&|t| matches!(t, Ty::Future(_) | Ty::Stream(_))) {
        return Some("future/stream: async transport, outside the sync configurations C10 quantifies over");
    }
    None
}

#[derive(Clone, Debug)]
pub struct FuncPlan {
    /// WIT function name (`f<k>`)
    pub name: String,
    pub ty: Ty,
    pub values: Vec<Val>,
}

impl FuncPlan {
    pub fn new(name: String, ty: Ty) -> FuncPlan {
        let values = refabi::universe::values(&ty);
        FuncPlan { name, ty, values }
    }
    /// `borrow` may not appear in a result: such functions are `func(p0: T)` only.
    pub fn has_result(&self) -> bool {
        !self.ty.contains_borrow()
    }
    pub fn result(&self) -> Option<&Ty> {
        self.has_result().then_some(&self.ty)
    }
    /// the answer the host gives to case `c`
    pub fn answer(&self, c: usize) -> &Val {
        &self.values[(c + 1) % self.values.len()]
    }
}

/// Handles inside value types refer to a resource `res0` that the world only *imports* (interface
/// `r`), so that the export side and the import side of interface `i` use the same handle types and
/// the echo can pass handles through unchanged.
pub fn chunk_wit(funcs: &[FuncPlan]) -> String {
    let mut d = WitDoc::new();
    d.export_too = true;
    for f in funcs {
        d.func(&FuncDecl { name: f.name.clone(), params: vec![f.ty.clone()], result: f.result().cloned(), async_: false });
    }
    let text = d.text();
    if text.contains("  resource res0;\n") {
        text.replace("  resource res0;\n", "  use r.{res0};\n").replace("interface i {", "interface r {\n  resource res0;\n}\n\ninterface i {")
    } else {
        text
    }
}

pub fn parse(text: &str) -> Result<(Resolve, WorldId), String> {
    let mut resolve = Resolve::default();
    let pkg = resolve.push_str("t.wit", text).map_err(|e| format!("{e:#}"))?;
    let world = resolve.select_world(&[pkg], Some("w")).map_err(|e| format!("{e:#}"))?;
    Ok((resolve, world))
}

/// Names the component model assigns to one function of the echo interface.
#[derive(Clone, Debug)]
pub struct FuncNames {
    pub import: (String, String),
    pub export: String,
    pub post_return: String,
}

pub fn iface_key<'a>(resolve: &'a Resolve, world: WorldId, export: bool, name: &str) -> Option<&'a WorldKey> {
    let w = &resolve.worlds[world];
    let items = if export { &w.exports } else { &w.imports };
    items.iter().find_map(|(k, item)| match item {
        WorldItem::Interface { id, .. } if resolve.interfaces[*id].name.as_deref() == Some(name) => Some(k),
        _ => None,
    })
}

pub fn func_names(resolve: &Resolve, world: WorldId, iface: &str, func: &str) -> Result<FuncNames, String> {
    let ik = iface_key(resolve, world, false, iface).ok_or("interface not imported")?;
    let ek = iface_key(resolve, world, true, iface).ok_or("interface not exported")?;
    let id = match &resolve.worlds[world].imports[ik] {
        WorldItem::Interface { id, .. } => *id,
        _ => unreachable!(),
    };
    let f = resolve.interfaces[id].functions.get(func).ok_or_else(|| format!("no function {func}"))?;
    let import = resolve.wasm_import_name(SYNC, WasmImport::Func { interface: Some(ik), func: f });
    let ex = |kind| resolve.wasm_export_name(SYNC, WasmExport::Func { interface: Some(ek), func: f, kind });
    Ok(FuncNames { import, export: ex(WasmExportKind::Normal), post_return: ex(WasmExportKind::PostReturn) })
}

fn class(t: CoreTy) -> char {
    match t {
        CoreTy::I32 => 'i',
        CoreTy::I64 => 'I',
        CoreTy::F32 => 'f',
        CoreTy::F64 => 'd',
    }
}

pub fn sig_string(s: &CoreSig) -> String {
    let mut o: String = s.params.iter().map(|t| class(*t)).collect();
    o.push('>');
    o.extend(s.results.iter().map(|t| class(*t)));
    o
}

/// Normal form of a signature string read from C: pointers / lengths are `i64` at width 8.
pub fn normalise_c_sig(s: &str) -> String {
    s.replace('p', "I")
}

pub fn expected_sig(params: &[Ty], result: Option<&Ty>, ctx: Context, enc: Enc) -> CoreSig {
    let ps: Vec<Ty> = params.iter().map(|t| enc_ty(t, enc)).collect();
    let r = result.map(|t| enc_ty(t, enc));
    flatten_functype(CanonOpts { async_: false, callback: false }, &ps, r.as_ref(), ctx, Width::W8)
}

/// The "split interfaces" world: heap-owning base types live in interface `types`, which the world
/// only *imports*; interface `i` (imported and exported, so that the echo has its twin) pulls them
/// in with `use` and builds its own compound types and functions from them. The export side of `i`
/// then refers to types whose C typedefs and free helpers belong to the import side.
/// Returns the functions' types in declaration order and the WIT text.
pub fn split_world() -> (Vec<Ty>, String) {
    let s = || Ty::String;
    let b = |t: &Ty| Box::new(t.clone());
    let bases: Vec<(Ty, String)> = vec![
        (Ty::Record(vec![s(), Ty::List(Box::new(s()))]), "record b0 { name: string, tags: list<string> }".into()),
        (Ty::List(Box::new(s())), "type b1 = list<string>;".into()),
        (Ty::Option(Box::new(s())), "type b2 = option<string>;".into()),
        (Ty::Variant(vec![None, Some(s())]), "variant b3 { none, named(string) }".into()),
    ];
    let mut types_iface = String::from("interface types {\n");
    let mut defs = String::new();
    let mut funcs = String::new();
    let mut tys = Vec::new();
    let mut k = 0;
    let mut add = |funcs: &mut String, tys: &mut Vec<Ty>, t: Ty, expr: String| {
        funcs.push_str(&format!("  fx{k}: func(p0: {expr}) -> {expr};\n"));
        tys.push(t);
        k += 1;
    };
    for (j, (bt, def)) in bases.iter().enumerate() {
        types_iface.push_str(&format!("  {def}\n"));
        let n = format!("b{j}");
        defs.push_str(&format!("  record r{j} {{ lead: {n}, id: u64 }}\n"));
        defs.push_str(&format!("  type a{j} = {n};\n"));
        defs.push_str(&format!("  record t{j} {{ lead: {n}, members: list<{n}> }}\n"));
        defs.push_str(&format!("  variant v{j} {{ one({n}), num(u64) }}\n"));
        add(&mut funcs, &mut tys, bt.clone(), n.clone());
        add(&mut funcs, &mut tys, Ty::Record(vec![bt.clone(), Ty::U64]), format!("r{j}"));
        add(&mut funcs, &mut tys, Ty::List(b(bt)), format!("list<{n}>"));
        add(&mut funcs, &mut tys, Ty::Option(b(bt)), format!("option<{n}>"));
        add(&mut funcs, &mut tys, bt.clone(), format!("a{j}"));
        add(&mut funcs, &mut tys, Ty::Record(vec![bt.clone(), Ty::List(b(bt))]), format!("t{j}"));
        add(&mut funcs, &mut tys, Ty::Variant(vec![Some(bt.clone()), Some(Ty::U64)]), format!("v{j}"));
        add(&mut funcs, &mut tys, Ty::Tuple(vec![Ty::U8, bt.clone()]), format!("tuple<u8, {n}>"));
    }
    types_iface.push_str("}\n");
    let text = format!(
        "package t:t;\n\n{types_iface}\ninterface i {{\n  use types.{{b0, b1, b2, b3}};\n{defs}{funcs}}}\n\nworld w {{\n  import types;\n  import i;\n  export i;\n}}\n"
    );
    (tys, text)
}
