//! Driver shared by C10 and C11: universe → chunks → generate → harness → clang → run in a child.

use crate::cc;
use crate::gen::{self, CConfig};
use crate::harness;
use crate::host::{self, ChunkBuild};
use crate::hparse;
use crate::native_c::{self_check, Enc};
use crate::ty::Ty;
use crate::world::{self, FuncPlan};
use serde_json::{json, Value};
use std::collections::BTreeSet;
use std::time::Instant;

pub struct Prepared {
    pub build: ChunkBuild,
    pub cached: bool,
    pub ms_generate: u64,
    pub ms_clang: u64,
}

pub enum PrepErr {
    /// the generator (or wit-parser) rejects the world
    Generate(String),
    /// generated C does not compile
    Compile(String),
    /// the harness cannot deal with the generator's output: a defect of this engine
    Machinery(String),
}

fn plans(types: &[Ty]) -> Vec<FuncPlan> {
    types
        .iter()
        .enumerate()
        .map(|(k, t)| FuncPlan::new(format!("fx{k}"), t.clone()))
        .collect()
}

pub fn prepare(types: &[Ty], cfg: &CConfig, clang: &str, level2: bool, label: &str, wit: Option<&str>) -> Result<Prepared, PrepErr> {
    let t0 = Instant::now();
    let funcs = plans(types);
    let wit = wit.map(|w| w.to_string()).unwrap_or_else(|| world::chunk_wit(&funcs));
    let (resolve, wid) = world::parse(&wit).map_err(PrepErr::Generate)?;
    let g = gen::generate(&resolve, wid, cfg).map_err(PrepErr::Generate)?;
    let hdr = hparse::parse_header(&g.h).map_err(|e| PrepErr::Machinery(format!("header: {e}")))?;
    let src = hparse::scan_c(&g.c).map_err(|e| PrepErr::Machinery(format!("source scan: {e}")))?;
    let hs = harness::user_c(&hdr, &src, &g.h_name, &funcs, cfg, level2).map_err(PrepErr::Machinery)?;
    let mut names = Vec::new();
    for f in &funcs {
        names.push(world::func_names(&resolve, wid, "i", &f.name).map_err(PrepErr::Machinery)?);
    }
    let files = [(g.c_name.as_str(), g.c.as_str()), (g.h_name.as_str(), g.h.as_str()), ("user.c", hs.user_c.as_str()), ("t.wit", wit.as_str())];
    let ms_generate = t0.elapsed().as_millis() as u64;
    let t1 = Instant::now();
    let built = cc::build_so(clang, &files, clang).map_err(PrepErr::Compile)?;
    Ok(Prepared {
        build: ChunkBuild { so: built.so, cfg: *cfg, funcs, names, level2: hs.level2, free_missing: hs.free_missing, label: label.to_string() },
        cached: built.cached,
        ms_generate,
        ms_clang: t1.elapsed().as_millis() as u64,
    })
}

/// Run one prepared chunk in forked children until every case has either run or crashed.
pub fn run_prepared(p: &Prepared, timeout_ms: u64) -> Value {
    let progress = unsafe {
        libc::mmap(
            std::ptr::null_mut(),
            4096,
            libc::PROT_READ | libc::PROT_WRITE,
            libc::MAP_SHARED | libc::MAP_ANONYMOUS,
            -1,
            0,
        ) as *mut u32
    };
    let mut skip_cases: BTreeSet<(usize, usize)> = BTreeSet::new();
    let mut skip_funcs: BTreeSet<usize> = BTreeSet::new();
    let mut crashes: Vec<Value> = Vec::new();
    let mut result = json!(null);
    let mut machinery: Option<String> = None;
    for _attempt in 0..200 {
        unsafe {
            *progress = u32::MAX;
            *progress.add(1) = 0;
            *progress.add(2) = 0;
        }
        let out = vcommon::isolated(timeout_ms, || host::child_run(&p.build, &skip_cases, &skip_funcs, progress));
        let (f, c, ph) = unsafe { (*progress as usize, *progress.add(1) as usize, *progress.add(2)) };
        let crash = match out {
            vcommon::Outcome::Ok(bytes) => match serde_json::from_slice::<Value>(&bytes) {
                Ok(v) => {
                    if let Some(m) = v.get("machinery").and_then(|m| m.as_str()) {
                        machinery = Some(m.to_string());
                        break;
                    }
                    if v["crashed"].is_null() {
                        result = v;
                        break;
                    }
                    let s = v["crashed"]["signal"].as_i64().unwrap_or(0);
                    if s == libc::SIGPROF as i64 {
                        Some("hang: CPU-time limit of the case exceeded".to_string())
                    } else if s == libc::SIGABRT as i64 {
                        Some("signal 6 (abort, or the checking allocator cut a flood of bad frees short)".to_string())
                    } else {
                        Some(format!("signal {s}"))
                    }
                }
                Err(e) => {
                    machinery = Some(format!("child result unreadable: {e}"));
                    break;
                }
            },
            vcommon::Outcome::Timeout => Some("timeout".to_string()),
            o => Some(o.describe()),
        };
        let what = crash.unwrap();
        if f == u32::MAX as usize {
            machinery = Some(format!("child died before the first case: {what}"));
            break;
        }
        crashes.push(json!({"func": f, "case": c, "phase": ph, "what": what}));
        skip_cases.insert((f, c));
        // a hang is not retried on the function's other values; other crashes get three chances
        if what.starts_with("hang") || what == "timeout" || skip_cases.iter().filter(|(g, _)| *g == f).count() >= 3 {
            skip_funcs.insert(f);
        }
    }
    unsafe { libc::munmap(progress as *mut _, 4096) };
    if result.is_null() && machinery.is_none() {
        machinery = Some("chunk did not finish after 200 restarts".into());
    }
    json!({"result": result, "crashes": crashes, "machinery": machinery,
           "skipped_funcs": skip_funcs.iter().collect::<Vec<_>>()})
}

fn phase_name(p: u64) -> &'static str {
    match p {
        1 => "export-call",
        2 => "import-dispatch",
        3 => "after-import",
        4 => "after-export",
        5 => "post-return",
        6 => "after-post-return",
        11 => "user-code-before-import",
        12 => "user-code-after-import(free-helper)",
        13 => "export-wrapper-after-user-code",
        _ => "?",
    }
}

/// One job = one (configuration, chunk of types). Returns a JSON record (crosses `par_map`).
/// `wit`: a hand-written world whose functions `fx<k>` have the types `types[k]` (no bisection then).
pub fn job(types: &[Ty], cfg: &CConfig, clang: &str, level2: bool, label: &str, timeout_ms: u64, wit: Option<&str>) -> Value {
    let t0 = Instant::now();
    let enc = if cfg.utf16 { Enc::Utf16 } else { Enc::Utf8 };
    // reference self-check (native lowering vs refabi) on everything this chunk will send
    for t in types {
        for v in refabi::universe::values(t) {
            if let Err(e) = self_check(t, &v, refabi::Width::W8, enc) {
                return json!({"label": label, "machinery": format!("native_c self-check: {e}")});
            }
        }
    }
    let mut out_problems: Vec<Value> = Vec::new();
    let mut skipped: Vec<Value> = Vec::new();
    let mut machinery: Vec<String> = Vec::new();
    let mut stats = json!({"cases": 0u64, "l2_arg": 0u64, "l2_ret": 0u64, "import_calls": 0u64, "post_returns": 0u64,
                           "host_blocks": 0u64, "frees_checked": 0u64, "types": 0u64, "funcs_l2_arg": 0u64, "funcs_l2_ret": 0u64,
                           "cached": 0u64, "built": 0u64, "ms_generate": 0u64, "ms_clang": 0u64, "ms_run": 0u64});
    let mut nontrivial: BTreeSet<String> = BTreeSet::new();
    let mut samples: Vec<Value> = Vec::new();
    let mut work: Vec<Vec<Ty>> = vec![types.to_vec()];
    let add = |s: &mut Value, k: &str, n: u64| {
        s[k] = json!(s[k].as_u64().unwrap_or(0) + n);
    };
    while let Some(ts) = work.pop() {
        if ts.is_empty() {
            continue;
        }
        match prepare(&ts, cfg, clang, level2, label, wit) {
            Ok(p) => {
                add(&mut stats, if p.cached { "cached" } else { "built" }, 1);
                add(&mut stats, "ms_generate", p.ms_generate);
                add(&mut stats, "ms_clang", p.ms_clang);
                let t2 = Instant::now();
                let r = run_prepared(&p, timeout_ms);
                add(&mut stats, "ms_run", t2.elapsed().as_millis() as u64);
                if let Some(m) = r["machinery"].as_str() {
                    machinery.push(format!("{label}: {m}"));
                    continue;
                }
                let funcs = &p.build.funcs;
                let describe = |f: usize, c: usize| -> Value {
                    let pl = &funcs[f];
                    let c = c.min(pl.values.len() - 1);
                    json!({"ty": pl.ty.to_string(), "ty_json": pl.ty.to_json(), "case": c, "world": if wit.is_some() { "split-interfaces" } else { "echo" },
                           "v1": pl.values[c].to_string(), "v2": pl.answer(c).to_string(), "nodes": pl.ty.nodes()})
                };
                for cr in r["crashes"].as_array().unwrap() {
                    let (f, c) = (cr["func"].as_u64().unwrap() as usize, cr["case"].as_u64().unwrap() as usize);
                    let ph = cr["phase"].as_u64().unwrap_or(0);
                    let mut d = describe(f, c);
                    d["class"] = json!(format!(
                        "{}:{}",
                        if matches!(ph, 5 | 6 | 12) { "own:trap" } else { "value:trap" },
                        phase_name(ph)
                    ));
                    d["msg"] = json!(format!(
                        "generated C died ({}) in phase {} (UBSan trap mode: SIGILL = undefined behaviour; SIGSEGV = wild access)",
                        cr["what"].as_str().unwrap_or("?"),
                        phase_name(ph)
                    ));
                    out_problems.push(d);
                }
                for f in r["skipped_funcs"].as_array().unwrap() {
                    let f = f.as_u64().unwrap() as usize;
                    skipped.push(json!([funcs[f].ty.to_string(), "remaining cases not run after a hang / 3 crashes of this function"]));
                }
                let res = &r["result"];
                for pr in res["problems"].as_array().unwrap() {
                    let f = pr[0].as_u64().unwrap() as usize;
                    if f >= funcs.len() {
                        machinery.push(format!("{label}: problem outside any function: {}", pr[3]));
                        continue;
                    }
                    let mut d = describe(f, pr[1].as_u64().unwrap() as usize);
                    d["class"] = pr[2].clone();
                    d["msg"] = pr[3].clone();
                    if pr[2].as_str().unwrap_or("").starts_with("harness:") {
                        machinery.push(format!("{label}: {} {}", d["ty"], pr[3]));
                        continue;
                    }
                    out_problems.push(d);
                }
                for k in ["cases", "l2_arg", "l2_ret", "import_calls", "post_returns", "host_blocks", "frees_checked"] {
                    add(&mut stats, k, res["stats"][k].as_u64().unwrap_or(0));
                }
                add(&mut stats, "types", funcs.len() as u64);
                add(&mut stats, "funcs_l2_arg", p.build.level2.iter().filter(|l| l.0).count() as u64);
                add(&mut stats, "funcs_l2_ret", p.build.level2.iter().filter(|l| l.1).count() as u64);
                for n in res["stats"]["nontrivial"].as_array().unwrap() {
                    nontrivial.insert(n.as_str().unwrap().to_string());
                }
                if samples.len() < 3 {
                    let f = samples.len().min(funcs.len() - 1);
                    let mut d = describe(f, 0);
                    d["config"] = json!(cfg.name());
                    d["level2"] = json!([p.build.level2[f].0, p.build.level2[f].1]);
                    samples.push(d);
                }
            }
            Err(e) => {
                if std::env::var_os("E4_DEBUG").is_some() {
                    let m = match &e {
                        PrepErr::Generate(m) => format!("generate: {m}"),
                        PrepErr::Compile(m) => format!("compile: {m}"),
                        PrepErr::Machinery(m) => format!("machinery: {m}"),
                    };
                    eprintln!("[{label}] chunk of {} failed: {}", ts.len(), m.chars().take(600).collect::<String>());
                }
                if ts.len() > 1 && wit.is_none() {
                    let mid = ts.len() / 2;
                    work.push(ts[mid..].to_vec());
                    work.push(ts[..mid].to_vec());
                    continue;
                }
                match e {
                    PrepErr::Generate(m) => skipped.push(json!([ts[0].to_string(), format!("generator rejects the world: {}", first_line(&m))])),
                    PrepErr::Compile(m) => skipped.push(json!([ts[0].to_string(), format!("generated C / harness does not compile: {}", first_line(&m))])),
                    PrepErr::Machinery(m) => machinery.push(format!("{label}: type {}: {m}", ts[0])),
                }
            }
        }
    }
    stats["nontrivial"] = json!(nontrivial.into_iter().collect::<Vec<_>>());
    json!({"label": label, "config": cfg.name(), "problems": out_problems, "skipped": skipped, "machinery_list": machinery,
           "stats": stats, "samples": samples, "ms": t0.elapsed().as_millis() as u64})
}

fn first_line(s: &str) -> String {
    s.lines().find(|l| !l.trim().is_empty()).unwrap_or("").chars().take(200).collect()
}
