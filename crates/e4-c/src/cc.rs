//! Native build of one chunk (`<world>.c` + `user.c` → shared object) with a content-keyed cache.

use std::path::{Path, PathBuf};
use std::process::Command;

/// Flags for the generated `<world>.c` (the code under test): UBSan in trap mode, no runtime.
pub const CFLAGS: &[&str] = &[
    "-c",
    "-fPIC",
    "-O1",
    "-g1",
    "-fsanitize=undefined",
    "-fsanitize-trap=all",
    "-w",
    "-Dmalloc=verif_malloc",
    "-Dcalloc=verif_calloc",
    "-Drealloc=verif_realloc",
    "-Dfree=verif_free",
    "-Dabort=verif_abort",
];

/// Flags for the harness' own `user.c`: its level-2 literals are huge, full UBSan instrumentation
/// costs 10x compile time there and checks nothing of the code under test; the checks that observe
/// values *produced by* the bindings (invalid `bool`, misaligned / null pointers) stay on.
pub const USER_CFLAGS: &[&str] = &[
    "-c",
    "-fPIC",
    "-O0",
    "-g1",
    "-fsanitize=bool,alignment,null",
    "-fsanitize-trap=all",
    "-w",
];

pub fn clang() -> String {
    for c in ["clang", "clang-14", "clang-15", "clang-16"] {
        if Command::new(c).arg("--version").output().map(|o| o.status.success()).unwrap_or(false) {
            return c.to_string();
        }
    }
    vcommon::machinery("no clang found")
}

pub fn clang_version(clang: &str) -> String {
    Command::new(clang)
        .arg("--version")
        .output()
        .ok()
        .map(|o| String::from_utf8_lossy(&o.stdout).lines().next().unwrap_or("").to_string())
        .unwrap_or_default()
}

/// `<target dir>/e4-<hash of repo root>`: never /tmp, never /repo/target.
pub fn cache_root() -> PathBuf {
    let target = std::env::var("CARGO_TARGET_DIR").unwrap_or_else(|_| format!("{}/target", vcommon::verif_root()));
    let p = PathBuf::from(target).join(format!("e4-{:016x}", vcommon::fnv(vcommon::repo_root().as_bytes())));
    let _ = std::fs::create_dir_all(&p);
    p
}

pub struct Built {
    pub so: PathBuf,
    pub dir: PathBuf,
    pub cached: bool,
}

/// Compile (or fetch from the cache) the shared object for these sources.
pub fn build_so(clang: &str, files: &[(&str, &str)], extra_key: &str) -> Result<Built, String> {
    let mut key = vcommon::fnv(extra_key.as_bytes());
    for (n, c) in files {
        key = key.rotate_left(7) ^ vcommon::fnv(n.as_bytes());
        key = key.rotate_left(7) ^ vcommon::fnv(c.as_bytes());
    }
    key ^= vcommon::fnv(CFLAGS.join(" ").as_bytes());
    key ^= vcommon::fnv(USER_CFLAGS.join(" ").as_bytes()).rotate_left(3);
    let dir = cache_root().join(format!("{key:016x}"));
    let so = dir.join("chunk.so");
    if so.exists() {
        // mark as recently used (see `gc`)
        if let Ok(c) = std::ffi::CString::new(dir.to_str().unwrap_or("")) {
            unsafe { libc::utimes(c.as_ptr(), std::ptr::null()) };
        }
        return Ok(Built { so, dir, cached: true });
    }
    std::fs::create_dir_all(&dir).map_err(|e| format!("mkdir {dir:?}: {e}"))?;
    let mut cfiles = Vec::new();
    for (n, c) in files {
        std::fs::write(dir.join(n), c).map_err(|e| format!("write {n}: {e}"))?;
        if n.ends_with(".c") {
            cfiles.push(n.to_string());
        }
    }
    let tmp = dir.join(format!("chunk.{}.tmp", std::process::id()));
    let run = |args: Vec<String>| -> Result<(), String> {
        let out = Command::new(clang)
            .current_dir(&dir)
            .args(&args)
            .output()
            .map_err(|e| format!("cannot run {clang}: {e}"))?;
        if !out.status.success() {
            let err = String::from_utf8_lossy(&out.stderr);
            let short: String = err.lines().filter(|l| l.contains("error")).take(6).collect::<Vec<_>>().join("\n");
            return Err(format!("clang failed in {dir:?} ({}):\n{short}", args.last().cloned().unwrap_or_default()));
        }
        Ok(())
    };
    let mut objs = Vec::new();
    for f in &cfiles {
        let o = format!("{f}.{}.o", std::process::id());
        let flags = if f == "user.c" { USER_CFLAGS } else { CFLAGS };
        let mut a: Vec<String> = flags.iter().map(|s| s.to_string()).collect();
        a.extend(["-I.".to_string(), "-o".to_string(), o.clone(), f.clone()]);
        run(a)?;
        objs.push(o);
    }
    let mut a = vec!["-shared".to_string(), "-o".to_string(), tmp.to_str().unwrap().to_string()];
    a.extend(objs.iter().cloned());
    let r = run(a);
    for o in &objs {
        let _ = std::fs::remove_file(dir.join(o));
    }
    r?;
    std::fs::rename(&tmp, &so).map_err(|e| format!("rename: {e}"))?;
    Ok(Built { so, dir, cached: false })
}

/// Drop cache entries that no run has used for `max_age_h` hours (generator output changed).
pub fn gc(max_age_h: u64) {
    let Ok(rd) = std::fs::read_dir(cache_root()) else { return };
    let now = std::time::SystemTime::now();
    for e in rd.flatten() {
        let old = e
            .metadata()
            .and_then(|m| m.modified())
            .ok()
            .and_then(|t| now.duration_since(t).ok())
            .map(|d| d.as_secs() > max_age_h * 3600)
            .unwrap_or(false);
        if old {
            let _ = std::fs::remove_dir_all(e.path());
        }
    }
}

pub fn remove(dir: &Path) {
    let _ = std::fs::remove_dir_all(dir);
}
