//! C11 — C guest bindings release exactly the memory and handles they own.
fn main() {
    e4_c::check::main("C11");
}
