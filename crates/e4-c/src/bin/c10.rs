//! C10 — C guest bindings carry every value across the boundary unchanged.
fn main() {
    e4_c::check::main("C10");
}
