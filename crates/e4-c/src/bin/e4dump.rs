//! dev tool: e4dump <file.wit> <config> <outdir>
fn main() {
    let a: Vec<String> = std::env::args().collect();
    let text = std::fs::read_to_string(&a[1]).unwrap();
    let cfg = e4_c::gen::CConfig::from_name(&a[2]).unwrap();
    let mut resolve = wit_parser::Resolve::default();
    let pkg = resolve.push_str("t.wit", &text).unwrap();
    let world = resolve.select_world(&[pkg], None).unwrap();
    let g = e4_c::gen::generate(&resolve, world, &cfg).unwrap();
    std::fs::create_dir_all(&a[3]).unwrap();
    std::fs::write(format!("{}/{}", a[3], g.c_name), g.c).unwrap();
    std::fs::write(format!("{}/{}", a[3], g.h_name), g.h).unwrap();
}
