//! E1 abi-vm: record the instruction stream of `wit_bindgen_core::abi` through the public
//! `Bindgen` trait into an IR (`ir`), execute it on concrete values (`vm`), shared harness
//! plumbing for the C01–C04 binaries (`harness`).
pub mod c01;
pub mod c02;
pub mod c03;
pub mod c04;
pub mod harness;
pub mod ir;
pub mod vm;
