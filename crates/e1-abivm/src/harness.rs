//! Shared plumbing of the C01–C04 binaries: WIT environments, recording generator entry points
//! under `catch`, canonical violation keys, type minimisation.

use crate::ir::{Id, Ir, ListPolicy, Recorder};
use crate::vm::V;
use refabi::abi::Width;
use refabi::wit::{FuncDecl, Parsed, WitDoc};
use refabi::{CoreVal, Ty};
use serde_json::{json, Value};
use std::collections::{BTreeMap, BTreeSet};
use wit_bindgen_core::abi::{self as gen, AbiVariant, LiftLower, WasmType};
use wit_parser::{Function, Resolve, SizeAlign, Type};

/// A parsed environment: `root{i}` aliases, `lift{i}: func(p0: root{i})`,
/// `ret{i}: func() -> root{i}` (when the type has no borrow).
pub struct Env {
    pub parsed: Parsed,
    pub sizes: SizeAlign,
    pub types: Vec<Ty>,
}

impl Env {
    pub fn new(types: &[Ty]) -> Result<Env, String> {
        let mut doc = WitDoc::new();
        for (i, t) in types.iter().enumerate() {
            doc.root(&format!("root{i}"), t);
        }
        for (i, t) in types.iter().enumerate() {
            // reference the alias so that the generator also walks `TypeDefKind::Type`
            doc.func_raw(&format!("  lift{i}: func(p0: root{i});"));
            if !t.contains_borrow() {
                doc.func_raw(&format!("  ret{i}: func() -> root{i};"));
            }
        }
        let parsed = refabi::wit::parse(&doc.text())?;
        let mut sizes = SizeAlign::default();
        sizes.fill(&parsed.resolve);
        Ok(Env { parsed, sizes, types: types.to_vec() })
    }
    pub fn resolve(&self) -> &Resolve {
        &self.parsed.resolve
    }
    pub fn root(&self, i: usize) -> Type {
        self.parsed.root(&format!("root{i}"))
    }
    pub fn lift_fn(&self, i: usize) -> &Function {
        self.parsed.func(&format!("lift{i}"))
    }
    pub fn ret_fn(&self, i: usize) -> Option<&Function> {
        self.parsed.resolve.interfaces[self.parsed.iface].functions.get(&format!("ret{i}"))
    }
}

/// An environment for explicit function declarations (C02).
pub fn env_funcs(funcs: &[FuncDecl]) -> Result<Parsed, String> {
    let mut doc = WitDoc::new();
    for f in funcs {
        doc.func(f);
    }
    refabi::wit::parse(&doc.text())
}

// ---------------------------------------------------------------------------------------------
// recording

/// Run a generator entry point against a fresh recorder under `catch`.
/// `Err` = the generator panicked (`message @ file:line`).
pub fn record(
    resolve: &Resolve,
    policy: ListPolicy,
    f: impl FnOnce(&mut Recorder) -> Vec<Id>,
) -> Result<Ir, String> {
    vcommon::catch(|| {
        let mut rec = Recorder::new(resolve, policy);
        let outs = f(&mut rec);
        rec.finish(outs)
    })
}

pub fn ir_lower_flat(resolve: &Resolve, policy: ListPolicy, ty: &Type) -> Result<Ir, String> {
    record(resolve, policy, |rec| {
        let v = rec.input();
        gen::lower_flat(resolve, rec, v, ty)
    })
}

pub fn ir_lower_mem(resolve: &Resolve, policy: ListPolicy, ty: &Type) -> Result<Ir, String> {
    record(resolve, policy, |rec| {
        let a = rec.input();
        let v = rec.input();
        gen::lower_to_memory(resolve, rec, a, v, ty);
        vec![]
    })
}

pub fn ir_lift_mem(resolve: &Resolve, policy: ListPolicy, ty: &Type) -> Result<Ir, String> {
    record(resolve, policy, |rec| {
        let a = rec.input();
        vec![gen::lift_from_memory(resolve, rec, a, ty)]
    })
}

pub fn ir_call(
    resolve: &Resolve,
    policy: ListPolicy,
    variant: AbiVariant,
    ll: LiftLower,
    func: &Function,
    async_: bool,
) -> Result<Ir, String> {
    record(resolve, policy, |rec| {
        gen::call(resolve, variant, ll, func, rec, async_);
        vec![]
    })
}

pub fn ir_post_return(resolve: &Resolve, policy: ListPolicy, func: &Function) -> Result<Ir, String> {
    record(resolve, policy, |rec| {
        gen::post_return(resolve, func, rec);
        vec![]
    })
}

/// `deallocate_lists_in_types` / `deallocate_lists_and_own_in_types` with `n` input operands.
pub fn ir_dealloc(
    resolve: &Resolve,
    policy: ListPolicy,
    types: &[Type],
    n_operands: usize,
    indirect: bool,
    and_own: bool,
) -> Result<Ir, String> {
    record(resolve, policy, |rec| {
        let ops: Vec<Id> = (0..n_operands).map(|_| rec.input()).collect();
        if and_own {
            gen::deallocate_lists_and_own_in_types(resolve, types, &ops, indirect, rec);
        } else {
            gen::deallocate_lists_in_types(resolve, types, &ops, indirect, rec);
        }
        vec![]
    })
}

// ---------------------------------------------------------------------------------------------
// keys

fn source_lines(rel: &str) -> std::sync::Arc<Vec<String>> {
    // read once per process: panics are frequent in C02
    static CACHE: std::sync::Mutex<Option<(String, std::sync::Arc<Vec<String>>)>> = std::sync::Mutex::new(None);
    let mut g = CACHE.lock().unwrap();
    if let Some((r, l)) = g.as_ref() {
        if r == rel {
            return l.clone();
        }
    }
    let lines: Vec<String> = std::fs::read_to_string(format!("{}/{rel}", vcommon::repo_root()))
        .map(|s| s.lines().map(|l| l.to_string()).collect())
        .unwrap_or_default();
    let arc = std::sync::Arc::new(lines);
    *g = Some((rel.to_string(), arc.clone()));
    arc
}

/// Keep the allocator from handing memory back to the kernel after every burst (the checks
/// allocate and free millions of small objects; `brk` churn otherwise dominates the run time).
pub fn tune_allocator() {
    unsafe {
        libc::mallopt(libc::M_TRIM_THRESHOLD, 1 << 30);
        libc::mallopt(libc::M_TOP_PAD, 64 << 20);
        libc::mallopt(libc::M_MMAP_THRESHOLD, 1 << 30);
    }
}

/// Where did a panic happen: `(key, harness_bug)`. Panics inside the code under test become
/// `panic:abi.rs:<fn>:<first line of the message, digits masked>`; a panic in this harness or in
/// refabi is a machinery problem.
pub fn panic_key(msg: &str) -> (String, bool) {
    let (text, loc) = match msg.rsplit_once(" @ ") {
        Some((t, l)) => (t, l),
        None => (msg, ""),
    };
    let (file, line) = match loc.rsplit_once(':') {
        Some((f, l)) => (f, l.parse::<usize>().unwrap_or(0)),
        None => (loc, 0),
    };
    // drop operand dumps and struct debug output: keep the invariant part of the message
    let mut head = text.lines().next().unwrap_or("");
    for cut in [": [", " {", ": Id", " ("] {
        if let Some(i) = head.find(cut) {
            head = &head[..i];
        }
    }
    let first: String = head
        .chars()
        .map(|c| if c.is_ascii_digit() { '#' } else { c })
        .take(70)
        .collect();
    let harness = file.contains("e1-abivm") || file.contains("refabi") || file.contains("vcommon");
    let short = file.rsplit('/').next().unwrap_or(file);
    let mut func = String::new();
    if file.ends_with("crates/core/src/abi.rs") {
        let lines = source_lines("crates/core/src/abi.rs");
        for l in lines.iter().take(line).rev() {
            let t = l.trim_start();
            let t = t.strip_prefix("pub ").unwrap_or(t);
            if let Some(rest) = t.strip_prefix("fn ") {
                func = rest.chars().take_while(|c| c.is_alphanumeric() || *c == '_').collect();
                break;
            }
        }
    }
    let place = if func.is_empty() { format!("{short}:{line}") } else { format!("{short}:{func}") };
    (format!("panic:{place}:{first}"), harness)
}

/// Class of a VM error string (`"vm:kind: …"` → `"vm:kind"`).
pub fn err_class(e: &str) -> String {
    // errors look like "<class>: message" where class itself may contain ':' (vm:free:double)
    match e.find(": ") {
        Some(i) => e[..i].to_string(),
        None => e.to_string(),
    }
}

#[derive(Clone, Debug)]
pub struct Finding {
    /// what went wrong, independent of the type (e.g. `mem-lower`, `vm:free:double`,
    /// `panic:abi.rs:deallocate:not yet implemented`)
    pub class: String,
    pub what: String,
    pub detail: Value,
}

impl Finding {
    pub fn new(class: &str, what: impl Into<String>, detail: Value) -> Finding {
        Finding { class: class.to_string(), what: what.into(), detail }
    }
    pub fn to_json(&self) -> Value {
        json!({"class": self.class, "what": self.what, "detail": self.detail})
    }
    pub fn from_json(v: &Value) -> Finding {
        Finding {
            class: v["class"].as_str().unwrap_or("").to_string(),
            what: v["what"].as_str().unwrap_or("").to_string(),
            detail: v["detail"].clone(),
        }
    }
}

/// Keep the first finding of each class.
pub fn first_per_class(fs: Vec<Finding>) -> Vec<Finding> {
    let mut seen = BTreeSet::new();
    fs.into_iter().filter(|f| seen.insert(f.class.clone())).collect()
}

// ---------------------------------------------------------------------------------------------
// minimisation

fn leaf_rank(t: &Ty) -> usize {
    match t {
        Ty::U8 => 0,
        Ty::U64 => 1,
        Ty::String => 2,
        Ty::Flags(n) | Ty::Enum(n) => 3 + *n as usize,
        Ty::Borrow(_) => 4,
        Ty::Future(_) | Ty::Stream(_) => 5,
        _ => 3,
    }
}

/// Strictly decreasing measure for shrinking.
pub fn measure(t: &Ty) -> (usize, usize) {
    fn rank(t: &Ty) -> usize {
        let own = match t {
            Ty::FixedList(_, n) => *n as usize,
            Ty::Map(..) => 2,
            Ty::Variant(c) => c.len(),
            Ty::Future(_) | Ty::Stream(_) => 5,
            _ if t.is_leaf() => leaf_rank(t),
            _ => 1,
        };
        own + t.children().iter().map(|c| rank(c)).sum::<usize>()
    }
    (t.nodes(), rank(t))
}

fn replace_child(t: &Ty, idx: usize, new: Option<Ty>) -> Option<Ty> {
    // `new = None` removes the child (field / case payload) where that makes sense
    use refabi::ty::bx;
    Some(match t {
        Ty::List(_) => Ty::List(bx(new?)),
        Ty::FixedList(_, n) => Ty::FixedList(bx(new?), *n),
        Ty::Option(_) => Ty::Option(bx(new?)),
        Ty::Map(k, v) => {
            if idx == 0 {
                Ty::Map(bx(new?), v.clone())
            } else {
                Ty::Map(k.clone(), bx(new?))
            }
        }
        Ty::Record(f) | Ty::Tuple(f) => {
            let mut f2 = f.clone();
            match new {
                Some(n) => f2[idx] = n,
                None => {
                    if f2.len() <= 1 {
                        return None;
                    }
                    f2.remove(idx);
                }
            }
            if matches!(t, Ty::Record(_)) {
                Ty::Record(f2)
            } else {
                Ty::Tuple(f2)
            }
        }
        Ty::Variant(c) => {
            // idx counts payload-carrying cases
            let mut c2 = c.clone();
            let pos = c.iter().enumerate().filter(|(_, x)| x.is_some()).nth(idx)?.0;
            c2[pos] = new;
            Ty::Variant(c2)
        }
        Ty::Result(a, b) => {
            let mut slots = [a.clone(), b.clone()];
            let pos = slots.iter().enumerate().filter(|(_, x)| x.is_some()).nth(idx)?.0;
            slots[pos] = new.map(bx);
            let [a, b] = slots;
            Ty::Result(a, b)
        }
        Ty::Future(_) => Ty::Future(new.map(bx)),
        Ty::Stream(_) => Ty::Stream(new.map(bx)),
        _ => return None,
    })
}

/// Smaller variations of `t` that might still show the same defect.
pub fn shrink_candidates(t: &Ty) -> Vec<Ty> {
    let mut out: Vec<Ty> = t.children().into_iter().cloned().collect();
    let kids: Vec<Ty> = t.children().into_iter().cloned().collect();
    for (i, k) in kids.iter().enumerate() {
        out.extend(replace_child(t, i, None));
        let mut leaves = vec![Ty::U8, Ty::U64, Ty::String];
        if matches!(k, Ty::Future(_) | Ty::Stream(_) | Ty::Borrow(_)) {
            // handle-like leaves collapse to the plain owned handle
            leaves.push(Ty::Own(0));
        }
        for leaf in leaves {
            if *k != leaf {
                let is_map_key = matches!(t, Ty::Map(..)) && i == 0;
                if is_map_key && leaf == Ty::U64 {
                    continue;
                }
                out.extend(replace_child(t, i, Some(leaf)));
            }
        }
        // the child's own shrinks, in place (recursively)
        for kc in shrink_candidates(k) {
            let is_map_key = matches!(t, Ty::Map(..)) && i == 0;
            if is_map_key && !matches!(kc, Ty::U8 | Ty::U32 | Ty::String | Ty::Char) {
                continue;
            }
            out.extend(replace_child(t, i, Some(kc)));
        }
    }
    match t {
        Ty::FixedList(e, n) if *n > 1 => out.push(Ty::FixedList(e.clone(), 1)),
        Ty::Variant(c) if c.len() > 1 => {
            for i in 0..c.len() {
                let mut c2 = c.clone();
                c2.remove(i);
                out.push(Ty::Variant(c2));
            }
        }
        Ty::Map(_, v) => out.push(Ty::List(v.clone())),
        Ty::Enum(n) if *n > 1 => out.push(Ty::Enum(1)),
        Ty::Flags(n) if *n > 1 => out.push(Ty::Flags(1)),
        _ => {}
    }
    let m = measure(t);
    let mut seen = BTreeSet::new();
    out.retain(|c| measure(c) < m && seen.insert(c.clone()));
    out.sort_by_key(measure);
    out
}

/// Greedy minimisation: keep replacing `t` by the smallest candidate whose check still reports
/// `class`. `check` returns the classes found for a type (memoised by the caller or here).
pub fn minimise(
    t: &Ty,
    class: &str,
    memo: &mut BTreeMap<Ty, BTreeSet<String>>,
    check: &mut dyn FnMut(&Ty) -> BTreeSet<String>,
) -> Ty {
    let mut cur = t.clone();
    for _ in 0..64 {
        let mut next = None;
        for c in shrink_candidates(&cur) {
            let classes = match memo.get(&c) {
                Some(x) => x.clone(),
                None => {
                    let x = check(&c);
                    memo.insert(c.clone(), x.clone());
                    x
                }
            };
            if classes.contains(class) {
                next = Some(c);
                break;
            }
        }
        match next {
            Some(n) => cur = n,
            None => break,
        }
    }
    cur
}

// ---------------------------------------------------------------------------------------------
// conversions between reference core values and VM values

/// Reference core values → VM values of the wit-parser kinds the signature names.
pub fn to_vm(flat: &[CoreVal], kinds: &[WasmType], w: Width) -> Result<Vec<V>, String> {
    if flat.len() != kinds.len() {
        return Err(format!("{} reference values for {} kinds", flat.len(), kinds.len()));
    }
    flat.iter()
        .zip(kinds)
        .map(|(c, k)| {
            if refabi::xcheck::erase(*k, w) != c.ty {
                return Err(format!("kind {k:?} does not erase to {:?}", c.ty));
            }
            Ok(V::of_kind(*k, c.bits, w))
        })
        .collect()
}

pub fn fmt_vs(vs: &[V]) -> String {
    vs.iter()
        .map(|v| match v {
            V::Val(x) => x.to_string(),
            o => format!("{}:{:#x}", o.kind(), o.bits()),
        })
        .collect::<Vec<_>>()
        .join(" ")
}

pub fn widths() -> [Width; 2] {
    Width::both()
}

/// Does the type contain a list whose element the `CanonicalScalars` policy treats canonically
/// (so that the two list paths differ)?
pub fn has_canonical_list(t: &Ty) -> bool {
    t.contains(&|x| match x {
        Ty::List(e) => matches!(
            **e,
            Ty::U8 | Ty::S8 | Ty::U16 | Ty::S16 | Ty::U32 | Ty::S32 | Ty::U64 | Ty::S64 | Ty::F32 | Ty::F64
        ),
        _ => false,
    })
}

/// Rotate a work list by the seed (the only thing `VERIF_SEED` may do).
pub fn rotate<T>(v: &mut [T], seed: u64) {
    if !v.is_empty() {
        let k = (seed as usize) % v.len();
        v.rotate_left(k);
    }
}
