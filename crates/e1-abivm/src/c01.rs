//! C01: the shared ABI generator encodes and decodes every value per the spec.
//!
//! Per (type, list policy): record `lower_flat`, `lower_to_memory`, `lift_from_memory` and
//! `call(GuestExport, LiftArgsLowerResults, func(p0: T))` (the flat *lift* path); per (width,
//! value): four comparisons against `refabi` (see `check_type`).

use crate::harness::*;
use crate::ir::{Ir, ListPolicy};
use crate::vm::*;
use refabi::abi::{self, MemRead, RefMem, Width};
use refabi::{val_eq, CoreTy, Ty, Val};
use serde_json::json;
use std::collections::BTreeSet;
use wit_bindgen_core::abi::{self as gen, AbiVariant, LiftLower, WasmSignature, WasmType};

#[derive(Default, Clone, Debug)]
pub struct Stats {
    pub cases: u64,
    pub comparisons: u64,
    pub nontrivial: u64,
    pub vm_steps: u64,
    pub outcomes: BTreeSet<u64>,
    pub irs: u64,
    pub ir_insts: u64,
}

/// Captures the arguments of the single `CallInterface` of the flat-lift program.
struct Capture {
    got: Option<Vec<V>>,
}
impl Host for Capture {
    fn call_wasm(&mut self, _: &mut VmMem, name: &str, _: &WasmSignature, _: &[V]) -> Result<Vec<V>, String> {
        Err(format!("vm:unexpected-call: CallWasm {name} in a lift-args program"))
    }
    fn call_interface(&mut self, _: &mut VmMem, _: &str, args: &[V]) -> Result<Option<Val>, String> {
        if self.got.is_some() {
            return Err("vm:unexpected-call: second CallInterface".into());
        }
        self.got = Some(args.to_vec());
        Ok(None)
    }
}

pub const BASE_OFFSETS_DOC: &str = "8, 24, align_to(8+align-1, align)";

fn base_offsets(al: u64) -> Vec<u64> {
    let mut v = vec![8, 24, abi::align_to(8 + al - 1, al)];
    v.dedup();
    let mut seen = BTreeSet::new();
    v.retain(|x| seen.insert(*x));
    v
}

const GARBAGE: u64 = 0xDEAD_BEEF_CAFE_F00D;

fn same_core(a: &refabi::CoreVal, b: &refabi::CoreVal) -> bool {
    if a.ty != b.ty {
        return false;
    }
    if a.bits == b.bits {
        return true;
    }
    match a.ty {
        CoreTy::F32 => refabi::ty::is_nan32(a.bits as u32) && refabi::ty::is_nan32(b.bits as u32),
        CoreTy::F64 => refabi::ty::is_nan64(a.bits) && refabi::ty::is_nan64(b.bits),
        _ => false,
    }
}

/// Comparison (1): VM flat values vs `refabi.lower_flat`, following pointers.
fn compare_flat(
    ty: &Ty,
    v: &Val,
    w: Width,
    vm_flat: &[V],
    vm_mem: &VmMem,
    rflat: &[refabi::CoreVal],
    rmem: &RefMem,
) -> Result<(), String> {
    if vm_flat.len() != rflat.len() {
        return Err(format!("{} flat values, reference has {}", vm_flat.len(), rflat.len()));
    }
    let ptrs = abi::flat_pointer_slots(ty, v, w);
    for (i, (a, b)) in vm_flat.iter().zip(rflat).enumerate() {
        let a = a.erase(w).ok_or_else(|| format!("flat value {i} is not a core value"))?;
        if let Some((_, ety, n)) = ptrs.iter().find(|(s, _, _)| *s == i) {
            if a.ty != b.ty {
                return Err(format!("slot {i}: type {:?}, reference {:?}", a.ty, b.ty));
            }
            let ca = abi::canon_array(vm_mem, w, a.bits, *n, ety).map_err(|e| format!("slot {i} pointee: {e}"))?;
            let cb = abi::canon_array(rmem, w, b.bits, *n, ety).map_err(|e| format!("reference pointee: {e}"))?;
            if ca != cb {
                return Err(format!("slot {i}: pointee differs: got {ca:?} want {cb:?}"));
            }
        } else if !same_core(&a, b) {
            return Err(format!("slot {i}: got {:?}:{:#x} want {:?}:{:#x}", a.ty, a.bits, b.ty, b.bits));
        }
    }
    Ok(())
}

fn hash_outcome(parts: &[&dyn std::fmt::Debug]) -> u64 {
    let mut s = String::new();
    for p in parts {
        s.push_str(&format!("{p:?}|"));
    }
    vcommon::fnv(s.as_bytes())
}

struct Programs {
    lower_flat: Option<Ir>,
    lift_flat: Option<Ir>,
    lower_mem: Option<Ir>,
    lift_mem: Option<Ir>,
    kinds: Vec<WasmType>,
}

/// Which forms to exercise (C04 reuses the flat half only).
#[derive(Clone, Copy, Debug)]
pub struct Forms {
    pub flat: bool,
    pub mem: bool,
}
pub const ALL_FORMS: Forms = Forms { flat: true, mem: true };

/// Check one type under one list policy. Findings are per class (first occurrence).
pub fn check_type(env: &Env, i: usize, policy: ListPolicy, stats: &mut Stats) -> Vec<Finding> {
    check_type_forms(env, i, policy, ALL_FORMS, stats)
}

pub fn check_type_forms(env: &Env, i: usize, policy: ListPolicy, forms: Forms, stats: &mut Stats) -> Vec<Finding> {
    let ty = &env.types[i];
    let wt = env.root(i);
    let resolve = env.resolve();
    let mut out: Vec<Finding> = Vec::new();
    let pol = format!("{policy:?}");
    let base = |extra: serde_json::Value| {
        let mut d = json!({"type": ty.to_json(), "type_text": ty.to_string(), "policy": pol});
        if let (Some(o), Some(e)) = (d.as_object_mut(), extra.as_object()) {
            for (k, v) in e {
                o.insert(k.clone(), v.clone());
            }
        }
        d
    };
    let flat_ok = forms.flat && abi::flatten(ty, Width::W4).len() <= abi::MAX_FLAT_PARAMS;

    // ---- record
    let mut rec = |what: &str, r: Result<Ir, String>, out: &mut Vec<Finding>| -> Option<Ir> {
        match r {
            Ok(ir) => {
                stats.irs += 1;
                stats.ir_insts += ir.count_insts() as u64;
                if let Some(e) = ir.errors.first() {
                    out.push(Finding::new(
                        &format!("protocol:{what}"),
                        format!("{what} for {ty}: {e}"),
                        base(json!({"entry": what, "error": e})),
                    ));
                    return None;
                }
                Some(ir)
            }
            Err(p) => {
                let (key, harness) = panic_key(&p);
                if harness {
                    vcommon::machinery(&format!("harness panic while recording {what} for {ty}: {p}"));
                }
                out.push(Finding::new(&key, format!("generator panicked in {what} for {ty}: {p}"), base(json!({"entry": what, "panic": p}))));
                None
            }
        }
    };
    let lower_flat = if flat_ok { rec("lower_flat", ir_lower_flat(resolve, policy, &wt), &mut out) } else { None };
    let lift_flat = if flat_ok {
        rec(
            "call(GuestExport,LiftArgsLowerResults)",
            ir_call(resolve, policy, AbiVariant::GuestExport, LiftLower::LiftArgsLowerResults, env.lift_fn(i), false),
            &mut out,
        )
    } else {
        None
    };
    let lower_mem = if forms.mem { rec("lower_to_memory", ir_lower_mem(resolve, policy, &wt), &mut out) } else { None };
    let lift_mem = if forms.mem { rec("lift_from_memory", ir_lift_mem(resolve, policy, &wt), &mut out) } else { None };
    let kinds = if flat_ok {
        match vcommon::catch(|| gen::flat_types(resolve, &wt, None)) {
            Ok(Some(k)) => k,
            _ => vec![],
        }
    } else {
        vec![]
    };
    let progs = Programs { lower_flat, lift_flat, lower_mem, lift_mem, kinds };

    for w in Width::both() {
        for v in refabi::universe::values(ty) {
            run_value(env, ty, &v, w, &progs, stats, &mut out, &base);
        }
    }
    first_per_class(out)
}

#[allow(clippy::too_many_arguments)]
fn run_value(
    env: &Env,
    ty: &Ty,
    v: &Val,
    w: Width,
    p: &Programs,
    stats: &mut Stats,
    out: &mut Vec<Finding>,
    base: &dyn Fn(serde_json::Value) -> serde_json::Value,
) {
    let resolve = env.resolve();
    let sizes = &env.sizes;
    let ctx = |form: &str| json!({"width": w.bytes(), "value": v.to_string(), "form": form});
    let fail = |class: &str, form: &str, msg: String, out: &mut Vec<Finding>| {
        let mut d = ctx(form);
        d["message"] = json!(msg);
        out.push(Finding::new(
            class,
            format!("{class}: {ty} value {v} width {} {form}: {msg}", w.bytes()),
            base(d),
        ));
    };
    let (sz, al) = (abi::size(ty, w), abi::alignment(ty, w));

    // ------------------------------------------------------------------ flat form
    if let (Some(lf), Some(cf)) = (&p.lower_flat, &p.lift_flat) {
        stats.cases += 1;
        let mut rm = RefMem::new(w, 0x8008, 0xA5);
        let rflat = abi::lower_flat(&mut rm, v, ty);
        // (1) lower
        let mut ex = Exec::new(lf, resolve, sizes, VmMem::new(w, 0xA5));
        let r = ex.run(&[V::Val(v.clone())], vec![], &mut NoHost);
        stats.vm_steps += ex.steps;
        stats.comparisons += 1;
        if ex.work > 0 || rflat.len() > 1 {
            stats.nontrivial += 1;
        }
        match r {
            Err(e) => fail(&format!("flat-lower:{}", err_class(&e)), "flat", e, out),
            Ok(vm_flat) => {
                stats.outcomes.insert(hash_outcome(&[&vm_flat.iter().map(|x| (x.kind(), x.bits())).collect::<Vec<_>>()]));
                let got_kinds: Vec<Option<WasmType>> = vm_flat.iter().map(|x| x.wasm_type()).collect();
                let want_kinds: Vec<Option<WasmType>> = p.kinds.iter().map(|k| Some(*k)).collect();
                if got_kinds != want_kinds {
                    fail("flat-lower:kinds", "flat", format!("value kinds {got_kinds:?} but flat_types says {want_kinds:?}"), out);
                }
                if let Err(e) = compare_flat(ty, v, w, &vm_flat, &ex.mem, &rflat, &rm) {
                    fail("flat-lower", "flat", format!("{e}; vm [{}]", fmt_vs(&vm_flat)), out);
                }
                // (4) lift what was lowered
                stats.comparisons += 1;
                let mem = std::mem::replace(&mut ex.mem, VmMem::new(w, 0));
                let mut ex2 = Exec::new(cf, resolve, sizes, mem);
                let mut host = Capture { got: None };
                match ex2.run(&[], vm_flat.clone(), &mut host) {
                    Err(e) => fail(&format!("flat-roundtrip:{}", err_class(&e)), "flat", e, out),
                    Ok(_) => match host.got.as_deref() {
                        Some([V::Val(back)]) if val_eq(back, v) => {}
                        other => fail("flat-roundtrip", "flat", format!("lift(lower(v)) = {other:?}"), out),
                    },
                }
                stats.vm_steps += ex2.steps;
            }
        }
        // (3) lift the reference encoding; second round with garbage in the unused joined slots
        let unused = abi::flat_unused_slots(ty, v, w);
        for garbage in [false, true] {
            if garbage && unused.is_empty() {
                continue;
            }
            stats.comparisons += 1;
            let mut flat = rflat.clone();
            if garbage {
                for s in &unused {
                    flat[*s].bits = match flat[*s].ty {
                        CoreTy::I32 | CoreTy::F32 => GARBAGE & 0xffff_ffff,
                        _ => GARBAGE,
                    };
                }
            }
            let args = match to_vm(&flat, &p.kinds, w) {
                Ok(a) => a,
                Err(e) => {
                    fail("flat-lift:kinds", "flat", e, out);
                    break;
                }
            };
            let mut mem = VmMem::new(w, 0x5A);
            mem.import(&rm);
            let mut ex = Exec::new(cf, resolve, sizes, mem);
            let mut host = Capture { got: None };
            match ex.run(&[], args, &mut host) {
                Err(e) => fail(&format!("flat-lift:{}", err_class(&e)), "flat", e, out),
                Ok(_) => match host.got.as_deref() {
                    Some([V::Val(back)]) if val_eq(back, v) => {}
                    other => fail("flat-lift", "flat", format!("garbage={garbage}: lifted {other:?}"), out),
                },
            }
            stats.vm_steps += ex.steps;
        }
    }

    // ------------------------------------------------------------------ in memory
    let (Some(p_lower_mem), Some(p_lift_mem)) = (&p.lower_mem, &p.lift_mem) else { return };
    for off in base_offsets(al) {
        for prefill in [0xA5u8, 0x5A] {
            stats.cases += 1;
            let form = format!("mem@+{off} prefill {prefill:#x}");
            // reference encoding
            let mut rm = RefMem::new(w, 0x8000, prefill);
            let rroot = rm.alloc(off + sz, al.max(8));
            abi::store(&mut rm, v, ty, rroot + off);
            let want = abi::canon_mem(&rm, w, rroot + off, ty);
            // (2) VM lowering
            let mut mem = VmMem::new(w, prefill);
            let region = mem.alloc(off + sz + 8, al.max(8), RegionKind::Harness);
            let addr = region + off;
            let mut ex = Exec::new(p_lower_mem, resolve, sizes, mem);
            let r = ex.run(&[V::Ptr(addr), V::Val(v.clone())], vec![], &mut NoHost);
            stats.vm_steps += ex.steps;
            stats.comparisons += 1;
            if ex.work > 0 {
                stats.nontrivial += 1;
            }
            match r {
                Err(e) => fail(&format!("mem-lower:{}", err_class(&e)), &form, e, out),
                Ok(_) => {
                    let got = abi::canon_mem(&ex.mem, w, addr, ty);
                    stats.outcomes.insert(hash_outcome(&[&got]));
                    match (&got, &want) {
                        (Ok(g), Ok(wn)) if g == wn => {}
                        (g, wn) => fail("mem-lower", &form, format!("bytes differ on the defined mask: got {g:?} want {wn:?}"), out),
                    }
                    // nothing outside [addr, addr+size) of the target buffer may be touched
                    let reg = &ex.mem.regions[&region];
                    let stray = reg.bytes.iter().enumerate().any(|(k, b)| {
                        let k = k as u64;
                        (k < off || k >= off + sz) && *b != prefill
                    });
                    if stray {
                        fail("mem-lower:stray-write", &form, "bytes outside the value's extent were written".into(), out);
                    }
                    // (4) lift what was lowered
                    stats.comparisons += 1;
                    let mem = std::mem::replace(&mut ex.mem, VmMem::new(w, 0));
                    let mut ex2 = Exec::new(p_lift_mem, resolve, sizes, mem);
                    match ex2.run(&[V::Ptr(addr)], vec![], &mut NoHost) {
                        Err(e) => fail(&format!("mem-roundtrip:{}", err_class(&e)), &form, e, out),
                        Ok(r) => match r.as_slice() {
                            [V::Val(back)] if val_eq(back, v) => {}
                            other => fail("mem-roundtrip", &form, format!("lift(lower(v)) = {other:?}"), out),
                        },
                    }
                    stats.vm_steps += ex2.steps;
                }
            }
            // (3) lift the reference encoding (padding / inactive payload bytes = prefill garbage)
            stats.comparisons += 1;
            let mut mem = VmMem::new(w, prefill);
            mem.import(&rm);
            let mut ex = Exec::new(p_lift_mem, resolve, sizes, mem);
            match ex.run(&[V::Ptr(rroot + off)], vec![], &mut NoHost) {
                Err(e) => fail(&format!("mem-lift:{}", err_class(&e)), &form, e, out),
                Ok(r) => match r.as_slice() {
                    [V::Val(back)] if val_eq(back, v) => {}
                    other => fail("mem-lift", &form, format!("lifted {other:?}"), out),
                },
            }
            stats.vm_steps += ex.steps;
        }
    }
}

/// Policies under which a type is checked: element-wise always, canonical when it differs.
pub fn policies(ty: &Ty) -> Vec<ListPolicy> {
    if has_canonical_list(ty) {
        vec![ListPolicy::ElementWise, ListPolicy::CanonicalScalars]
    } else {
        vec![ListPolicy::ElementWise]
    }
}

/// All classes a single type shows (used by the minimiser and by replay).
pub fn classes_of(ty: &Ty) -> Vec<Finding> {
    classes_of_forms(ty, ALL_FORMS)
}

pub fn classes_of_forms(ty: &Ty, forms: Forms) -> Vec<Finding> {
    let env = match Env::new(std::slice::from_ref(ty)) {
        Ok(e) => e,
        Err(_) => return vec![],
    };
    let mut st = Stats::default();
    let mut out = Vec::new();
    for pol in policies(ty) {
        out.extend(check_type_forms(&env, 0, pol, forms, &mut st));
    }
    first_per_class(out)
}

pub fn _unused(_: &dyn MemRead) {}
