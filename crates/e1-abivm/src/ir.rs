//! The recorder: an implementation of the public `wit_bindgen_core::abi::Bindgen` trait whose
//! `Operand` is an SSA id and whose `emit` appends an owned mirror of the instruction (with the
//! blocks it consumes) to the current block.

use wit_bindgen_core::abi::{Bindgen, Bitcast, Instruction, WasmSignature, WasmType};
use wit_parser::{Alignment, ArchitectureSize, Handle, Resolve, SizeAlign, Type};

pub type Id = u32;
pub type BlockId = usize;

#[derive(Clone, Debug, PartialEq)]
pub enum OCast {
    F32ToI32,
    F64ToI64,
    I32ToI64,
    F32ToI64,
    I32ToF32,
    I64ToF64,
    I64ToI32,
    I64ToF32,
    P64ToI64,
    I64ToP64,
    P64ToP,
    PToP64,
    I32ToP,
    PToI32,
    PToL,
    LToP,
    I32ToL,
    LToI32,
    I64ToL,
    LToI64,
    Sequence(Box<[OCast; 2]>),
    None,
}

impl OCast {
    pub fn from(b: &Bitcast) -> OCast {
        match b {
            Bitcast::F32ToI32 => OCast::F32ToI32,
            Bitcast::F64ToI64 => OCast::F64ToI64,
            Bitcast::I32ToI64 => OCast::I32ToI64,
            Bitcast::F32ToI64 => OCast::F32ToI64,
            Bitcast::I32ToF32 => OCast::I32ToF32,
            Bitcast::I64ToF64 => OCast::I64ToF64,
            Bitcast::I64ToI32 => OCast::I64ToI32,
            Bitcast::I64ToF32 => OCast::I64ToF32,
            Bitcast::P64ToI64 => OCast::P64ToI64,
            Bitcast::I64ToP64 => OCast::I64ToP64,
            Bitcast::P64ToP => OCast::P64ToP,
            Bitcast::PToP64 => OCast::PToP64,
            Bitcast::I32ToP => OCast::I32ToP,
            Bitcast::PToI32 => OCast::PToI32,
            Bitcast::PToL => OCast::PToL,
            Bitcast::LToP => OCast::LToP,
            Bitcast::I32ToL => OCast::I32ToL,
            Bitcast::LToI32 => OCast::LToI32,
            Bitcast::I64ToL => OCast::I64ToL,
            Bitcast::LToI64 => OCast::LToI64,
            Bitcast::Sequence(s) => {
                OCast::Sequence(Box::new([OCast::from(&s[0]), OCast::from(&s[1])]))
            }
            Bitcast::None => OCast::None,
        }
    }
}

#[derive(Clone, Copy, Debug, PartialEq)]
pub enum MemKind {
    I32,
    I8U,
    I8S,
    I16U,
    I16S,
    I64,
    F32,
    F64,
    Pointer,
    Length,
}

/// Scalar conversions between interface values and core values.
#[derive(Clone, Copy, Debug, PartialEq)]
pub enum Conv {
    I32FromChar,
    I64FromU64,
    I64FromS64,
    I32FromU32,
    I32FromS32,
    I32FromU16,
    I32FromS16,
    I32FromU8,
    I32FromS8,
    CoreF32FromF32,
    CoreF64FromF64,
    S8FromI32,
    U8FromI32,
    S16FromI32,
    U16FromI32,
    S32FromI32,
    U32FromI32,
    S64FromI64,
    U64FromI64,
    CharFromI32,
    F32FromCoreF32,
    F64FromCoreF64,
    BoolFromI32,
    I32FromBool,
}

#[derive(Clone, Copy, Debug, PartialEq)]
pub enum HandleKind {
    Own,
    Borrow,
    Future,
    Stream,
    ErrorContext,
}

/// Owned mirror of `Instruction`, plus `RetArea` for `Bindgen::return_pointer`.
#[derive(Clone, Debug)]
pub enum OInst {
    GetArg(usize),
    I32Const(i32),
    Bitcasts(Vec<OCast>),
    ConstZero(Vec<WasmType>),
    Load(MemKind, ArchitectureSize),
    Store(MemKind, ArchitectureSize),
    Conv(Conv),
    ListCanonLower { element: Type, realloc: bool },
    StringLower { realloc: bool },
    ListLower { element: Type, realloc: bool, body: BlockId },
    ListCanonLift { element: Type },
    StringLift,
    ListLift { element: Type, body: BlockId },
    MapLower { key: Type, value: Type, realloc: bool, body: BlockId },
    MapLift { key: Type, value: Type, body: BlockId },
    FixedLift { size: u32 },
    FixedLower { size: u32 },
    FixedLowerToMemory { element: Type, size: u32, body: BlockId },
    FixedLiftFromMemory { element: Type, size: u32, body: BlockId },
    IterElem,
    IterMapKey,
    IterMapValue,
    IterBasePointer,
    VariantPayloadName,
    /// record / tuple
    FieldsLower(usize),
    FieldsLift(usize),
    HandleLower(HandleKind),
    HandleLift(HandleKind),
    FlagsLower { nflags: usize, count: usize },
    FlagsLift { nflags: usize, count: usize },
    /// variant / option / result lowering: one block per case
    CasesLower { blocks: Vec<BlockId>, results: Vec<WasmType>, what: &'static str },
    /// `payload[i]`: does case i carry a payload
    CasesLift { blocks: Vec<BlockId>, payload: Vec<bool>, what: &'static str },
    EnumLower,
    EnumLift { ncases: usize },
    CallWasm { name: String, sig: WasmSignature },
    CallInterface { name: String, async_: bool, nparams: usize, has_result: bool },
    Return { amt: usize },
    Malloc { size: ArchitectureSize, align: Alignment },
    GuestDeallocate { size: ArchitectureSize, align: Alignment },
    GuestDeallocateString,
    GuestDeallocateList { element: Type, body: BlockId },
    GuestDeallocateMap { key: Type, value: Type, body: BlockId },
    GuestDeallocateVariant { blocks: Vec<BlockId> },
    DropHandle { ty: Type },
    AsyncTaskReturn { name: String, params: Vec<WasmType> },
    Flush(usize),
    RetArea { size: ArchitectureSize, align: Alignment },
}

#[derive(Clone, Debug)]
pub struct Stmt {
    pub inst: OInst,
    pub operands: Vec<Id>,
    pub results: Vec<Id>,
}

#[derive(Clone, Debug, Default)]
pub struct Block {
    pub stmts: Vec<Stmt>,
    pub results: Vec<Id>,
}

/// A recorded program.
#[derive(Clone, Debug, Default)]
pub struct Ir {
    /// finished blocks
    pub blocks: Vec<Block>,
    /// the top-level statement list
    pub main: Vec<Stmt>,
    /// ids that stand for harness-provided inputs (address / value operands)
    pub inputs: Vec<Id>,
    /// operands left on the generator's stack (for `lower_flat`, `lift_from_memory`)
    pub outputs: Vec<Id>,
    pub nvals: u32,
    /// protocol errors seen while recording (block stack underflow, unconsumed blocks …)
    pub errors: Vec<String>,
}

impl Ir {
    pub fn count_insts(&self) -> usize {
        self.main.len() + self.blocks.iter().map(|b| b.stmts.len()).sum::<usize>()
    }
    /// Does any statement satisfy `p`?
    pub fn any(&self, p: &dyn Fn(&OInst) -> bool) -> bool {
        self.main.iter().any(|s| p(&s.inst))
            || self.blocks.iter().any(|b| b.stmts.iter().any(|s| p(&s.inst)))
    }
    pub fn count(&self, p: &dyn Fn(&OInst) -> bool) -> usize {
        self.main.iter().filter(|s| p(&s.inst)).count()
            + self.blocks.iter().map(|b| b.stmts.iter().filter(|s| p(&s.inst)).count()).sum::<usize>()
    }
}

/// Which list elements the recorder declares "canonical" (`ListCanonLower`/`ListCanonLift`).
#[derive(Clone, Copy, Debug, PartialEq, Eq)]
pub enum ListPolicy {
    /// always element-wise
    ElementWise,
    /// canonical for numeric scalars (u8..u64, s8..s64, f32, f64), like the Rust backend
    CanonicalScalars,
}

pub fn is_numeric_scalar(t: &Type) -> bool {
    matches!(
        t,
        Type::U8
            | Type::S8
            | Type::U16
            | Type::S16
            | Type::U32
            | Type::S32
            | Type::U64
            | Type::S64
            | Type::F32
            | Type::F64
    )
}

pub struct Recorder {
    pub sizes: SizeAlign,
    pub policy: ListPolicy,
    ir: Ir,
    /// statement lists of the blocks currently open (innermost last); index 0 = main
    open: Vec<Vec<Stmt>>,
    /// finished blocks not yet consumed by an instruction
    block_stack: Vec<BlockId>,
}

impl Recorder {
    pub fn new(resolve: &Resolve, policy: ListPolicy) -> Recorder {
        let mut sizes = SizeAlign::default();
        sizes.fill(resolve);
        Recorder { sizes, policy, ir: Ir::default(), open: vec![vec![]], block_stack: vec![] }
    }

    fn fresh(&mut self) -> Id {
        let id = self.ir.nvals;
        self.ir.nvals += 1;
        id
    }

    /// A harness-provided input operand.
    pub fn input(&mut self) -> Id {
        let id = self.fresh();
        self.ir.inputs.push(id);
        id
    }

    pub fn finish(mut self, outputs: Vec<Id>) -> Ir {
        if self.open.len() != 1 {
            self.ir.errors.push(format!("{} blocks left open", self.open.len() - 1));
        }
        if !self.block_stack.is_empty() {
            self.ir.errors.push(format!("{} finished blocks never consumed", self.block_stack.len()));
        }
        self.ir.main = self.open.swap_remove(0);
        self.ir.outputs = outputs;
        self.ir
    }

    fn pop_blocks(&mut self, n: usize) -> Vec<BlockId> {
        if self.block_stack.len() < n {
            self.ir.errors.push(format!(
                "block stack underflow: need {n}, have {}",
                self.block_stack.len()
            ));
            // fabricate empty blocks so that recording can go on
            while self.block_stack.len() < n {
                self.ir.blocks.push(Block::default());
                self.block_stack.push(self.ir.blocks.len() - 1);
            }
        }
        let at = self.block_stack.len() - n;
        self.block_stack.split_off(at)
    }
    fn pop_block(&mut self) -> BlockId {
        self.pop_blocks(1)[0]
    }
}

impl Bindgen for Recorder {
    type Operand = Id;

    fn emit(
        &mut self,
        _resolve: &Resolve,
        inst: &Instruction<'_>,
        operands: &mut Vec<Id>,
        results: &mut Vec<Id>,
    ) {
        use Instruction as I;
        let o = match inst {
            I::GetArg { nth } => OInst::GetArg(*nth),
            I::I32Const { val } => OInst::I32Const(*val),
            I::Bitcasts { casts } => OInst::Bitcasts(casts.iter().map(OCast::from).collect()),
            I::ConstZero { tys } => OInst::ConstZero(tys.to_vec()),
            I::I32Load { offset } => OInst::Load(MemKind::I32, *offset),
            I::I32Load8U { offset } => OInst::Load(MemKind::I8U, *offset),
            I::I32Load8S { offset } => OInst::Load(MemKind::I8S, *offset),
            I::I32Load16U { offset } => OInst::Load(MemKind::I16U, *offset),
            I::I32Load16S { offset } => OInst::Load(MemKind::I16S, *offset),
            I::I64Load { offset } => OInst::Load(MemKind::I64, *offset),
            I::F32Load { offset } => OInst::Load(MemKind::F32, *offset),
            I::F64Load { offset } => OInst::Load(MemKind::F64, *offset),
            I::PointerLoad { offset } => OInst::Load(MemKind::Pointer, *offset),
            I::LengthLoad { offset } => OInst::Load(MemKind::Length, *offset),
            I::I32Store { offset } => OInst::Store(MemKind::I32, *offset),
            I::I32Store8 { offset } => OInst::Store(MemKind::I8U, *offset),
            I::I32Store16 { offset } => OInst::Store(MemKind::I16U, *offset),
            I::I64Store { offset } => OInst::Store(MemKind::I64, *offset),
            I::F32Store { offset } => OInst::Store(MemKind::F32, *offset),
            I::F64Store { offset } => OInst::Store(MemKind::F64, *offset),
            I::PointerStore { offset } => OInst::Store(MemKind::Pointer, *offset),
            I::LengthStore { offset } => OInst::Store(MemKind::Length, *offset),
            I::I32FromChar => OInst::Conv(Conv::I32FromChar),
            I::I64FromU64 => OInst::Conv(Conv::I64FromU64),
            I::I64FromS64 => OInst::Conv(Conv::I64FromS64),
            I::I32FromU32 => OInst::Conv(Conv::I32FromU32),
            I::I32FromS32 => OInst::Conv(Conv::I32FromS32),
            I::I32FromU16 => OInst::Conv(Conv::I32FromU16),
            I::I32FromS16 => OInst::Conv(Conv::I32FromS16),
            I::I32FromU8 => OInst::Conv(Conv::I32FromU8),
            I::I32FromS8 => OInst::Conv(Conv::I32FromS8),
            I::CoreF32FromF32 => OInst::Conv(Conv::CoreF32FromF32),
            I::CoreF64FromF64 => OInst::Conv(Conv::CoreF64FromF64),
            I::S8FromI32 => OInst::Conv(Conv::S8FromI32),
            I::U8FromI32 => OInst::Conv(Conv::U8FromI32),
            I::S16FromI32 => OInst::Conv(Conv::S16FromI32),
            I::U16FromI32 => OInst::Conv(Conv::U16FromI32),
            I::S32FromI32 => OInst::Conv(Conv::S32FromI32),
            I::U32FromI32 => OInst::Conv(Conv::U32FromI32),
            I::S64FromI64 => OInst::Conv(Conv::S64FromI64),
            I::U64FromI64 => OInst::Conv(Conv::U64FromI64),
            I::CharFromI32 => OInst::Conv(Conv::CharFromI32),
            I::F32FromCoreF32 => OInst::Conv(Conv::F32FromCoreF32),
            I::F64FromCoreF64 => OInst::Conv(Conv::F64FromCoreF64),
            I::BoolFromI32 => OInst::Conv(Conv::BoolFromI32),
            I::I32FromBool => OInst::Conv(Conv::I32FromBool),
            I::ListCanonLower { element, realloc } => {
                OInst::ListCanonLower { element: **element, realloc: realloc.is_some() }
            }
            I::StringLower { realloc } => OInst::StringLower { realloc: realloc.is_some() },
            I::ListLower { element, realloc } => OInst::ListLower {
                element: **element,
                realloc: realloc.is_some(),
                body: self.pop_block(),
            },
            I::ListCanonLift { element, .. } => OInst::ListCanonLift { element: **element },
            I::StringLift => OInst::StringLift,
            I::ListLift { element, .. } => {
                OInst::ListLift { element: **element, body: self.pop_block() }
            }
            I::MapLower { key, value, realloc } => OInst::MapLower {
                key: **key,
                value: **value,
                realloc: realloc.is_some(),
                body: self.pop_block(),
            },
            I::MapLift { key, value, .. } => {
                OInst::MapLift { key: **key, value: **value, body: self.pop_block() }
            }
            I::FixedLengthListLift { size, .. } => OInst::FixedLift { size: *size },
            I::FixedLengthListLower { size, .. } => OInst::FixedLower { size: *size },
            I::FixedLengthListLowerToMemory { element, size, .. } => OInst::FixedLowerToMemory {
                element: **element,
                size: *size,
                body: self.pop_block(),
            },
            I::FixedLengthListLiftFromMemory { element, size, .. } => {
                OInst::FixedLiftFromMemory { element: **element, size: *size, body: self.pop_block() }
            }
            I::IterElem { .. } => OInst::IterElem,
            I::IterMapKey { .. } => OInst::IterMapKey,
            I::IterMapValue { .. } => OInst::IterMapValue,
            I::IterBasePointer => OInst::IterBasePointer,
            I::VariantPayloadName => OInst::VariantPayloadName,
            I::RecordLower { record, .. } => OInst::FieldsLower(record.fields.len()),
            I::RecordLift { record, .. } => OInst::FieldsLift(record.fields.len()),
            I::TupleLower { tuple, .. } => OInst::FieldsLower(tuple.types.len()),
            I::TupleLift { tuple, .. } => OInst::FieldsLift(tuple.types.len()),
            I::HandleLower { handle, .. } => OInst::HandleLower(match handle {
                Handle::Own(_) => HandleKind::Own,
                Handle::Borrow(_) => HandleKind::Borrow,
            }),
            I::HandleLift { handle, .. } => OInst::HandleLift(match handle {
                Handle::Own(_) => HandleKind::Own,
                Handle::Borrow(_) => HandleKind::Borrow,
            }),
            I::FutureLower { .. } => OInst::HandleLower(HandleKind::Future),
            I::FutureLift { .. } => OInst::HandleLift(HandleKind::Future),
            I::StreamLower { .. } => OInst::HandleLower(HandleKind::Stream),
            I::StreamLift { .. } => OInst::HandleLift(HandleKind::Stream),
            I::ErrorContextLower => OInst::HandleLower(HandleKind::ErrorContext),
            I::ErrorContextLift => OInst::HandleLift(HandleKind::ErrorContext),
            I::FlagsLower { flags, .. } => {
                OInst::FlagsLower { nflags: flags.flags.len(), count: flags.repr().count() }
            }
            I::FlagsLift { flags, .. } => {
                OInst::FlagsLift { nflags: flags.flags.len(), count: flags.repr().count() }
            }
            I::VariantLower { variant, results, .. } => OInst::CasesLower {
                blocks: self.pop_blocks(variant.cases.len()),
                results: results.to_vec(),
                what: "variant",
            },
            I::VariantLift { variant, .. } => OInst::CasesLift {
                blocks: self.pop_blocks(variant.cases.len()),
                payload: variant.cases.iter().map(|c| c.ty.is_some()).collect(),
                what: "variant",
            },
            I::OptionLower { results, .. } => OInst::CasesLower {
                blocks: self.pop_blocks(2),
                results: results.to_vec(),
                what: "option",
            },
            I::OptionLift { .. } => OInst::CasesLift {
                blocks: self.pop_blocks(2),
                payload: vec![false, true],
                what: "option",
            },
            I::ResultLower { results, .. } => OInst::CasesLower {
                blocks: self.pop_blocks(2),
                results: results.to_vec(),
                what: "result",
            },
            I::ResultLift { result, .. } => OInst::CasesLift {
                blocks: self.pop_blocks(2),
                payload: vec![result.ok.is_some(), result.err.is_some()],
                what: "result",
            },
            I::EnumLower { .. } => OInst::EnumLower,
            I::EnumLift { enum_, .. } => OInst::EnumLift { ncases: enum_.cases.len() },
            I::CallWasm { name, sig } => {
                OInst::CallWasm { name: name.to_string(), sig: (*sig).clone() }
            }
            I::CallInterface { func, async_ } => OInst::CallInterface {
                name: func.name.clone(),
                async_: *async_,
                nparams: func.params.len(),
                has_result: func.result.is_some(),
            },
            I::Return { amt, .. } => OInst::Return { amt: *amt },
            I::Malloc { size, align, .. } => OInst::Malloc { size: *size, align: *align },
            I::GuestDeallocate { size, align } => {
                OInst::GuestDeallocate { size: *size, align: *align }
            }
            I::GuestDeallocateString => OInst::GuestDeallocateString,
            I::GuestDeallocateList { element } => {
                OInst::GuestDeallocateList { element: **element, body: self.pop_block() }
            }
            I::GuestDeallocateMap { key, value } => {
                OInst::GuestDeallocateMap { key: **key, value: **value, body: self.pop_block() }
            }
            I::GuestDeallocateVariant { blocks } => {
                OInst::GuestDeallocateVariant { blocks: self.pop_blocks(*blocks) }
            }
            I::DropHandle { ty } => OInst::DropHandle { ty: **ty },
            I::AsyncTaskReturn { name, params } => {
                OInst::AsyncTaskReturn { name: name.to_string(), params: params.to_vec() }
            }
            I::Flush { amt } => OInst::Flush(*amt),
        };
        let n = inst.results_len();
        let res: Vec<Id> = (0..n).map(|_| self.fresh()).collect();
        results.extend(res.iter().copied());
        let stmt = Stmt { inst: o, operands: operands.clone(), results: res };
        self.open.last_mut().unwrap().push(stmt);
    }

    fn return_pointer(&mut self, size: ArchitectureSize, align: Alignment) -> Id {
        let id = self.fresh();
        self.open.last_mut().unwrap().push(Stmt {
            inst: OInst::RetArea { size, align },
            operands: vec![],
            results: vec![id],
        });
        id
    }

    fn push_block(&mut self) {
        self.open.push(Vec::new());
    }

    fn finish_block(&mut self, operand: &mut Vec<Id>) {
        if self.open.len() <= 1 {
            self.ir.errors.push("finish_block without push_block".into());
            return;
        }
        let stmts = self.open.pop().unwrap();
        self.ir.blocks.push(Block { stmts, results: operand.clone() });
        self.block_stack.push(self.ir.blocks.len() - 1);
    }

    fn sizes(&self) -> &SizeAlign {
        &self.sizes
    }

    fn is_list_canonical(&self, _resolve: &Resolve, element: &Type) -> bool {
        match self.policy {
            ListPolicy::ElementWise => false,
            ListPolicy::CanonicalScalars => is_numeric_scalar(element),
        }
    }
}
