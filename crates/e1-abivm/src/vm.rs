//! The evaluator: runs a recorded `Ir` on concrete values over a region-structured linear memory
//! with an allocation ledger, for pointer width 4 or 8.
//!
//! Instruction semantics follow the doc comments of `Instruction` (the contract backends
//! implement) and DESIGN Appendix C; `Bitcast` semantics are the spec's reinterpret /
//! zero-extend / wrap rules, width-aware for pointer / length kinds.

use crate::ir::*;
use refabi::abi::{self, MemRead, Width};
use refabi::xcheck::ty_of;
use refabi::{Ty, Val};
use std::collections::BTreeMap;
use wit_bindgen_core::abi::{WasmSignature, WasmType};
use wit_parser::{Alignment, ArchitectureSize, Resolve, SizeAlign, Type};

/// A runtime value: an interface-typed value or a core value of one of the seven flat kinds.
#[derive(Clone, Debug, PartialEq)]
pub enum V {
    Val(Val),
    I32(u32),
    I64(u64),
    F32(u32),
    F64(u64),
    Ptr(u64),
    Len(u64),
    P64(u64),
}

impl V {
    pub fn kind(&self) -> &'static str {
        match self {
            V::Val(_) => "iface",
            V::I32(_) => "i32",
            V::I64(_) => "i64",
            V::F32(_) => "f32",
            V::F64(_) => "f64",
            V::Ptr(_) => "pointer",
            V::Len(_) => "length",
            V::P64(_) => "pointer-or-i64",
        }
    }
    pub fn wasm_type(&self) -> Option<WasmType> {
        Some(match self {
            V::Val(_) => return None,
            V::I32(_) => WasmType::I32,
            V::I64(_) => WasmType::I64,
            V::F32(_) => WasmType::F32,
            V::F64(_) => WasmType::F64,
            V::Ptr(_) => WasmType::Pointer,
            V::Len(_) => WasmType::Length,
            V::P64(_) => WasmType::PointerOrI64,
        })
    }
    pub fn bits(&self) -> u64 {
        match self {
            V::Val(_) => 0,
            V::I32(x) | V::F32(x) => *x as u64,
            V::I64(x) | V::F64(x) | V::Ptr(x) | V::Len(x) | V::P64(x) => *x,
        }
    }
    /// Build a core value of wit-parser kind `t` from a bit pattern (truncated to the kind's
    /// width at pointer width `w`).
    pub fn of_kind(t: WasmType, bits: u64, w: Width) -> V {
        let pm = |x: u64| if w == Width::W4 { x & 0xffff_ffff } else { x };
        match t {
            WasmType::I32 => V::I32(bits as u32),
            WasmType::I64 => V::I64(bits),
            WasmType::F32 => V::F32(bits as u32),
            WasmType::F64 => V::F64(bits),
            WasmType::Pointer => V::Ptr(pm(bits)),
            WasmType::Length => V::Len(pm(bits)),
            WasmType::PointerOrI64 => V::P64(bits),
        }
    }
    /// Erase to the spec's core value at width `w`.
    pub fn erase(&self, w: Width) -> Option<refabi::CoreVal> {
        let t = self.wasm_type()?;
        Some(refabi::CoreVal { ty: refabi::xcheck::erase(t, w), bits: self.bits() })
    }
}

#[derive(Clone, Copy, Debug, PartialEq, Eq)]
pub enum RegionKind {
    /// allocated through `cabi_realloc` by the code under test; ownership passes to the other side
    Ledger,
    /// temporary the adapter itself is responsible for (`realloc: None` lowering, return areas)
    Scratch,
    /// provided by the harness (argument buffers, reference encodings)
    Harness,
}

#[derive(Clone, Debug)]
pub struct Region {
    pub start: u64,
    pub bytes: Vec<u8>,
    pub align: u64,
    pub live: bool,
    pub kind: RegionKind,
    /// set when a lifting instruction took the buffer over
    pub consumed: bool,
}

/// Linear memory as a set of disjoint regions. Every access must lie inside one live region.
#[derive(Clone, Debug)]
pub struct VmMem {
    pub width: Width,
    pub regions: BTreeMap<u64, Region>,
    next: u64,
    pub prefill: u8,
    /// frees performed: (ptr, size, align)
    pub frees: Vec<(u64, u64, u64)>,
}

impl VmMem {
    pub fn new(width: Width, prefill: u8) -> VmMem {
        // non-zero, alignment-hostile start
        VmMem { width, regions: BTreeMap::new(), next: 0x1003, prefill, frees: vec![] }
    }

    /// Allocate a region aligned to exactly what was asked for (the next region starts at an odd
    /// address again, so nothing gets more alignment than it requested by luck).
    pub fn alloc(&mut self, size: u64, align: u64, kind: RegionKind) -> u64 {
        let align = align.max(1);
        let mut start = abi::align_to(self.next, align);
        // make the address as unaligned as allowed: avoid accidental 2*align alignment
        if start % (align * 2) == 0 {
            start += align;
        }
        self.next = start + size + 1;
        self.regions.insert(
            start,
            Region { start, bytes: vec![self.prefill; size as usize], align, live: true, kind, consumed: false },
        );
        start
    }

    /// First address not yet handed out (for placing a reference memory next to this one).
    pub fn next_addr(&self) -> u64 {
        self.next
    }

    /// Import a reference memory: one region per reference allocation (so cross-buffer reads are
    /// caught), addresses preserved.
    pub fn import(&mut self, m: &refabi::RefMem) {
        self.import_as(m, RegionKind::Harness, 0)
    }

    /// Like `import`, with an explicit region kind, skipping the first `skip` allocations.
    pub fn import_as(&mut self, m: &refabi::RefMem, kind: RegionKind, skip: usize) {
        for (addr, size, align) in m.allocs.iter().skip(skip) {
            if *size == 0 {
                continue;
            }
            let bytes = m.read(*addr, *size).unwrap();
            self.regions.insert(
                *addr,
                Region { start: *addr, bytes, align: *align, live: true, kind, consumed: false },
            );
            self.next = self.next.max(addr + size + 1);
        }
    }

    fn find(&self, addr: u64, len: u64) -> Result<&Region, String> {
        if let Some((_, r)) = self.regions.range(..=addr).next_back() {
            if addr + len <= r.start + r.bytes.len() as u64 {
                if !r.live {
                    return Err(format!("use-after-free: access {addr:#x}+{len} in freed region {:#x}", r.start));
                }
                return Ok(r);
            }
        }
        Err(format!("oob: access {addr:#x}+{len} outside every region"))
    }

    pub fn write(&mut self, addr: u64, data: &[u8]) -> Result<(), String> {
        if data.is_empty() {
            return Ok(());
        }
        let start = self.find(addr, data.len() as u64)?.start;
        let r = self.regions.get_mut(&start).unwrap();
        let o = (addr - start) as usize;
        r.bytes[o..o + data.len()].copy_from_slice(data);
        Ok(())
    }

    /// `cabi_dealloc(ptr, size, align)`; size 0 is a no-op (nothing was allocated).
    pub fn free(&mut self, ptr: u64, size: u64, align: u64) -> Result<(), String> {
        if size == 0 {
            return Ok(());
        }
        self.frees.push((ptr, size, align));
        match self.regions.get_mut(&ptr) {
            None => Err(format!("free:foreign: {ptr:#x} is not the start of an allocation")),
            Some(r) if !r.live => Err(format!("free:double: {ptr:#x} already freed")),
            Some(r) if r.kind != RegionKind::Ledger => {
                Err(format!("free:foreign: {ptr:#x} was not allocated through realloc"))
            }
            Some(r) if r.bytes.len() as u64 != size || r.align != align => Err(format!(
                "free:layout: {ptr:#x} allocated as (size {}, align {}) freed as (size {size}, align {align})",
                r.bytes.len(),
                r.align
            )),
            Some(r) => {
                r.live = false;
                Ok(())
            }
        }
    }

    /// Live ledger regions (what the callee still owns): (ptr, size, align).
    pub fn live_ledger(&self) -> Vec<(u64, u64, u64)> {
        self.regions
            .values()
            .filter(|r| r.live && r.kind == RegionKind::Ledger && !r.consumed)
            .map(|r| (r.start, r.bytes.len() as u64, r.align))
            .collect()
    }
}

impl MemRead for VmMem {
    fn read(&self, addr: u64, len: u64) -> Result<Vec<u8>, String> {
        if len == 0 {
            return Ok(vec![]);
        }
        let r = self.find(addr, len)?;
        let o = (addr - r.start) as usize;
        Ok(r.bytes[o..o + len as usize].to_vec())
    }
}

/// What the program did that the oracles look at.
#[derive(Clone, Debug, PartialEq)]
pub enum Event {
    CallWasm { name: String, args: Vec<V>, results: Vec<V> },
    CallInterface { name: String, async_: bool, args: Vec<V>, result: Option<V> },
    Return { vals: Vec<V> },
    TaskReturn { name: String, params: Vec<WasmType>, vals: Vec<V> },
    Malloc { ptr: u64, size: u64, align: u64 },
    RetArea { ptr: u64, size: u64, align: u64 },
    GuestDeallocate { ptr: u64, size: u64, align: u64 },
    DropHandle { handle: u32, ty: Type },
}

/// The other side of `CallWasm` / `CallInterface`.
pub trait Host {
    fn call_wasm(
        &mut self,
        mem: &mut VmMem,
        name: &str,
        sig: &WasmSignature,
        args: &[V],
    ) -> Result<Vec<V>, String>;
    fn call_interface(&mut self, mem: &mut VmMem, name: &str, args: &[V]) -> Result<Option<Val>, String>;
}

/// A host for programs that must not call anything.
pub struct NoHost;
impl Host for NoHost {
    fn call_wasm(&mut self, _: &mut VmMem, name: &str, _: &WasmSignature, _: &[V]) -> Result<Vec<V>, String> {
        Err(format!("unexpected CallWasm {name}"))
    }
    fn call_interface(&mut self, _: &mut VmMem, name: &str, _: &[V]) -> Result<Option<Val>, String> {
        Err(format!("unexpected CallInterface {name}"))
    }
}

#[derive(Default, Clone)]
struct Frame {
    elem: Option<V>,
    base: Option<V>,
    map_key: Option<V>,
    map_value: Option<V>,
    payload: Option<V>,
}

pub struct Exec<'a> {
    pub ir: &'a Ir,
    pub resolve: &'a Resolve,
    pub sizes: &'a SizeAlign,
    pub width: Width,
    pub mem: VmMem,
    pub args: Vec<V>,
    pub events: Vec<Event>,
    vals: Vec<Option<V>>,
    frames: Vec<Frame>,
    pub steps: u64,
    /// number of non-identity steps executed (stores, loads, bitcasts, allocations, frees)
    pub work: u64,
    returned: bool,
}

type R<T> = Result<T, String>;

fn err<T>(class: &str, msg: impl std::fmt::Display) -> R<T> {
    Err(format!("{class}: {msg}"))
}

/// `Bitcast` semantics: the spec's reinterpret / zero-extend / wrap rules; pointer and length
/// kinds are `w` bytes wide, pointer-or-i64 is always 64 bits.
pub fn apply_cast(c: &OCast, v: V, w: Width) -> Result<V, String> {
    let ptr_mask = |x: u64| if w == Width::W4 { x & 0xffff_ffff } else { x };
    let bad = |v: &V| err("vm:kind", format!("bitcast {c:?} applied to {}", v.kind()));
    Ok(match (c, &v) {
        (OCast::None, _) => v,
        (OCast::F32ToI32, V::F32(b)) => V::I32(*b),
        (OCast::F64ToI64, V::F64(b)) => V::I64(*b),
        (OCast::I32ToI64, V::I32(x)) => V::I64(*x as u64),
        (OCast::F32ToI64, V::F32(b)) => V::I64(*b as u64),
        (OCast::I32ToF32, V::I32(x)) => V::F32(*x),
        (OCast::I64ToF64, V::I64(x)) => V::F64(*x),
        (OCast::I64ToI32, V::I64(x)) => V::I32(*x as u32),
        (OCast::I64ToF32, V::I64(x)) => V::F32(*x as u32),
        (OCast::P64ToI64, V::P64(x)) => V::I64(*x),
        (OCast::I64ToP64, V::I64(x)) => V::P64(*x),
        (OCast::P64ToP, V::P64(x)) => V::Ptr(ptr_mask(*x)),
        (OCast::PToP64, V::Ptr(x)) => V::P64(*x),
        (OCast::I32ToP, V::I32(x)) => V::Ptr(*x as u64),
        (OCast::PToI32, V::Ptr(x)) => V::I32(*x as u32),
        (OCast::PToL, V::Ptr(x)) => V::Len(*x),
        (OCast::LToP, V::Len(x)) => V::Ptr(*x),
        (OCast::I32ToL, V::I32(x)) => V::Len(*x as u64),
        (OCast::LToI32, V::Len(x)) => V::I32(*x as u32),
        (OCast::I64ToL, V::I64(x)) => V::Len(ptr_mask(*x)),
        (OCast::LToI64, V::Len(x)) => V::I64(*x),
        (OCast::Sequence(s), _) => {
            let a = apply_cast(&s[0], v, w)?;
            apply_cast(&s[1], a, w)?
        }
        _ => return bad(&v),
    })
}

impl<'a> Exec<'a> {
    pub fn new(ir: &'a Ir, resolve: &'a Resolve, sizes: &'a SizeAlign, mem: VmMem) -> Exec<'a> {
        Exec {
            ir,
            resolve,
            sizes,
            width: mem.width,
            mem,
            args: vec![],
            events: vec![],
            vals: vec![None; ir.nvals as usize],
            frames: vec![],
            steps: 0,
            work: 0,
            returned: false,
        }
    }

    pub fn sz(&self, a: ArchitectureSize) -> u64 {
        match self.width {
            Width::W4 => a.size_wasm32() as u64,
            Width::W8 => a.size_wasm64() as u64,
        }
    }
    pub fn al(&self, a: Alignment) -> u64 {
        match self.width {
            Width::W4 => a.align_wasm32() as u64,
            Width::W8 => a.align_wasm64() as u64,
        }
    }

    /// Run the program: `inputs` bind `ir.inputs`, `args` answer `GetArg`. Returns the values of
    /// `ir.outputs`.
    pub fn run(&mut self, inputs: &[V], args: Vec<V>, host: &mut dyn Host) -> R<Vec<V>> {
        if inputs.len() != self.ir.inputs.len() {
            return err("harness", "wrong number of inputs");
        }
        for (id, v) in self.ir.inputs.iter().zip(inputs) {
            self.vals[*id as usize] = Some(v.clone());
        }
        self.args = args;
        self.frames.push(Frame::default());
        let ir = self.ir;
        self.stmts(&ir.main, host)?;
        self.frames.pop();
        ir.outputs.iter().map(|id| self.get(*id)).collect()
    }

    fn get(&self, id: Id) -> R<V> {
        match self.vals.get(id as usize) {
            Some(Some(v)) => Ok(v.clone()),
            _ => err("vm:unbound", format!("operand %{id} used before it was produced")),
        }
    }

    fn stmts(&mut self, stmts: &'a [Stmt], host: &mut dyn Host) -> R<()> {
        for s in stmts {
            if self.returned {
                return err("vm:after-return", "instruction after Return / AsyncTaskReturn");
            }
            self.steps += 1;
            if matches!(
                s.inst,
                OInst::Store(..)
                    | OInst::Load(..)
                    | OInst::Bitcasts(_)
                    | OInst::ListLower { .. }
                    | OInst::ListCanonLower { .. }
                    | OInst::StringLower { .. }
                    | OInst::MapLower { .. }
                    | OInst::Malloc { .. }
                    | OInst::GuestDeallocate { .. }
                    | OInst::GuestDeallocateString
                    | OInst::GuestDeallocateList { .. }
                    | OInst::GuestDeallocateMap { .. }
                    | OInst::CasesLower { .. }
                    | OInst::CasesLift { .. }
            ) {
                self.work += 1;
            }
            if self.steps > 5_000_000 {
                return err("harness", "step limit");
            }
            let ops: Vec<V> = s.operands.iter().map(|o| self.get(*o)).collect::<R<_>>()?;
            let res = self.inst(&s.inst, ops, host)?;
            if res.len() != s.results.len() {
                return err("harness", format!("{:?} produced {} results, expected {}", s.inst, res.len(), s.results.len()));
            }
            for (id, v) in s.results.iter().zip(res) {
                self.vals[*id as usize] = Some(v);
            }
        }
        Ok(())
    }

    /// Run block `b` with `frame` and return its result operands' values.
    fn block(&mut self, b: BlockId, frame: Frame, host: &mut dyn Host) -> R<Vec<V>> {
        let ir = self.ir;
        let blk = &ir.blocks[b];
        self.frames.push(frame);
        self.stmts(&blk.stmts, host)?;
        let out = blk.results.iter().map(|id| self.get(*id)).collect::<R<Vec<V>>>();
        self.frames.pop();
        out
    }

    fn lookup(&self, what: &str, f: impl Fn(&Frame) -> Option<V>) -> R<V> {
        for fr in self.frames.iter().rev() {
            if let Some(v) = f(fr) {
                return Ok(v);
            }
        }
        err("vm:unbound", format!("{what} used outside a block that binds it"))
    }

    fn addr(&self, v: &V, what: &str) -> R<u64> {
        match v {
            V::Ptr(p) => Ok(*p),
            o => err("vm:kind", format!("{what}: address operand is {} not pointer", o.kind())),
        }
    }
    fn len(&self, v: &V, what: &str) -> R<u64> {
        match v {
            V::Len(p) => Ok(*p),
            o => err("vm:kind", format!("{what}: length operand is {} not length", o.kind())),
        }
    }
    fn iface(&self, v: V, what: &str) -> R<Val> {
        match v {
            V::Val(x) => Ok(x),
            o => err("vm:kind", format!("{what}: operand is core {} not an interface value", o.kind())),
        }
    }
    fn i32(&self, v: &V, what: &str) -> R<u32> {
        match v {
            V::I32(x) => Ok(*x),
            o => err("vm:kind", format!("{what}: operand is {} not i32", o.kind())),
        }
    }

    fn ty(&self, t: &Type) -> Ty {
        ty_of(self.resolve, t)
    }

    fn alloc_list(&mut self, bytes: u64, align: u64, realloc: bool) -> u64 {
        if bytes == 0 {
            // nothing is allocated; the pointer value is unspecified (use an aligned dangling one)
            return align.max(1);
        }
        self.mem.alloc(bytes, align, if realloc { RegionKind::Ledger } else { RegionKind::Scratch })
    }

    /// A lifting instruction took over `[ptr, ptr+bytes)`.
    fn consume(&mut self, ptr: u64, bytes: u64) {
        if bytes == 0 {
            return;
        }
        if let Some(r) = self.mem.regions.get_mut(&ptr) {
            if r.bytes.len() as u64 == bytes {
                r.consumed = true;
            }
        }
    }

    fn cast(&self, c: &OCast, v: V) -> R<V> {
        apply_cast(c, v, self.width)
    }

    fn conv(&self, c: Conv, v: V) -> R<V> {
        let bad = |v: &V| err("vm:kind", format!("{c:?} applied to {v:?}"));
        Ok(match (c, &v) {
            (Conv::I32FromChar, V::Val(Val::Char(x))) => V::I32(*x),
            (Conv::I64FromU64, V::Val(Val::U(x))) => V::I64(*x),
            (Conv::I64FromS64, V::Val(Val::S(x))) => V::I64(*x as u64),
            (Conv::I32FromU32 | Conv::I32FromU16 | Conv::I32FromU8, V::Val(Val::U(x))) => {
                V::I32(*x as u32)
            }
            (Conv::I32FromS32 | Conv::I32FromS16 | Conv::I32FromS8, V::Val(Val::S(x))) => {
                V::I32(*x as i32 as u32)
            }
            (Conv::CoreF32FromF32, V::Val(Val::F32(b))) => V::F32(*b),
            (Conv::CoreF64FromF64, V::Val(Val::F64(b))) => V::F64(*b),
            (Conv::S8FromI32, V::I32(x)) => V::Val(Val::S(*x as u8 as i8 as i64)),
            (Conv::U8FromI32, V::I32(x)) => V::Val(Val::U((*x & 0xff) as u64)),
            (Conv::S16FromI32, V::I32(x)) => V::Val(Val::S(*x as u16 as i16 as i64)),
            (Conv::U16FromI32, V::I32(x)) => V::Val(Val::U((*x & 0xffff) as u64)),
            (Conv::S32FromI32, V::I32(x)) => V::Val(Val::S(*x as i32 as i64)),
            (Conv::U32FromI32, V::I32(x)) => V::Val(Val::U(*x as u64)),
            (Conv::S64FromI64, V::I64(x)) => V::Val(Val::S(*x as i64)),
            (Conv::U64FromI64, V::I64(x)) => V::Val(Val::U(*x)),
            (Conv::CharFromI32, V::I32(x)) => {
                if !abi::char_valid(*x) {
                    return err("vm:invalid-char", format!("{x:#x}"));
                }
                V::Val(Val::Char(*x))
            }
            (Conv::F32FromCoreF32, V::F32(b)) => V::Val(Val::F32(*b)),
            (Conv::F64FromCoreF64, V::F64(b)) => V::Val(Val::F64(*b)),
            (Conv::BoolFromI32, V::I32(x)) => match x {
                0 => V::Val(Val::Bool(false)),
                1 => V::Val(Val::Bool(true)),
                _ => return err("vm:invalid-bool", format!("{x}")),
            },
            (Conv::I32FromBool, V::Val(Val::Bool(b))) => V::I32(*b as u32),
            _ => return bad(&v),
        })
    }

    fn load(&self, k: MemKind, a: u64) -> R<V> {
        let w = self.width.bytes();
        let (n, what) = match k {
            MemKind::I8U | MemKind::I8S => (1, "load8"),
            MemKind::I16U | MemKind::I16S => (2, "load16"),
            MemKind::I32 | MemKind::F32 => (4, "load32"),
            MemKind::I64 | MemKind::F64 => (8, "load64"),
            MemKind::Pointer | MemKind::Length => (w, "loadptr"),
        };
        if a % n != 0 {
            return err("vm:misaligned", format!("{what} at {a:#x}"));
        }
        let b = self.mem.read(a, n).map_err(|e| format!("vm:{e}"))?;
        let mut x = [0u8; 8];
        x[..b.len()].copy_from_slice(&b);
        let x = u64::from_le_bytes(x);
        Ok(match k {
            MemKind::I8U | MemKind::I16U | MemKind::I32 => V::I32(x as u32),
            MemKind::I8S => V::I32(x as u8 as i8 as i32 as u32),
            MemKind::I16S => V::I32(x as u16 as i16 as i32 as u32),
            MemKind::I64 => V::I64(x),
            MemKind::F32 => V::F32(x as u32),
            MemKind::F64 => V::F64(x),
            MemKind::Pointer => V::Ptr(x),
            MemKind::Length => V::Len(x),
        })
    }

    fn store(&mut self, k: MemKind, a: u64, v: &V) -> R<()> {
        let w = self.width.bytes();
        let (n, bits) = match (k, v) {
            (MemKind::I8U, V::I32(x)) => (1, *x as u64),
            (MemKind::I16U, V::I32(x)) => (2, *x as u64),
            (MemKind::I32, V::I32(x)) => (4, *x as u64),
            (MemKind::I64, V::I64(x)) => (8, *x),
            (MemKind::F32, V::F32(x)) => (4, *x as u64),
            (MemKind::F64, V::F64(x)) => (8, *x),
            (MemKind::Pointer, V::Ptr(x)) => (w, *x),
            (MemKind::Length, V::Len(x)) => (w, *x),
            _ => return err("vm:kind", format!("store {k:?} of a {} value", v.kind())),
        };
        if a % n != 0 {
            return err("vm:misaligned", format!("store{} at {a:#x}", n * 8));
        }
        self.mem.write(a, &bits.to_le_bytes()[..n as usize]).map_err(|e| format!("vm:{e}"))
    }

    fn check_kinds(&self, what: &str, vals: &[V], tys: &[WasmType]) -> R<()> {
        if vals.len() != tys.len() {
            return err("vm:kind", format!("{what}: {} values for {} types", vals.len(), tys.len()));
        }
        for (i, (v, t)) in vals.iter().zip(tys).enumerate() {
            if v.wasm_type() != Some(*t) {
                return err("vm:kind", format!("{what}: value {i} is {} but the signature says {t:?}", v.kind()));
            }
        }
        Ok(())
    }

    fn list_val(&self, v: V, what: &str) -> R<Vec<Val>> {
        match self.iface(v, what)? {
            Val::List(xs) => Ok(xs),
            o => err("vm:kind", format!("{what} of {o}")),
        }
    }

    fn inst(&mut self, inst: &'a OInst, mut ops: Vec<V>, host: &mut dyn Host) -> R<Vec<V>> {
        let w = self.width;
        Ok(match inst {
            OInst::GetArg(n) => match self.args.get(*n) {
                Some(v) => vec![v.clone()],
                None => return err("vm:getarg", format!("GetArg {n} but only {} arguments", self.args.len())),
            },
            OInst::I32Const(x) => vec![V::I32(*x as u32)],
            OInst::Bitcasts(cs) => {
                let mut out = Vec::new();
                for (c, v) in cs.iter().zip(ops) {
                    out.push(self.cast(c, v)?);
                }
                out
            }
            OInst::ConstZero(tys) => tys.iter().map(|t| V::of_kind(*t, 0, w)).collect(),
            OInst::Load(k, off) => {
                let a = self.addr(&ops[0], "load")? + self.sz(*off);
                vec![self.load(*k, a)?]
            }
            OInst::Store(k, off) => {
                let a = self.addr(&ops[1], "store")? + self.sz(*off);
                self.store(*k, a, &ops[0])?;
                vec![]
            }
            OInst::Conv(c) => vec![self.conv(*c, ops.remove(0))?],

            OInst::StringLower { realloc } => {
                let s = match self.iface(ops.remove(0), "StringLower")? {
                    Val::Str(s) => s,
                    o => return err("vm:kind", format!("StringLower of {o}")),
                };
                let p = self.alloc_list(s.len() as u64, 1, *realloc);
                self.mem.write(p, s.as_bytes()).map_err(|e| format!("vm:{e}"))?;
                vec![V::Ptr(p), V::Len(s.len() as u64)]
            }
            OInst::StringLift => {
                let p = self.addr(&ops[0], "StringLift")?;
                let n = self.len(&ops[1], "StringLift")?;
                let b = self.mem.read(p, n).map_err(|e| format!("vm:{e}"))?;
                self.consume(p, n);
                match String::from_utf8(b) {
                    Ok(s) => vec![V::Val(Val::Str(s))],
                    Err(_) => return err("vm:invalid-utf8", ""),
                }
            }
            OInst::ListCanonLower { element, realloc } => {
                let xs = self.list_val(ops.remove(0), "ListCanonLower")?;
                let (es, ea) = (self.sz(self.sizes.size(element)), self.al(self.sizes.align(element)));
                let ety = self.ty(element);
                let p = self.alloc_list(xs.len() as u64 * es, ea, *realloc);
                // the native representation *is* the canonical one: copy element by element
                for (i, x) in xs.iter().enumerate() {
                    let mut m = refabi::RefMem::new(w, 0, 0);
                    let a = m.alloc(es, 8);
                    abi::store(&mut m, x, &ety, a);
                    let bytes = m.read(a, es).unwrap();
                    self.mem.write(p + i as u64 * es, &bytes).map_err(|e| format!("vm:{e}"))?;
                }
                vec![V::Ptr(p), V::Len(xs.len() as u64)]
            }
            OInst::ListCanonLift { element } => {
                let p = self.addr(&ops[0], "ListCanonLift")?;
                let n = self.len(&ops[1], "ListCanonLift")?;
                let ety = self.ty(element);
                let es = self.sz(self.sizes.size(element));
                if n * es > 0 && p % self.al(self.sizes.align(element)) != 0 {
                    return err("vm:misaligned", format!("canonical list at {p:#x}"));
                }
                let mut out = Vec::new();
                for i in 0..n {
                    out.push(abi::load(&self.mem, w, p + i * es, &ety).map_err(|e| format!("vm:{e}"))?);
                }
                self.consume(p, n * es);
                vec![V::Val(Val::List(out))]
            }
            OInst::ListLower { element, realloc, body } => {
                let xs = self.list_val(ops.remove(0), "ListLower")?;
                let n = xs.len() as u64;
                let (es, ea) = (self.sz(self.sizes.size(element)), self.al(self.sizes.align(element)));
                let p = self.alloc_list(n * es, ea, *realloc);
                for (i, x) in xs.into_iter().enumerate() {
                    let fr = Frame {
                        elem: Some(V::Val(x)),
                        base: Some(V::Ptr(p + i as u64 * es)),
                        ..Frame::default()
                    };
                    self.block(*body, fr, host)?;
                }
                vec![V::Ptr(p), V::Len(n)]
            }
            OInst::ListLift { element, body } => {
                let p = self.addr(&ops[0], "ListLift")?;
                let n = self.len(&ops[1], "ListLift")?;
                let es = self.sz(self.sizes.size(element));
                if n > 1 << 24 {
                    return err("vm:oob", format!("list length {n}"));
                }
                let mut out = Vec::new();
                for i in 0..n {
                    let fr = Frame { base: Some(V::Ptr(p + i * es)), ..Frame::default() };
                    let mut r = self.block(*body, fr, host)?;
                    if r.len() != 1 {
                        return err("vm:block-results", format!("ListLift body produced {} values", r.len()));
                    }
                    out.push(self.iface(r.remove(0), "ListLift element")?);
                }
                self.consume(p, n * es);
                vec![V::Val(Val::List(out))]
            }
            OInst::MapLower { key, value, realloc, body } => {
                let es = match self.iface(ops.remove(0), "MapLower")? {
                    Val::Map(es) => es,
                    o => return err("vm:kind", format!("MapLower of {o}")),
                };
                let entry = self.sizes.record([key, value]);
                let (sz, al) = (self.sz(entry.size), self.al(entry.align));
                let n = es.len() as u64;
                let p = self.alloc_list(n * sz, al, *realloc);
                for (i, (k, v)) in es.into_iter().enumerate() {
                    let fr = Frame {
                        map_key: Some(V::Val(k)),
                        map_value: Some(V::Val(v)),
                        base: Some(V::Ptr(p + i as u64 * sz)),
                        ..Frame::default()
                    };
                    self.block(*body, fr, host)?;
                }
                vec![V::Ptr(p), V::Len(n)]
            }
            OInst::MapLift { key, value, body } => {
                let p = self.addr(&ops[0], "MapLift")?;
                let n = self.len(&ops[1], "MapLift")?;
                let entry = self.sizes.record([key, value]);
                let sz = self.sz(entry.size);
                if n > 1 << 24 {
                    return err("vm:oob", format!("map length {n}"));
                }
                let mut out = Vec::new();
                for i in 0..n {
                    let fr = Frame { base: Some(V::Ptr(p + i * sz)), ..Frame::default() };
                    let mut r = self.block(*body, fr, host)?;
                    if r.len() != 2 {
                        return err("vm:block-results", format!("MapLift body produced {} values", r.len()));
                    }
                    let v = self.iface(r.pop().unwrap(), "MapLift value")?;
                    let k = self.iface(r.pop().unwrap(), "MapLift key")?;
                    out.push((k, v));
                }
                self.consume(p, n * sz);
                vec![V::Val(Val::Map(out))]
            }
            OInst::FixedLift { size } => {
                let mut out = Vec::new();
                for v in ops {
                    out.push(self.iface(v, "FixedLengthListLift")?);
                }
                if out.len() != *size as usize {
                    return err("vm:kind", "FixedLengthListLift arity");
                }
                vec![V::Val(Val::List(out))]
            }
            OInst::FixedLower { size } => {
                let xs = self.list_val(ops.remove(0), "FixedLengthListLower")?;
                if xs.len() != *size as usize {
                    return err("vm:kind", format!("FixedLengthListLower: value has {} elements, type {size}", xs.len()));
                }
                xs.into_iter().map(V::Val).collect()
            }
            OInst::FixedLowerToMemory { element, size, body } => {
                let a = self.addr(&ops[1], "FixedLengthListLowerToMemory")?;
                let xs = self.list_val(ops.remove(0), "FixedLengthListLowerToMemory")?;
                if xs.len() != *size as usize {
                    return err("vm:kind", "FixedLengthListLowerToMemory arity");
                }
                let es = self.sz(self.sizes.size(element));
                for (i, x) in xs.into_iter().enumerate() {
                    let fr = Frame {
                        elem: Some(V::Val(x)),
                        base: Some(V::Ptr(a + i as u64 * es)),
                        ..Frame::default()
                    };
                    self.block(*body, fr, host)?;
                }
                vec![]
            }
            OInst::FixedLiftFromMemory { element, size, body } => {
                let a = self.addr(&ops[0], "FixedLengthListLiftFromMemory")?;
                let es = self.sz(self.sizes.size(element));
                let mut out = Vec::new();
                for i in 0..*size as u64 {
                    let fr = Frame { base: Some(V::Ptr(a + i * es)), ..Frame::default() };
                    let mut r = self.block(*body, fr, host)?;
                    if r.len() != 1 {
                        return err("vm:block-results", "FixedLengthListLiftFromMemory body");
                    }
                    out.push(self.iface(r.remove(0), "fixed list element")?);
                }
                vec![V::Val(Val::List(out))]
            }
            OInst::IterElem => vec![self.lookup("IterElem", |f| f.elem.clone())?],
            OInst::IterMapKey => vec![self.lookup("IterMapKey", |f| f.map_key.clone())?],
            OInst::IterMapValue => vec![self.lookup("IterMapValue", |f| f.map_value.clone())?],
            OInst::IterBasePointer => vec![self.lookup("IterBasePointer", |f| f.base.clone())?],
            OInst::VariantPayloadName => {
                // bound lazily: a case without payload never uses it
                match self.lookup("VariantPayloadName", |f| f.payload.clone()) {
                    Ok(v) => vec![v],
                    Err(_) => vec![V::Val(Val::Record(vec![]))],
                }
            }
            OInst::FieldsLower(n) => match self.iface(ops.remove(0), "RecordLower/TupleLower")? {
                Val::Record(xs) if xs.len() == *n => xs.into_iter().map(V::Val).collect(),
                o => return err("vm:kind", format!("RecordLower/TupleLower({n}) of {o}")),
            },
            OInst::FieldsLift(_) => {
                let mut out = Vec::new();
                for v in ops {
                    out.push(self.iface(v, "RecordLift/TupleLift")?);
                }
                vec![V::Val(Val::Record(out))]
            }
            OInst::HandleLower(_) => match self.iface(ops.remove(0), "HandleLower")? {
                Val::Handle(h) => vec![V::I32(h)],
                o => return err("vm:kind", format!("handle lower of {o}")),
            },
            OInst::HandleLift(_) => vec![V::Val(Val::Handle(self.i32(&ops[0], "handle lift")?))],
            OInst::FlagsLower { nflags, count } => match self.iface(ops.remove(0), "FlagsLower")? {
                Val::Flags(bits) if bits.len() == *nflags => {
                    let mut out = Vec::new();
                    for k in 0..*count {
                        let mut x = 0u32;
                        for b in 0..32 {
                            if bits.get(k * 32 + b).copied().unwrap_or(false) {
                                x |= 1 << b;
                            }
                        }
                        out.push(V::I32(x));
                    }
                    out
                }
                o => return err("vm:kind", format!("FlagsLower({nflags}) of {o}")),
            },
            OInst::FlagsLift { nflags, count } => {
                if ops.len() != *count {
                    return err("vm:kind", "FlagsLift arity");
                }
                let mut bits = vec![false; *nflags];
                for (k, v) in ops.iter().enumerate() {
                    let x = self.i32(v, "FlagsLift")?;
                    for b in 0..32 {
                        if k * 32 + b < *nflags {
                            bits[k * 32 + b] = x >> b & 1 == 1;
                        }
                    }
                }
                vec![V::Val(Val::Flags(bits))]
            }
            OInst::CasesLower { blocks, results, what } => {
                let (i, payload) = match self.iface(ops.remove(0), what)? {
                    Val::Variant(i, p) => (i as usize, p),
                    o => return err("vm:kind", format!("{what} lower of {o}")),
                };
                if i >= blocks.len() {
                    return err("harness", format!("{what} lower: case {i} of {}", blocks.len()));
                }
                let fr = Frame { payload: payload.map(|p| V::Val(*p)), ..Frame::default() };
                let out = self.block(blocks[i], fr, host)?;
                self.check_kinds(&format!("{what} lower case {i} block results"), &out, results)?;
                out
            }
            OInst::CasesLift { blocks, payload, what } => {
                let i = self.i32(&ops[0], &format!("{what} lift discriminant"))? as usize;
                if i >= blocks.len() {
                    return err("vm:bad-discriminant", format!("{what} lift: {i} of {}", blocks.len()));
                }
                let mut r = self.block(blocks[i], Frame::default(), host)?;
                let p = match (payload[i], r.len()) {
                    (true, 1) => Some(Box::new(self.iface(r.remove(0), "case payload")?)),
                    (false, 0) => None,
                    (has, n) => {
                        return err("vm:block-results", format!("{what} lift case {i}: payload {has}, block produced {n} values"))
                    }
                };
                vec![V::Val(Val::Variant(i as u32, p))]
            }
            OInst::EnumLower => match self.iface(ops.remove(0), "EnumLower")? {
                Val::Variant(i, None) => vec![V::I32(i)],
                o => return err("vm:kind", format!("EnumLower of {o}")),
            },
            OInst::EnumLift { ncases } => {
                let i = self.i32(&ops[0], "EnumLift")?;
                if i as usize >= *ncases {
                    return err("vm:bad-discriminant", format!("EnumLift {i} of {ncases}"));
                }
                vec![V::Val(Val::Variant(i, None))]
            }
            OInst::CallWasm { name, sig } => {
                self.check_kinds("CallWasm operands", &ops, &sig.params)?;
                let res = host.call_wasm(&mut self.mem, name, sig, &ops)?;
                self.check_kinds("CallWasm results (harness)", &res, &sig.results)
                    .map_err(|e| format!("harness: {e}"))?;
                self.events.push(Event::CallWasm { name: name.clone(), args: ops, results: res.clone() });
                res
            }
            OInst::CallInterface { name, async_, nparams, has_result } => {
                if ops.len() != *nparams {
                    return err("vm:kind", "CallInterface arity");
                }
                for (i, o) in ops.iter().enumerate() {
                    if !matches!(o, V::Val(_)) {
                        return err("vm:kind", format!("CallInterface argument {i} is core {}", o.kind()));
                    }
                }
                let r = host.call_interface(&mut self.mem, name, &ops)?;
                if r.is_some() != *has_result {
                    return err("harness", "CallInterface result arity");
                }
                let r = r.map(V::Val);
                self.events.push(Event::CallInterface { name: name.clone(), async_: *async_, args: ops, result: r.clone() });
                r.into_iter().collect()
            }
            OInst::Return { amt } => {
                if ops.len() != *amt {
                    return err("vm:kind", "Return arity");
                }
                self.events.push(Event::Return { vals: ops });
                self.returned = true;
                vec![]
            }
            OInst::AsyncTaskReturn { name, params } => {
                self.check_kinds("AsyncTaskReturn operands", &ops, params)?;
                self.events.push(Event::TaskReturn { name: name.clone(), params: params.clone(), vals: ops });
                self.returned = true;
                vec![]
            }
            OInst::Malloc { size, align } => {
                let (s, a) = (self.sz(*size), self.al(*align));
                let p = if s == 0 { a.max(1) } else { self.mem.alloc(s, a, RegionKind::Ledger) };
                self.events.push(Event::Malloc { ptr: p, size: s, align: a });
                vec![V::Ptr(p)]
            }
            OInst::RetArea { size, align } => {
                let (s, a) = (self.sz(*size), self.al(*align));
                // size 0: backends hand out a null pointer that must never be dereferenced
                let p = if s == 0 { 0 } else { self.mem.alloc(s, a, RegionKind::Scratch) };
                self.events.push(Event::RetArea { ptr: p, size: s, align: a });
                vec![V::Ptr(p)]
            }
            OInst::GuestDeallocate { size, align } => {
                let p = self.addr(&ops[0], "GuestDeallocate")?;
                let (s, a) = (self.sz(*size), self.al(*align));
                self.events.push(Event::GuestDeallocate { ptr: p, size: s, align: a });
                self.mem.free(p, s, a).map_err(|e| format!("vm:{e}"))?;
                vec![]
            }
            OInst::GuestDeallocateString => {
                let p = self.addr(&ops[0], "GuestDeallocateString")?;
                let n = self.len(&ops[1], "GuestDeallocateString")?;
                self.mem.free(p, n, 1).map_err(|e| format!("vm:{e}"))?;
                vec![]
            }
            OInst::GuestDeallocateList { element, body } => {
                let p = self.addr(&ops[0], "GuestDeallocateList")?;
                let n = self.len(&ops[1], "GuestDeallocateList")?;
                let (es, ea) = (self.sz(self.sizes.size(element)), self.al(self.sizes.align(element)));
                if n > 1 << 24 {
                    return err("vm:oob", format!("list length {n}"));
                }
                if !self.ir.blocks[*body].stmts.is_empty() {
                    for i in 0..n {
                        let fr = Frame { base: Some(V::Ptr(p + i * es)), ..Frame::default() };
                        self.block(*body, fr, host)?;
                    }
                }
                self.mem.free(p, n * es, ea).map_err(|e| format!("vm:{e}"))?;
                vec![]
            }
            OInst::GuestDeallocateMap { key, value, body } => {
                let p = self.addr(&ops[0], "GuestDeallocateMap")?;
                let n = self.len(&ops[1], "GuestDeallocateMap")?;
                let entry = self.sizes.record([key, value]);
                let (sz, al) = (self.sz(entry.size), self.al(entry.align));
                if n > 1 << 24 {
                    return err("vm:oob", format!("map length {n}"));
                }
                if !self.ir.blocks[*body].stmts.is_empty() {
                    for i in 0..n {
                        let fr = Frame { base: Some(V::Ptr(p + i * sz)), ..Frame::default() };
                        self.block(*body, fr, host)?;
                    }
                }
                self.mem.free(p, n * sz, al).map_err(|e| format!("vm:{e}"))?;
                vec![]
            }
            OInst::GuestDeallocateVariant { blocks } => {
                let i = self.i32(&ops[0], "GuestDeallocateVariant")? as usize;
                // backends dispatch `0 => .., 1 => .., _ => last`
                let i = i.min(blocks.len() - 1);
                self.block(blocks[i], Frame::default(), host)?;
                vec![]
            }
            OInst::DropHandle { ty } => match self.iface(ops.remove(0), "DropHandle")? {
                Val::Handle(h) => {
                    self.events.push(Event::DropHandle { handle: h, ty: *ty });
                    vec![]
                }
                o => return err("vm:kind", format!("DropHandle of {o}")),
            },
            OInst::Flush(n) => {
                if ops.len() != *n {
                    return err("vm:kind", "Flush arity");
                }
                ops
            }
        })
    }
}
