//! C03 — cleanup code frees exactly the heap data the lowering allocated.
use e1_abivm::c03::{self, Stats};
use e1_abivm::harness::*;
use refabi::xcheck;
use refabi::Ty;
use serde_json::{json, Value};
use std::collections::{BTreeMap, BTreeSet};

const CHUNK: usize = 24;

fn work_chunk(types: &[Ty]) -> Value {
    vcommon::install_quiet_panic_hook();
    let mut stats = Stats::default();
    let mut findings: Vec<Value> = Vec::new();
    let mut dropped: Vec<Value> = Vec::new();
    let mut disagreements: Vec<String> = Vec::new();
    let mut samples: Vec<Value> = Vec::new();
    let envs: Vec<Env> = match Env::new(types) {
        Ok(e) => vec![e],
        Err(_) => types
            .iter()
            .filter_map(|t| match Env::new(std::slice::from_ref(t)) {
                Ok(e) => Some(e),
                Err(m) => {
                    dropped.push(json!({"type": t.to_string(), "parser": m.lines().next().unwrap_or("")}));
                    None
                }
            })
            .collect(),
    };
    let mut memo: BTreeMap<Ty, BTreeSet<String>> = BTreeMap::new();
    let mut heap_types = 0u64;
    for env in &envs {
        for i in 0..env.types.len() {
            let ty = &env.types[i];
            let mut rep = xcheck::Report::default();
            xcheck::check_type(env.resolve(), &env.sizes, &env.root(i), ty, &mut rep);
            disagreements.extend(rep.disagreements);
            if ty.contains_heap() {
                heap_types += 1;
            }
            let mut fs = Vec::new();
            for pol in c03::policies(ty) {
                fs.extend(c03::check_type(env, i, pol, &mut stats));
            }
            let fs = first_per_class(fs);
            if samples.len() < 2 && ty.contains_heap() {
                let vs = refabi::universe::values(ty);
                samples.push(json!({"type": ty.to_string(), "values": vs.len(), "a_value": vs[vs.len() / 2].to_string()}));
            }
            for f in fs {
                let is_panic = f.class.starts_with("panic:");
                let min = minimise(ty, &f.class, &mut memo, &mut |t| {
                    c03::classes_of(t).into_iter().map(|f| f.class).collect()
                });
                let fmin = c03::classes_of(&min).into_iter().find(|g| g.class == f.class).unwrap_or(f.clone());
                let key = if is_panic { f.class.clone() } else { format!("{}:{}", f.class, min) };
                let mut detail = fmin.detail.clone();
                detail["found_in"] = json!(ty.to_string());
                detail["class"] = json!(f.class);
                findings.push(json!({"key": key, "what": fmin.what, "detail": detail}));
            }
        }
    }
    json!({
        "findings": findings, "dropped": dropped, "disagreements": disagreements, "samples": samples,
        "cases": stats.cases, "nontrivial": stats.nontrivial, "allocs": stats.allocs, "frees": stats.frees,
        "drops": stats.drops, "irs": stats.irs, "outcomes": stats.outcomes.len(), "heap_types": heap_types,
        "types": envs.iter().map(|e| e.types.len()).sum::<usize>(),
    })
}

fn main() {
    let mut run = vcommon::Run::from_args("C03", "exploration");
    vcommon::install_quiet_panic_hook();
    tune_allocator();

    if let Some(d) = run.replay_detail() {
        let ty = Ty::from_json(&d["type"]).unwrap_or_else(|e| vcommon::machinery(&format!("bad replay type: {e}")));
        let class = d["class"].as_str().unwrap_or("").to_string();
        println!("replaying C03 on type {ty} (class {class})");
        let fs = c03::classes_of(&ty);
        for f in &fs {
            println!("  {}: {}", f.class, f.what);
        }
        let still = fs.iter().any(|f| f.class == class);
        println!("{}", if still { "REPLAY: still fails" } else { "REPLAY: passes now" });
        std::process::exit(if still { 1 } else { 0 });
    }

    let uni_name = run.pick("quick", "deep");
    let mut types = refabi::universe::universe(uni_name);
    if !run.thorough() {
        // quick: add the heap-carrying part of U2 (where cleanup has something to do)
        let extra: Vec<Ty> = refabi::universe::u2().into_iter().filter(|t| t.contains_heap()).collect();
        let mut seen: BTreeSet<Ty> = types.iter().cloned().collect();
        types.extend(extra.into_iter().filter(|t| seen.insert(t.clone())));
    }
    rotate(&mut types, run.seed);
    let chunks: Vec<Vec<Ty>> = types.chunks(CHUNK).map(|c| c.to_vec()).collect();
    let results = vcommon::par_map(chunks.len(), vcommon::ncpu(), |i| work_chunk(&chunks[i]));

    let mut tot: BTreeMap<&str, u64> = BTreeMap::new();
    let mut dropped = Vec::new();
    let mut samples = Vec::new();
    let mut disagreements = Vec::new();
    for r in &results {
        for k in ["cases", "nontrivial", "allocs", "frees", "drops", "irs", "outcomes", "types", "heap_types"] {
            *tot.entry(k).or_insert(0) += r[k].as_u64().unwrap_or(0);
        }
        dropped.extend(r["dropped"].as_array().cloned().unwrap_or_default());
        if samples.len() < 8 {
            samples.extend(r["samples"].as_array().cloned().unwrap_or_default().into_iter().take(1));
        }
        for d in r["disagreements"].as_array().cloned().unwrap_or_default() {
            disagreements.push(d.as_str().unwrap_or("").to_string());
        }
    }
    if !disagreements.is_empty() {
        vcommon::machinery(&format!(
            "reference disagrees with trusted wit-parser function on {} shapes, first: {}",
            disagreements.len(),
            disagreements[0]
        ));
    }
    for r in &results {
        for f in r["findings"].as_array().cloned().unwrap_or_default() {
            run.violation(f["key"].as_str().unwrap_or("?"), f["what"].as_str().unwrap_or(""), f["detail"].clone());
        }
    }
    let coverage = json!({
        "evaluations": tot["cases"],
        "distinct_nontrivial": tot["nontrivial"],
        "rule": "a case = (type, list policy, pointer width, value, cleanup entry point) plus one needs-post-return comparison per type; it is counted non-trivial when the lowering allocated at least one heap buffer or the value holds an owned handle (so the cleanup stream had something to free or drop)",
        "distinct_outcomes": tot["outcomes"],
        "distinct_outcomes_rule": "distinct (multiset of allocated (size,align), list of dropped handles), summed over work chunks",
        "exhaustive": true,
        "universe": if run.thorough() { "deep".to_string() } else { "quick ∪ heap-carrying part of u2".to_string() },
        "types": tot["types"],
        "types_with_heap": tot["heap_types"],
        "entry_points": ["post_return after call(GuestExport, LiftArgsLowerResults, func() -> T) (when guest_export_needs_post_return)",
                         "deallocate_lists_in_types / deallocate_lists_and_own_in_types, indirect, types [T] and [u8, T] after lower_to_memory",
                         "deallocate_lists_in_types / deallocate_lists_and_own_in_types, direct operands (flatten(T) <= 16) after lower_flat"],
        "buffers_allocated": tot["allocs"], "frees_observed": tot["frees"], "handles_dropped": tot["drops"],
        "instruction_streams_recorded": tot["irs"],
        "pointer_widths": [4, 8],
        "oracle": "frees == ledger of the lowering as multisets of (ptr,size,align) [double / foreign / wrong-layout frees and use-after-free are VM errors], nothing left allocated, DropHandle set == own/future/stream handles of the value in lists+own mode and empty in lists mode, borrows never dropped, ledger == refabi.heap_buffers, guest_export_needs_post_return <=> refabi contains_heap",
        "bounds": refabi::universe::bounds_json(),
        "dropped_shapes": dropped,
        "samples": samples,
    });
    run.finish(coverage, vec![
        "a heap buffer = the out-of-line storage of a string, list or map; size-0 buffers are neither allocated nor freed (cabi_realloc / cabi_dealloc are no-ops on size 0), as in the Rust and C runtimes".into(),
        "error-context handles: the property names resource, future and stream handles only, so dropping or not dropping an error-context is not judged".into(),
        "direct-operand cleanup is exercised only for flatten(T) <= 16 (the only situation in which the canonical ABI passes values flat)".into(),
        "lowering happens through lower_to_memory / lower_flat / call(GuestExport, LiftArgsLowerResults), all of which use realloc = cabi_realloc, i.e. callee-owned buffers".into(),
        "pointer width 8 = ArchitectureSize extrapolation; oracle sizes/alignments from refabi, cross-checked against wit-parser SizeAlign (disagreement = exit 2)".into(),
    ]);
}
