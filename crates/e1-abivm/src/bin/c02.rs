//! C02 — call glue follows the canonical calling convention for every signature.
use e1_abivm::c02::*;
use e1_abivm::harness::*;
use refabi::xcheck;
use serde_json::{json, Value};
use std::collections::BTreeMap;
use wit_parser::SizeAlign;

const CHUNK: usize = 40;

type Table = BTreeMap<String, (u64, u64, BTreeMap<String, (u64, String, Value, String)>)>;

/// Per work chunk: for every triple, tallies of what happened, with the first signature seen per
/// (triple, class).
fn work_chunk(sigs: &[Sig], triples: &[Triple]) -> Value {
    vcommon::install_quiet_panic_hook();
    let decls: Vec<_> = sigs.iter().enumerate().map(|(i, s)| s.decl(&format!("g{i}"))).collect();
    let parsed = match env_funcs(&decls) {
        Ok(p) => p,
        Err(e) => vcommon::machinery(&format!("C02 signatures must parse: {e}")),
    };
    let mut sizes = SizeAlign::default();
    sizes.fill(&parsed.resolve);
    let mut rep = xcheck::Report::default();
    let mut stats = RunStats::default();
    let mut table: Table = BTreeMap::new();
    for (i, sig) in sigs.iter().enumerate() {
        let func = parsed.func(&format!("g{i}"));
        xcheck::check_signature(&parsed.resolve, func, &sig.params, sig.result.as_ref(), &mut rep);
        for t in triples {
            let (panicked, problems) = eval(&parsed.resolve, &sizes, func, sig, *t, &mut stats);
            let e = table.entry(t.name()).or_default();
            e.0 += 1;
            if panicked.is_none() {
                e.1 += 1;
            }
            let kind = match panicked {
                Some(PanicKind::Todo) => "todo",
                Some(PanicKind::Unreachable) => "unreachable",
                Some(PanicKind::Other) => "panic",
                None => "problem",
            };
            for (class, msg) in problems {
                let c = e.2.entry(class).or_insert((0, kind.to_string(), sig.to_json(), msg));
                c.0 += 1;
            }
        }
    }
    let table_json: BTreeMap<String, Value> = table
        .into_iter()
        .map(|(k, (n, complete, classes))| {
            let cl: BTreeMap<String, Value> = classes
                .into_iter()
                .map(|(c, (n, kind, first, msg))| (c, json!({"count": n, "kind": kind, "first": first, "message": msg})))
                .collect();
            (k, json!({"signatures": n, "complete": complete, "classes": cl}))
        })
        .collect();
    json!({"table": table_json, "disagreements": rep.disagreements, "signatures": sigs.len(),
           "sigs_xchecked": rep.signatures_compared, "runs": stats.runs, "nontrivial": stats.nontrivial,
           "outcomes": stats.outcomes.len(), "recordings": sigs.len() * triples.len()})
}

fn merge(results: &[Value], table: &mut Table, tot: &mut BTreeMap<&'static str, u64>, disagreements: &mut Vec<String>) {
    for r in results {
        for d in r["disagreements"].as_array().unwrap() {
            disagreements.push(d.as_str().unwrap().to_string());
        }
        for k in ["signatures", "sigs_xchecked", "runs", "nontrivial", "outcomes", "recordings"] {
            *tot.entry(k).or_insert(0) += r[k].as_u64().unwrap_or(0);
        }
        for (tn, tv) in r["table"].as_object().unwrap() {
            let e = table.entry(tn.clone()).or_default();
            e.0 += tv["signatures"].as_u64().unwrap();
            e.1 += tv["complete"].as_u64().unwrap();
            for (c, cv) in tv["classes"].as_object().unwrap() {
                let x = e.2.entry(c.clone()).or_insert((
                    0,
                    cv["kind"].as_str().unwrap().to_string(),
                    cv["first"].clone(),
                    cv["message"].as_str().unwrap().to_string(),
                ));
                x.0 += cv["count"].as_u64().unwrap();
                // keep the smallest example
                let cur = Sig::from_json(&x.2).unwrap();
                let cand = Sig::from_json(&cv["first"]).unwrap();
                if (cand.params.len(), cand.text().len()) < (cur.params.len(), cur.text().len()) {
                    x.2 = cv["first"].clone();
                    x.3 = cv["message"].as_str().unwrap().to_string();
                }
            }
        }
    }
}

fn classify(t: Triple, n: u64, complete: u64, classes: &BTreeMap<String, (u64, String, Value, String)>) -> &'static str {
    let used = used_triples().iter().any(|(u, _)| *u == t);
    let declared_only = classes.iter().filter(|(_, v)| v.1 != "problem").all(|(_, v)| v.1 == "todo" || v.1 == "unreachable");
    if used {
        "used"
    } else if n > 0 && complete == 0 && declared_only {
        "unimplemented"
    } else if !t.consistent() {
        "inconsistent (not judged)"
    } else {
        "complete"
    }
}

fn main() {
    let mut run = vcommon::Run::from_args("C02", "exploration");
    vcommon::install_quiet_panic_hook();
    tune_allocator();

    if let Some(d) = run.replay_detail() {
        let sig = Sig::from_json(&d["signature"]).unwrap_or_else(|e| vcommon::machinery(&format!("bad replay signature: {e}")));
        let t = Triple::parse(d["triple"].as_str().unwrap_or("")).unwrap_or_else(|| vcommon::machinery("bad replay triple"));
        let class = d["class"].as_str().unwrap_or("").to_string();
        println!("replaying C02: {} as {} (class {class})", sig.text(), t.name());
        let cl = classes_for(&sig, t).unwrap_or_default();
        for (c, m) in &cl {
            println!("  {c}: {m}");
        }
        let still = cl.iter().any(|(c, _)| *c == class);
        println!("{}", if still { "REPLAY: still fails" } else { "REPLAY: passes now" });
        std::process::exit(if still { 1 } else { 0 });
    }

    // ---- phase 1: all 16 triples on the base space (suffix length <= 2): classification + verdicts
    let mut base = signatures(2);
    rotate(&mut base, run.seed);
    let all = Triple::all();
    let chunks: Vec<Vec<Sig>> = base.chunks(CHUNK).map(|c| c.to_vec()).collect();
    let results = vcommon::par_map(chunks.len(), vcommon::ncpu(), |i| work_chunk(&chunks[i], &all));
    let mut table: Table = BTreeMap::new();
    let mut tot: BTreeMap<&'static str, u64> = BTreeMap::new();
    let mut disagreements: Vec<String> = Vec::new();
    merge(&results, &mut table, &mut tot, &mut disagreements);
    let class_of: BTreeMap<String, &'static str> = all
        .iter()
        .map(|t| {
            let (n, c, cl) = table.get(&t.name()).cloned().unwrap_or_default();
            (t.name(), classify(*t, n, c, &cl))
        })
        .collect();

    // ---- phase 2 (thorough): the judged triples on the signatures with suffix length exactly 3
    let mut deepest = 2;
    let mut extra_sigs = 0u64;
    if run.thorough() {
        let judged: Vec<Triple> = all.iter().copied().filter(|t| matches!(class_of[&t.name()], "used" | "complete")).collect();
        let mut deep: Vec<Sig> = signatures(3).into_iter().filter(|s| s.params.iter().filter(|t| **t != refabi::Ty::U32).count() == 3).collect();
        rotate(&mut deep, run.seed);
        extra_sigs = deep.len() as u64;
        let chunks: Vec<Vec<Sig>> = deep.chunks(CHUNK).map(|c| c.to_vec()).collect();
        let results = vcommon::par_map(chunks.len(), vcommon::ncpu(), |i| work_chunk(&chunks[i], &judged));
        merge(&results, &mut table, &mut tot, &mut disagreements);
        deepest = 3;
    }
    if !disagreements.is_empty() {
        for d in disagreements.iter().take(10) {
            eprintln!("  {d}");
        }
        vcommon::machinery(&format!(
            "reference flatten_functype disagrees with trusted wit-parser wasm_signature on {} signatures, first: {}",
            disagreements.len(),
            disagreements[0]
        ));
    }
    let used: BTreeMap<String, &'static str> = used_triples().into_iter().map(|(t, w)| (t.name(), w)).collect();

    // ---- judge
    let mut classification: BTreeMap<String, Value> = BTreeMap::new();
    let mut samples: Vec<Value> = Vec::new();
    for t in &all {
        let name = t.name();
        let (n, complete, classes) = table.get(&name).cloned().unwrap_or_default();
        let class = class_of[&name];
        let mut listed: BTreeMap<String, Value> = BTreeMap::new();
        for (c, (cnt, kind, first, msg)) in &classes {
            let sig = Sig::from_json(first).unwrap();
            listed.insert(c.clone(), json!({"signatures": cnt, "kind": kind, "example": sig.text(), "message": msg.chars().take(300).collect::<String>()}));
            let judged = match class {
                "used" => true,
                // a complete triple: paths that end in an explicit todo!() are listed as
                // unimplemented paths, everything else counts
                "complete" => kind != "todo",
                _ => false,
            };
            if judged {
                let min = minimise_sig(&sig, *t, c);
                let msg_min = classes_for(&min, *t)
                    .and_then(|cl| cl.into_iter().find(|(k, _)| k == c).map(|(_, m)| m))
                    .unwrap_or(msg.clone());
                let key = if c.starts_with("panic:") { format!("{c}:{name}") } else { format!("{c}:{name}:{}", min.text()) };
                run.violation(
                    &key,
                    &format!("{} as {name}: {c}: {msg_min}", min.text()),
                    json!({"signature": min.to_json(), "signature_text": min.text(), "triple": name, "class": c, "message": msg_min,
                           "signatures_affected": cnt, "first_seen": sig.text()}),
                );
            }
        }
        if samples.len() < 6 && complete > 0 {
            samples.push(json!({"triple": name, "signatures_completed": complete, "a_signature": base[(samples.len() * 997 + 131) % base.len()].text()}));
        }
        classification.insert(
            name.clone(),
            json!({"class": class, "used_by": used.get(&name), "signatures": n, "completed": complete, "panicked": n - complete, "observations": listed}),
        );
    }

    let coverage = json!({
        "evaluations": tot["runs"],
        "distinct_nontrivial": tot["nontrivial"],
        "rule": "an evaluation = one VM run of a recorded call glue: (signature, (AbiVariant, LiftLower, async) triple, pointer width, value assignment); non-trivial when the run executed at least one store / load / bitcast / allocation / deallocation / case dispatch",
        "distinct_outcomes": tot["outcomes"],
        "distinct_outcomes_rule": "distinct terminal events (Return / AsyncTaskReturn with their values), summed over work chunks",
        "exhaustive": true,
        "signatures_all_triples": base.len(),
        "signatures_judged_triples_only": extra_sigs,
        "deepest_completed_suffix_length": deepest,
        "signature_space": {"prefix": "0..=18 u32 parameters", "suffix_alphabet": suffix_alphabet().iter().map(|t| t.to_string()).collect::<Vec<_>>(),
                            "suffix_length": "<= 2 for all 16 triples; thorough: = 3 additionally for the used and complete triples",
                            "result_alphabet": result_alphabet().iter().map(|t| t.as_ref().map(|t| t.to_string()).unwrap_or("none".into())).collect::<Vec<_>>()},
        "limits_crossed": "flat parameter counts 0..=18+ cross 16 (sync, async lift) and 4 (async lower) from both sides; results with 0, 1, 2, 3, 4, 5, 16 and 17 flat values cross 1 (sync results), 4 (must NOT matter for task.return) and 16 (task.return) from both sides",
        "triples": 16,
        "recordings": tot["recordings"],
        "value_assignments_per_run": ASSIGNMENTS,
        "pointer_widths": [4, 8],
        "signatures_cross_checked_with_wasm_signature": tot["sigs_xchecked"],
        "classification": classification,
        "classification_rule": "decided by the run on the base space: used = passed to abi::call by an in-repo backend (judged strictly: any panic or deviation is a violation); unimplemented = every signature ends in todo!()/unreachable!() (listed, not judged); inconsistent = async flag contradicts the ABI variant and no backend uses it (no canonical meaning; listed, not judged); complete = the rest (judged; paths that end in an explicit todo!() are listed as unimplemented paths, every other panic or deviation is a violation)",
        "oracle": "exactly one CallWasm/CallInterface and exactly one Return/AsyncTaskReturn; CallWasm signature == refabi.flatten_functype; parameters decode (refabi.lift_flat_values: flat or through the tuple-laid-out record) to the arguments; results come back flat / through the return area (size, align, contents by refabi.load) / through one task.return with the canonical flattening; a callee-side indirect parameter record is GuestDeallocate'd exactly once with its size and alignment, and nothing else is; operand stack empty and no instruction after the return (generator assertions and VM)",
        "samples": samples,
    });
    run.finish(coverage, vec![
        "variant -> spec reading: GuestImport = canon lower (sync), GuestExport = canon lift (sync), GuestImportAsync = async canon lower, GuestExportAsync = async canon lift with callback (core result i32)".into(),
        "task.return parameters = the result flattened as parameters (limit 16), else one pointer (CanonicalABI: canon task.return)".into(),
        "for import variants combined with async = true (host side of an async import; no backend uses it) only parameter delivery, call count and return count are judged: how such glue should hand results back is the generator's private convention, not the spec's".into(),
        "async *imports* are assembled by the backends from lower_to_memory / lower_flat / lift_from_memory (C01, C08), so (GuestImportAsync, LowerArgsLiftResults, async) is not used by any backend".into(),
        "u32 parameters carry position-unique values, other parameters and the result cycle through V(T); two assignments per run".into(),
        "pointer width 8 = ArchitectureSize extrapolation; wasm_signature is cross-checked against refabi.flatten_functype for every signature and variant (disagreement = exit 2)".into(),
    ]);
}
