fn main(){}
