//! C01 — shared ABI generator encodes and decodes every WIT value per the spec.
use e1_abivm::c01::{self, Stats};
use e1_abivm::harness::*;
use refabi::xcheck;
use refabi::Ty;
use serde_json::{json, Value};
use std::collections::{BTreeMap, BTreeSet};

const CHUNK: usize = 24;

fn work_chunk(types: &[Ty]) -> Value {
    vcommon::install_quiet_panic_hook();
    let mut stats = Stats::default();
    let mut findings: Vec<Value> = Vec::new();
    let mut dropped: Vec<Value> = Vec::new();
    let mut disagreements: Vec<String> = Vec::new();
    let mut tolerated: BTreeSet<String> = BTreeSet::new();
    let mut samples: Vec<Value> = Vec::new();
    let mut nodes = 0usize;
    // a chunk that does not parse as a whole is retried type by type
    let envs: Vec<(Env, Vec<usize>)> = match Env::new(types) {
        Ok(e) => vec![(e, (0..types.len()).collect())],
        Err(_) => types
            .iter()
            .enumerate()
            .filter_map(|(i, t)| match Env::new(std::slice::from_ref(t)) {
                Ok(e) => Some((e, vec![i])),
                Err(m) => {
                    dropped.push(json!({"type": t.to_string(), "parser": m.lines().next().unwrap_or("")}));
                    None
                }
            })
            .collect(),
    };
    let mut memo: BTreeMap<Ty, BTreeSet<String>> = BTreeMap::new();
    for (env, _) in &envs {
        for i in 0..env.types.len() {
            let ty = &env.types[i];
            // trusted-base cross-check first
            let mut rep = xcheck::Report::default();
            xcheck::check_type(env.resolve(), &env.sizes, &env.root(i), ty, &mut rep);
            nodes += rep.nodes_compared;
            disagreements.extend(rep.disagreements);
            tolerated.extend(rep.tolerated);
            let mut fs = Vec::new();
            for pol in c01::policies(ty) {
                fs.extend(c01::check_type(env, i, pol, &mut stats));
            }
            let fs = first_per_class(fs);
            if samples.len() < 3 {
                let vs = refabi::universe::values(ty);
                let k = samples.len();
                let pols = c01::policies(ty);
                let width = if k % 2 == 0 { 4 } else { 8 };
                let form = match k % 3 {
                    0 => "flat (lower_flat, lift via call(GuestExport,LiftArgsLowerResults))",
                    1 => "memory at base+24, prefill 0x5a",
                    _ => "memory at base+8, prefill 0xa5",
                };
                samples.push(json!({"type": ty.to_string(), "value": vs[(k * 5 + 1) % vs.len()].to_string(), "of_values": vs.len(),
                    "pointer_width": width, "list_policy": format!("{:?}", pols[k % pols.len()]), "form": form}));
            }
            for f in fs {
                let is_panic = f.class.starts_with("panic:");
                let min = minimise(ty, &f.class, &mut memo, &mut |t| {
                    c01::classes_of(t).into_iter().map(|f| f.class).collect()
                });
                // re-run on the minimal type to get its own detail
                let fmin = c01::classes_of(&min).into_iter().find(|g| g.class == f.class).unwrap_or(f.clone());
                let key = if is_panic { f.class.clone() } else { format!("{}:{}", f.class, min) };
                let mut detail = fmin.detail.clone();
                detail["found_in"] = json!(ty.to_string());
                detail["class"] = json!(f.class);
                findings.push(json!({"key": key, "what": fmin.what, "detail": detail}));
            }
        }
    }
    json!({
        "findings": findings, "dropped": dropped, "disagreements": disagreements,
        "tolerated": tolerated.into_iter().collect::<Vec<_>>(), "nodes": nodes, "samples": samples,
        "cases": stats.cases, "comparisons": stats.comparisons, "nontrivial": stats.nontrivial,
        "vm_steps": stats.vm_steps, "outcomes": stats.outcomes.len(), "irs": stats.irs, "ir_insts": stats.ir_insts,
        "types": envs.iter().map(|(e, _)| e.types.len()).sum::<usize>(),
    })
}

fn main() {
    let mut run = vcommon::Run::from_args("C01", "exploration");
    vcommon::install_quiet_panic_hook();
    tune_allocator();

    if let Some(d) = run.replay_detail() {
        let ty = Ty::from_json(&d["type"]).unwrap_or_else(|e| vcommon::machinery(&format!("bad replay type: {e}")));
        let class = d["class"].as_str().unwrap_or("").to_string();
        println!("replaying C01 on type {ty} (class {class})");
        let fs = c01::classes_of(&ty);
        for f in &fs {
            println!("  {}: {}", f.class, f.what);
        }
        let still = fs.iter().any(|f| f.class == class);
        println!("{}", if still { "REPLAY: still fails" } else { "REPLAY: passes now" });
        std::process::exit(if still { 1 } else { 0 });
    }

    let uni_name = run.pick("quick", "deep");
    let mut types = refabi::universe::universe(uni_name);
    rotate(&mut types, run.seed);
    let chunks: Vec<Vec<Ty>> = types.chunks(CHUNK).map(|c| c.to_vec()).collect();
    let results = vcommon::par_map(chunks.len(), vcommon::ncpu(), |i| work_chunk(&chunks[i]));

    let mut tot: BTreeMap<&str, u64> = BTreeMap::new();
    let mut dropped = Vec::new();
    let mut tolerated = BTreeSet::new();
    let mut samples = Vec::new();
    let mut disagreements = Vec::new();
    for r in &results {
        for k in ["cases", "comparisons", "nontrivial", "vm_steps", "outcomes", "irs", "ir_insts", "types", "nodes"] {
            *tot.entry(k).or_insert(0) += r[k].as_u64().unwrap_or(0);
        }
        dropped.extend(r["dropped"].as_array().cloned().unwrap_or_default());
        for t in r["tolerated"].as_array().cloned().unwrap_or_default() {
            tolerated.insert(t.as_str().unwrap_or("").to_string());
        }
        if samples.len() < 8 {
            samples.extend(r["samples"].as_array().cloned().unwrap_or_default().into_iter().take(1));
        }
        for d in r["disagreements"].as_array().cloned().unwrap_or_default() {
            disagreements.push(d.as_str().unwrap_or("").to_string());
        }
    }
    if !disagreements.is_empty() {
        for d in disagreements.iter().take(10) {
            eprintln!("  {d}");
        }
        vcommon::machinery(&format!(
            "reference disagrees with trusted wit-parser function on {} shapes, first: {}",
            disagreements.len(),
            disagreements[0]
        ));
    }
    for r in &results {
        for f in r["findings"].as_array().cloned().unwrap_or_default() {
            run.violation(f["key"].as_str().unwrap_or("?"), f["what"].as_str().unwrap_or(""), f["detail"].clone());
        }
    }
    let coverage = json!({
        "evaluations": tot["cases"],
        "comparisons": tot["comparisons"],
        "distinct_nontrivial": tot["nontrivial"],
        "rule": "a case = (type, list policy, pointer width, value, form) with form = flat or in-memory at one (base offset, prefill); it is counted non-trivial when the VM run of the real instruction stream executed at least one store / load / bitcast / allocation / case dispatch (flat form: or produced more than one core value)",
        "distinct_outcomes": tot["outcomes"],
        "distinct_outcomes_rule": "distinct lowered encodings (flat core values, or canonical form of the written bytes) summed over work chunks",
        "exhaustive": true,
        "universe": uni_name,
        "types": tot["types"],
        "instruction_streams_recorded": tot["irs"],
        "instructions_recorded": tot["ir_insts"],
        "vm_steps": tot["vm_steps"],
        "pointer_widths": [4, 8],
        "list_policies": ["ElementWise", "CanonicalScalars (types containing list<numeric scalar>)"],
        "forms": {"flat": "when flatten(T) <= 16: lower_flat; lift through call(GuestExport, LiftArgsLowerResults, func(p0: T))",
                  "memory": format!("lower_to_memory / lift_from_memory at base offsets {{{}}} inside an 8-aligned buffer, prefill 0xA5 and 0x5A", c01::BASE_OFFSETS_DOC)},
        "comparisons_per_case": "(1) VM-lowered flat values == refabi.lower_flat (pointers followed), (2) VM-written bytes == refabi.store on the defined-bytes mask + no stray write, (3) VM-lift of the refabi encoding (garbage in padding / inactive payload / unused joined slots) == v, (4) VM-lift(VM-lower(v)) == v",
        "bounds": refabi::universe::bounds_json(),
        "xcheck": {"nodes_compared_with_wit_parser": tot["nodes"], "disagreements": 0, "tolerated_divergences": tolerated.into_iter().collect::<Vec<_>>()},
        "dropped_shapes": dropped,
        "samples": samples,
    });
    run.finish(coverage, assumptions());
}

fn assumptions() -> Vec<String> {
    vec![
        "oracle = refabi, written from CanonicalABI.md; cross-checked against wit-parser SizeAlign/push_flat on every node of every enumerated type (disagreement = exit 2)".into(),
        "pointer width 8 is the extrapolation ArchitectureSize encodes: pointer and length are 8 bytes, 8-aligned, flat type i64".into(),
        "flags with >32 members use the multi-i32 representation; flags#0 appears only as a root type (current spec requires 0<n<=32; wit-parser gives it alignment 4, the pre-2024 spec text 1 - listed under tolerated_divergences)".into(),
        "map<K,V> is list<tuple<K,V>>; strings are utf-8".into(),
        "any NaN is accepted as the image of a NaN (the spec allows canonicalisation)".into(),
        "lifting uses spec-valid inputs only: bool 0/1, valid scalar values, in-range discriminants (out-of-range handling is C14's subject)".into(),
        "VM instruction semantics = doc comments of Instruction + DESIGN Appendix C; ListCanonLower/Lift copy elements with refabi.store/load (the contract says the native layout is the canonical one)".into(),
        "value kinds are checked exactly (i32 / i64 / f32 / f64 / pointer / length / pointer-or-i64), as a typed backend such as Rust would".into(),
    ]
}
