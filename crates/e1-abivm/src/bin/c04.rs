//! C04 — variant payload slot joining is lossless and matches the spec (core part: the pairs
//! the generator must be able to cast, under the VM's spec semantics).
use e1_abivm::c01::{self, Forms, Stats};
use e1_abivm::c04::*;
use e1_abivm::harness::*;
use e1_abivm::ir::ListPolicy;
use refabi::Ty;
use serde_json::{json, Value};
use std::collections::{BTreeMap, BTreeSet};
use wit_bindgen_core::abi::{self as gen, WasmType};

const CHUNK: usize = 32;
const FLAT: Forms = Forms { flat: true, mem: false };

fn wt_name(t: WasmType) -> String {
    format!("{t:?}")
}
fn wt_parse(s: &str) -> WasmType {
    *ALL_WASM_TYPES.iter().find(|t| wt_name(**t) == s).expect("wasm type name")
}

fn work_chunk(types: &[Ty]) -> Value {
    vcommon::install_quiet_panic_hook();
    let mut stats = Stats::default();
    let mut pairs: BTreeSet<(String, String)> = BTreeSet::new();
    let mut disagreements = Vec::new();
    let mut findings = Vec::new();
    let mut memo: BTreeMap<Ty, BTreeSet<String>> = BTreeMap::new();
    let env = match Env::new(types) {
        Ok(e) => e,
        Err(m) => vcommon::machinery(&format!("C04 shapes must parse: {m}")),
    };
    for i in 0..types.len() {
        match pairs_of_variant(&env, i) {
            Ok(ps) => pairs.extend(ps.into_iter().map(|(a, j)| (wt_name(a), wt_name(j)))),
            Err(e) => disagreements.push(e),
        }
        let fs = c01::check_type_forms(&env, i, ListPolicy::ElementWise, FLAT, &mut stats);
        for f in fs {
            let class = format!("variant-flat:{}", f.class);
            let is_panic = f.class.starts_with("panic:");
            let min = minimise(&types[i], &f.class, &mut memo, &mut |t| {
                c01::classes_of_forms(t, FLAT).into_iter().map(|f| f.class).collect()
            });
            let fmin = c01::classes_of_forms(&min, FLAT).into_iter().find(|g| g.class == f.class).unwrap_or(f.clone());
            let key = if is_panic { class.clone() } else { format!("{class}:{min}") };
            let mut detail = fmin.detail.clone();
            detail["class"] = json!(f.class);
            detail["found_in"] = json!(types[i].to_string());
            findings.push(json!({"key": key, "what": fmin.what, "detail": detail}));
        }
    }
    json!({"pairs": pairs.into_iter().collect::<Vec<_>>(), "disagreements": disagreements, "findings": findings,
           "cases": stats.cases, "comparisons": stats.comparisons, "nontrivial": stats.nontrivial, "outcomes": stats.outcomes.len(),
           "types": types.len()})
}

fn main() {
    let mut run = vcommon::Run::from_args("C04", "exploration");
    vcommon::install_quiet_panic_hook();
    tune_allocator();

    if let Some(d) = run.replay_detail() {
        if let Some(p) = d["pair"].as_array() {
            let (a, j) = (wt_parse(p[0].as_str().unwrap()), wt_parse(p[1].as_str().unwrap()));
            let mut st = PairStats::default();
            let fs = check_pair(a, j, &mut st);
            for f in &fs {
                println!("  {}: {}", f.class, f.what);
            }
            println!("{}", if fs.is_empty() { "REPLAY: passes now" } else { "REPLAY: still fails" });
            std::process::exit(if fs.is_empty() { 0 } else { 1 });
        }
        let ty = Ty::from_json(&d["type"]).unwrap_or_else(|e| vcommon::machinery(&format!("bad replay type: {e}")));
        let class = d["class"].as_str().unwrap_or("").to_string();
        let fs = c01::classes_of_forms(&ty, FLAT);
        for f in &fs {
            println!("  {}: {}", f.class, f.what);
        }
        let still = fs.iter().any(|f| f.class == class);
        println!("{}", if still { "REPLAY: still fails" } else { "REPLAY: passes now" });
        std::process::exit(if still { 1 } else { 0 });
    }

    let deep = run.thorough();
    let max_len = 4;
    let seqs = sequences(max_len);
    let mut lattice: Vec<Ty> = seqs.iter().map(|s| seq_type(s)).collect();
    let n_seqs = lattice.len();
    let mut seen = BTreeSet::new();
    lattice.retain(|t| seen.insert(t.clone()));
    let shapes = variant_shapes(deep);
    let n_shapes = shapes.len();
    let mut all: Vec<Ty> = lattice.clone();
    all.extend(shapes.iter().filter(|t| !seen.contains(*t)).cloned());
    rotate(&mut all, run.seed);
    let chunks: Vec<Vec<Ty>> = all.chunks(CHUNK).map(|c| c.to_vec()).collect();
    let results = vcommon::par_map(chunks.len(), vcommon::ncpu(), |i| work_chunk(&chunks[i]));

    let mut pairs: BTreeSet<(WasmType, WasmType)> = BTreeSet::new();
    let mut disagreements: Vec<String> = Vec::new();
    let mut tot: BTreeMap<&str, u64> = BTreeMap::new();
    for r in &results {
        for p in r["pairs"].as_array().unwrap() {
            pairs.insert((wt_parse(p[0].as_str().unwrap()), wt_parse(p[1].as_str().unwrap())));
        }
        for d in r["disagreements"].as_array().unwrap() {
            disagreements.push(d.as_str().unwrap().to_string());
        }
        for k in ["cases", "comparisons", "nontrivial", "outcomes", "types"] {
            *tot.entry(k).or_insert(0) += r[k].as_u64().unwrap_or(0);
        }
    }
    if !disagreements.is_empty() {
        for d in disagreements.iter().take(10) {
            eprintln!("  {d}");
        }
        vcommon::machinery(&format!(
            "reference join disagrees with trusted wit-parser join on {} shapes, first: {}",
            disagreements.len(),
            disagreements[0]
        ));
    }
    // the full 7x7 matrix of `cast`, for the record
    let mut matrix = BTreeMap::new();
    for a in ALL_WASM_TYPES {
        for b in ALL_WASM_TYPES {
            let r = match vcommon::catch(|| gen::cast(a, b)) {
                Ok(c) => format!("{c:?}"),
                Err(_) => "panics".to_string(),
            };
            matrix.insert(format!("{a:?}->{b:?}"), json!({"cast": r, "occurs_as_payload_to_joined": pairs.contains(&(a, b)), "occurs_as_joined_to_payload": pairs.contains(&(b, a))}));
        }
    }
    let mut pst = PairStats::default();
    let mut pair_samples = Vec::new();
    for (a, j) in &pairs {
        let fs = check_pair(*a, *j, &mut pst);
        if pair_samples.len() < 6 && a != j {
            pair_samples.push(json!({"payload": wt_name(*a), "joined": wt_name(*j), "lower_cast": matrix[&format!("{a:?}->{j:?}")]["cast"], "lift_cast": matrix[&format!("{j:?}->{a:?}")]["cast"]}));
        }
        for f in fs {
            let mut detail = f.detail.clone();
            detail["class"] = json!(f.class);
            run.violation(&f.class, &f.what, detail);
        }
    }
    for r in &results {
        for f in r["findings"].as_array().cloned().unwrap_or_default() {
            run.violation(f["key"].as_str().unwrap_or("?"), f["what"].as_str().unwrap_or(""), f["detail"].clone());
        }
    }
    let nontrivial_pairs = pairs.iter().filter(|(a, j)| a != j).count();
    let coverage = json!({
        "evaluations": pst.conversions + tot["cases"],
        "distinct_nontrivial": pst.nontrivial + tot["nontrivial"],
        "rule": "pair part: one evaluation = (payload slot type, joined slot type, pointer width, bit pattern) converted up with cast(a,j) and back with cast(j,a); non-trivial when the cast is not Bitcast::None. shape part: one evaluation = (variant type, width, value) lowered flat and lifted by the recorded instruction stream; non-trivial when the VM executed a bitcast / store / case dispatch",
        "exhaustive": true,
        "join_lattice": {"alphabet": ALL_WASM_TYPES.iter().map(|t| wt_name(*t)).collect::<Vec<_>>(), "max_sequence_length": max_len, "sequences": n_seqs, "distinct_variant_types": lattice.len(), "slot": 3},
        "variant_shapes": {"count": n_shapes, "depth": if deep {2} else {1}, "payload_alphabet": "Lc ∪ {list<u8>}; thorough: plus nested 2-case variants / options over {u32,u64,f32,f64,string}"},
        "types_run_through_generator": tot["types"],
        "pairs_occurring": pairs.len(),
        "pairs_occurring_nontrivial": nontrivial_pairs,
        "pair_conversions": pst.conversions,
        "flat_cases": tot["cases"],
        "flat_comparisons": tot["comparisons"],
        "distinct_outcomes": tot["outcomes"],
        "pointer_widths": [4, 8],
        "cast_matrix": matrix,
        "samples": pair_samples,
    });
    run.finish(coverage, vec![
        "core part of C04 only: the generator must offer a cast for every (payload slot, joined slot) pair that valid WIT produces, and the instruction stream it emits must convert per the spec when Bitcast is given the spec's semantics; what each backend's perform_cast emits is checked by the E3/E4/E6 engines".into(),
        "Bitcast semantics in the VM: f32<->i32, f64<->i64 reinterpret; i32->i64 zero-extend (the spec's rule; abi.rs does not document the variants), i64->i32 wrap; pointer/length are 4 or 8 bytes wide, pointer-or-i64 64 bits; conversions between them are zero-extension / wrap".into(),
        "wit-parser's join is observed through push_flat on variants whose case i puts type t_i into flat slot 3; its erasure must equal the spec join for both pointer widths (disagreement = exit 2)".into(),
        "bit patterns: boundary alphabets of 12 (32-bit) and 15 (64-bit) patterns, not all 2^32 / 2^64".into(),
    ]);
}
