//! C03: cleanup code frees exactly the heap data the lowering allocated.
//!
//! Per type T and value v (both pointer widths): lower v with the real instruction stream in
//! callee-owned mode (`realloc = cabi_realloc`) → ledger A; run the real cleanup stream → frees F
//! and `DropHandle`s D; require F == A exactly (same pointers, sizes, alignments, each once,
//! nothing foreign, nothing left), D == owned handles of v in lists-and-own mode and ∅ in lists
//! mode, and `guest_export_needs_post_return` ⇔ the result type contains a heap buffer.

use crate::harness::*;
use crate::ir::{Ir, ListPolicy};
use crate::vm::*;
use refabi::abi::{self, Width};
use refabi::{Ty, Val};
use serde_json::json;
use wit_bindgen_core::abi::{self as gen, AbiVariant, LiftLower, WasmSignature};
use wit_parser::Type;

#[derive(Default, Clone, Debug)]
pub struct Stats {
    pub cases: u64,
    pub nontrivial: u64,
    pub allocs: u64,
    pub frees: u64,
    pub drops: u64,
    pub irs: u64,
    pub outcomes: std::collections::BTreeSet<u64>,
}

struct RetHost {
    v: Val,
}
impl Host for RetHost {
    fn call_wasm(&mut self, _: &mut VmMem, name: &str, _: &WasmSignature, _: &[V]) -> Result<Vec<V>, String> {
        Err(format!("vm:unexpected-call: CallWasm {name}"))
    }
    fn call_interface(&mut self, _: &mut VmMem, _: &str, _: &[V]) -> Result<Option<Val>, String> {
        Ok(Some(self.v.clone()))
    }
}

fn drops(events: &[Event]) -> Vec<u32> {
    events
        .iter()
        .filter_map(|e| match e {
            Event::DropHandle { handle, .. } => Some(*handle),
            _ => None,
        })
        .collect()
}

fn sorted<T: Ord>(mut v: Vec<T>) -> Vec<T> {
    v.sort();
    v
}

/// The cleanup entry points exercised.
pub const ENTRIES: [&str; 5] = [
    "post_return",
    "lists/indirect",
    "lists+own/indirect",
    "lists/direct",
    "lists+own/direct",
];

pub fn check_type(env: &Env, i: usize, policy: ListPolicy, stats: &mut Stats) -> Vec<Finding> {
    let ty = &env.types[i];
    let wt = env.root(i);
    let resolve = env.resolve();
    let sizes = &env.sizes;
    let mut out: Vec<Finding> = Vec::new();
    let pol = format!("{policy:?}");
    let base = |extra: serde_json::Value| {
        let mut d = json!({"type": ty.to_json(), "type_text": ty.to_string(), "policy": pol});
        for (k, v) in extra.as_object().unwrap() {
            d[k.as_str()] = v.clone();
        }
        d
    };
    let mut rec = |what: &str, r: Result<Ir, String>, out: &mut Vec<Finding>| -> Option<Ir> {
        match r {
            Ok(ir) => {
                stats.irs += 1;
                if let Some(e) = ir.errors.first() {
                    out.push(Finding::new(&format!("protocol:{what}"), format!("{what} for {ty}: {e}"), base(json!({"entry": what, "error": e}))));
                    return None;
                }
                Some(ir)
            }
            Err(p) => {
                let (key, harness) = panic_key(&p);
                if harness {
                    vcommon::machinery(&format!("harness panic while recording {what} for {ty}: {p}"));
                }
                out.push(Finding::new(&key, format!("generator panicked in {what} for {ty}: {p}"), base(json!({"entry": what, "panic": p}))));
                None
            }
        }
    };

    let flat_n = abi::flatten(ty, Width::W4).len();
    let flat_ok = flat_n <= abi::MAX_FLAT_PARAMS;

    // ---- guest_export_needs_post_return <=> result contains heap
    let mut post: Option<(Ir, Ir)> = None;
    if let Some(f) = env.ret_fn(i) {
        let needs = match vcommon::catch(|| gen::guest_export_needs_post_return(resolve, f)) {
            Ok(b) => b,
            Err(p) => {
                out.push(Finding::new(&panic_key(&p).0, format!("guest_export_needs_post_return panicked for {ty}: {p}"), base(json!({"entry": "needs_post_return"}))));
                false
            }
        };
        stats.cases += 1;
        if needs != ty.contains_heap() {
            out.push(Finding::new(
                "needs-post-return",
                format!("guest_export_needs_post_return(func() -> {ty}) = {needs}, but the result {} a heap buffer", if ty.contains_heap() { "contains" } else { "does not contain" }),
                base(json!({"entry": "needs_post_return", "needs": needs, "contains_heap": ty.contains_heap()})),
            ));
        }
        if needs {
            let call = rec("call(GuestExport,LiftArgsLowerResults)", ir_call(resolve, policy, AbiVariant::GuestExport, LiftLower::LiftArgsLowerResults, f, false), &mut out);
            let pr = rec("post_return", ir_post_return(resolve, policy, f), &mut out);
            if let (Some(c), Some(p)) = (call, pr) {
                post = Some((c, p));
            }
        }
    }
    // ---- the other cleanup entry points
    let lower_mem = rec("lower_to_memory", ir_lower_mem(resolve, policy, &wt), &mut out);
    let lower_flat = if flat_ok { rec("lower_flat", ir_lower_flat(resolve, policy, &wt), &mut out) } else { None };
    let types1 = [wt];
    let types2 = [Type::U8, wt];
    let de_ind: Vec<Option<Ir>> = [false, true]
        .iter()
        .map(|own| rec(&format!("deallocate(indirect, own={own})"), ir_dealloc(resolve, policy, &types1, 1, true, *own), &mut out))
        .collect();
    let de_ind2: Vec<Option<Ir>> = [false, true]
        .iter()
        .map(|own| rec(&format!("deallocate(indirect, [u8,T], own={own})"), ir_dealloc(resolve, policy, &types2, 1, true, *own), &mut out))
        .collect();
    let de_dir: Vec<Option<Ir>> = if flat_ok {
        [false, true]
            .iter()
            .map(|own| rec(&format!("deallocate(direct, own={own})"), ir_dealloc(resolve, policy, &types1, flat_n, false, *own), &mut out))
            .collect()
    } else {
        vec![None, None]
    };

    for w in Width::both() {
        let (sz, al) = (abi::size(ty, w), abi::alignment(ty, w));
        for v in refabi::universe::values(ty) {
            let mut owned = Vec::new();
            let mut other = Vec::new();
            refabi::ty::handles_in(ty, &v, &mut owned, &mut other);
            let mut want_bufs = Vec::new();
            abi::heap_buffers(ty, &v, w, &mut want_bufs);
            let want_bufs = sorted(want_bufs);
            let ctx = |entry: &str| json!({"width": w.bytes(), "value": v.to_string(), "entry": entry});
            let fail = |class: &str, entry: &str, msg: String, out: &mut Vec<Finding>| {
                let mut d = ctx(entry);
                d["message"] = json!(msg);
                out.push(Finding::new(class, format!("{class}: {ty} value {v} width {} {entry}: {msg}", w.bytes()), base(d)));
            };
            // judge one cleanup run: `mem` after cleanup, `a` = ledger before cleanup
            let judge = |entry: &str,
                             a: Vec<(u64, u64, u64)>,
                             r: Result<(), String>,
                             mem: &VmMem,
                             events: &[Event],
                             own_mode: bool,
                             stats: &mut Stats,
                             out: &mut Vec<Finding>| {
                stats.cases += 1;
                stats.allocs += a.len() as u64;
                stats.frees += mem.frees.len() as u64;
                if !a.is_empty() || !owned.is_empty() {
                    stats.nontrivial += 1;
                }
                stats.outcomes.insert(vcommon::fnv(format!("{:?}{:?}", a.iter().map(|x| (x.1, x.2)).collect::<Vec<_>>(), drops(events)).as_bytes()));
                // the allocation side must be what the reference says (else the comparison
                // below would be against a wrong ledger)
                let got_bufs = sorted(a.iter().map(|(_, s, al)| (*s, *al)).collect::<Vec<_>>());
                if got_bufs != want_bufs {
                    fail("alloc", entry, format!("lowering allocated (size,align) {got_bufs:?}, reference {want_bufs:?}"), out);
                }
                if let Err(e) = r {
                    fail(&format!("cleanup:{}", err_class(&e)), entry, e, out);
                    return;
                }
                let left = mem.live_ledger();
                if !left.is_empty() {
                    fail("leak", entry, format!("{} of {} buffers never freed: (ptr,size,align) {left:?}", left.len(), a.len()), out);
                }
                let f = sorted(mem.frees.clone());
                if left.is_empty() && f != sorted(a.clone()) {
                    fail("free-mismatch", entry, format!("freed {f:?}, allocated {a:?}"), out);
                }
                let d = sorted(drops(events));
                stats.drops += d.len() as u64;
                let want_d = if own_mode { sorted(owned.clone()) } else { vec![] };
                if d != want_d {
                    let class = if d.len() > want_d.len() { "drop-extra" } else { "drop-missing" };
                    fail(class, entry, format!("DropHandle on {d:?}, owned handles in the value {want_d:?} (mode {})", if own_mode { "lists+own" } else { "lists" }), out);
                }
                if d.iter().any(|h| other.contains(h) && !owned.contains(h)) {
                    fail("drop-borrow", entry, format!("a borrow / error-context handle was dropped: {d:?}"), out);
                }
            };

            // ---------------- post_return after an export call
            if let Some((call, pr)) = &post {
                let mut ex = Exec::new(call, resolve, sizes, VmMem::new(w, 0xA5));
                let mut host = RetHost { v: v.clone() };
                match ex.run(&[], vec![], &mut host) {
                    Err(e) => fail(&format!("lower:{}", err_class(&e)), "post_return", e, &mut out),
                    Ok(_) => {
                        let ret = ex.events.iter().find_map(|e| match e {
                            Event::Return { vals } => Some(vals.clone()),
                            _ => None,
                        });
                        let a = ex.mem.live_ledger();
                        match ret.as_deref() {
                            Some([V::Ptr(p)]) => {
                                let mem = std::mem::replace(&mut ex.mem, VmMem::new(w, 0));
                                let mut ex2 = Exec::new(pr, resolve, sizes, mem);
                                let r = ex2.run(&[], vec![V::Ptr(*p)], &mut NoHost).map(|_| ());
                                judge("post_return", a, r, &ex2.mem, &ex2.events, false, stats, &mut out);
                            }
                            other => fail("post-return-arg", "post_return", format!("export returned {other:?}, expected one pointer to the return area"), &mut out),
                        }
                    }
                }
            }
            // ---------------- indirect: [T] at offset 0, and [u8, T]
            if let Some(lm) = &lower_mem {
                for (which, irs) in [(1usize, &de_ind), (2, &de_ind2)] {
                    for (oi, own) in [false, true].iter().enumerate() {
                        let Some(de) = &irs[oi] else { continue };
                        let entry = format!("{}/indirect{}", if *own { "lists+own" } else { "lists" }, if which == 2 { "[u8,T]" } else { "" });
                        let off = if which == 2 { abi::align_to(1, al) } else { 0 };
                        let mut mem = VmMem::new(w, 0x5A);
                        let region = mem.alloc(off + sz + 8, al.max(8), RegionKind::Harness);
                        let mut ex = Exec::new(lm, resolve, sizes, mem);
                        match ex.run(&[V::Ptr(region + off), V::Val(v.clone())], vec![], &mut NoHost) {
                            Err(e) => fail(&format!("lower:{}", err_class(&e)), &entry, e, &mut out),
                            Ok(_) => {
                                let a = ex.mem.live_ledger();
                                let mem = std::mem::replace(&mut ex.mem, VmMem::new(w, 0));
                                let mut ex2 = Exec::new(de, resolve, sizes, mem);
                                let r = ex2.run(&[V::Ptr(region)], vec![], &mut NoHost).map(|_| ());
                                judge(&entry, a, r, &ex2.mem, &ex2.events, *own, stats, &mut out);
                            }
                        }
                    }
                }
            }
            // ---------------- direct: flat operands
            if let Some(lf) = &lower_flat {
                for (oi, own) in [false, true].iter().enumerate() {
                    let Some(de) = &de_dir[oi] else { continue };
                    let entry = format!("{}/direct", if *own { "lists+own" } else { "lists" });
                    let mut ex = Exec::new(lf, resolve, sizes, VmMem::new(w, 0x5A));
                    match ex.run(&[V::Val(v.clone())], vec![], &mut NoHost) {
                        Err(e) => fail(&format!("lower:{}", err_class(&e)), &entry, e, &mut out),
                        Ok(flat) => {
                            let a = ex.mem.live_ledger();
                            let mem = std::mem::replace(&mut ex.mem, VmMem::new(w, 0));
                            let mut ex2 = Exec::new(de, resolve, sizes, mem);
                            let r = ex2.run(&flat, vec![], &mut NoHost).map(|_| ());
                            judge(&entry, a, r, &ex2.mem, &ex2.events, *own, stats, &mut out);
                        }
                    }
                }
            }
        }
    }
    first_per_class(out)
}

pub fn policies(ty: &Ty) -> Vec<ListPolicy> {
    crate::c01::policies(ty)
}

pub fn classes_of(ty: &Ty) -> Vec<Finding> {
    let env = match Env::new(std::slice::from_ref(ty)) {
        Ok(e) => e,
        Err(_) => return vec![],
    };
    let mut st = Stats::default();
    let mut out = Vec::new();
    for pol in policies(ty) {
        out.extend(check_type(&env, 0, pol, &mut st));
    }
    first_per_class(out)
}
