//! C04: variant payload slot joining is lossless and matches the spec (core part).
//!
//! A. join lattice: every sequence over the seven `WasmType`s of length 1..=4 is realised as a
//!    variant whose case `i` puts type `t_i` into flat slot 3; wit-parser's join (as used by
//!    `push_flat`) gives the joined type `J`; the erased `J` must equal the spec join folded over
//!    the erased `t_i` (trusted-base cross-check), and for every occurring pair `(t_i, J)` the
//!    generator's `cast(t_i, J)` / `cast(J, t_i)` must exist, implement the spec's
//!    reinterpret / zero-extend / wrap conversion and round-trip bit-for-bit on the boundary
//!    alphabet, for both pointer widths.
//! B. variant shapes: the real `lower_flat` / flat-lift instruction streams of concrete variants
//!    (C01's flat comparisons) — the `Bitcasts` the generator actually emits.

use crate::harness::*;
use crate::ir::OCast;
use crate::vm::{apply_cast, V};
use refabi::abi::{self, CoreTy, Width};
use refabi::ty::bx;
use refabi::xcheck::erase;
use refabi::Ty;
use serde_json::json;
use std::collections::BTreeSet;
use wit_bindgen_core::abi::{self as gen, WasmType};

pub const ALL_WASM_TYPES: [WasmType; 7] = [
    WasmType::I32,
    WasmType::I64,
    WasmType::F32,
    WasmType::F64,
    WasmType::Pointer,
    WasmType::PointerOrI64,
    WasmType::Length,
];

/// A payload type whose third flat slot (variant slot 3) has wit-parser type `t`.
pub fn payload_for(t: WasmType) -> Ty {
    match t {
        WasmType::I32 => Ty::Tuple(vec![Ty::U32, Ty::U32, Ty::U32]),
        WasmType::I64 => Ty::Tuple(vec![Ty::U32, Ty::U32, Ty::U64]),
        WasmType::F32 => Ty::Tuple(vec![Ty::U32, Ty::U32, Ty::F32]),
        WasmType::F64 => Ty::Tuple(vec![Ty::U32, Ty::U32, Ty::F64]),
        WasmType::Pointer => Ty::Tuple(vec![Ty::U32, Ty::U32, Ty::String]),
        WasmType::Length => Ty::Tuple(vec![Ty::U32, Ty::String]),
        WasmType::PointerOrI64 => {
            Ty::Tuple(vec![Ty::U32, Ty::Variant(vec![Some(Ty::String), Some(Ty::U64)])])
        }
    }
}

pub fn seq_type(seq: &[WasmType]) -> Ty {
    Ty::Variant(seq.iter().map(|t| Some(payload_for(*t))).collect())
}

/// All sequences of length 1..=max over the seven types.
pub fn sequences(max: usize) -> Vec<Vec<WasmType>> {
    let mut out = Vec::new();
    let mut cur: Vec<Vec<WasmType>> = vec![vec![]];
    for _ in 0..max {
        let mut next = Vec::new();
        for s in &cur {
            for t in ALL_WASM_TYPES {
                let mut s2 = s.clone();
                s2.push(t);
                next.push(s2);
            }
        }
        out.extend(next.iter().cloned());
        cur = next;
    }
    out
}

fn alphabet32() -> Vec<u64> {
    vec![
        0, 1, 0x7fff_ffff, 0x8000_0000, 0xffff_ffff, 0xaaaa_aaaa, 0x5555_5555, 0x3f80_0000, 0x7fc0_0001,
        0x7fa0_0000, 0xff80_0000, 0x0000_0001 << 16,
    ]
}
fn alphabet64() -> Vec<u64> {
    vec![
        0,
        1,
        0x7fff_ffff_ffff_ffff,
        0x8000_0000_0000_0000,
        0xffff_ffff_ffff_ffff,
        0xaaaa_aaaa_aaaa_aaaa,
        0x5555_5555_5555_5555,
        0x0000_0001_0000_0000,
        0x0000_0000_ffff_ffff,
        0xffff_ffff_0000_0000,
        0x0000_0000_8000_0000,
        0x3ff0_0000_0000_0000,
        0x7ff8_0000_0000_0001,
        0x7ff4_0000_0000_0000,
        0xfff0_0000_0000_0000,
    ]
}

/// Boundary bit patterns of kind `t` at width `w`.
pub fn alphabet(t: WasmType, w: Width) -> Vec<u64> {
    match erase(t, w) {
        CoreTy::I32 | CoreTy::F32 => alphabet32(),
        _ => alphabet64(),
    }
}

/// The spec's conversion of a payload value of core type `have` into the joined type `want`
/// (`lower_flat_variant`): on bit patterns it is "same bits" for the four legal widenings.
fn spec_widen(have: CoreTy, want: CoreTy, bits: u64) -> Option<u64> {
    match (have, want) {
        (a, b) if a == b => Some(bits),
        (CoreTy::F32, CoreTy::I32) => Some(bits),
        (CoreTy::I32, CoreTy::I64) => Some(bits & 0xffff_ffff),
        (CoreTy::F32, CoreTy::I64) => Some(bits & 0xffff_ffff),
        (CoreTy::F64, CoreTy::I64) => Some(bits),
        _ => None,
    }
}

#[derive(Default, Debug, Clone)]
pub struct PairStats {
    pub conversions: u64,
    pub nontrivial: u64,
}

/// Check one ordered pair (payload slot type, joined slot type) both ways.
pub fn check_pair(a: WasmType, j: WasmType, st: &mut PairStats) -> Vec<Finding> {
    let mut out = Vec::new();
    let name = format!("{a:?}->{j:?}");
    let det = |extra: serde_json::Value| {
        let mut d = json!({"pair": [format!("{a:?}"), format!("{j:?}")]});
        for (k, v) in extra.as_object().unwrap() {
            d[k.as_str()] = v.clone();
        }
        d
    };
    let up = match vcommon::catch(|| gen::cast(a, j)) {
        Ok(c) => OCast::from(&c),
        Err(p) => {
            out.push(Finding::new(
                &format!("cast-missing:{name}"),
                format!("cast({a:?}, {j:?}) panics although the join of valid WIT types produces this pair: {p}"),
                det(json!({"panic": p, "direction": "lower"})),
            ));
            return out;
        }
    };
    let down = match vcommon::catch(|| gen::cast(j, a)) {
        Ok(c) => OCast::from(&c),
        Err(p) => {
            out.push(Finding::new(
                &format!("cast-missing:{j:?}->{a:?}"),
                format!("cast({j:?}, {a:?}) panics although lifting a variant needs it: {p}"),
                det(json!({"panic": p, "direction": "lift"})),
            ));
            return out;
        }
    };
    for w in Width::both() {
        let (ae, je) = (erase(a, w), erase(j, w));
        for x in alphabet(a, w) {
            st.conversions += 1;
            if up != OCast::None {
                st.nontrivial += 1;
            }
            let xv = V::of_kind(a, x, w);
            let ctx = json!({"width": w.bytes(), "bits": format!("{x:#x}"), "up": format!("{up:?}"), "down": format!("{down:?}")});
            let y = match apply_cast(&up, xv.clone(), w) {
                Ok(y) => y,
                Err(e) => {
                    out.push(Finding::new(&format!("cast-wrong:{name}"), format!("cast({a:?},{j:?}) = {up:?}: {e}"), det(ctx)));
                    break;
                }
            };
            if y.wasm_type() != Some(j) {
                out.push(Finding::new(&format!("cast-wrong:{name}"), format!("cast({a:?},{j:?}) = {up:?} yields a {} value", y.kind()), det(ctx)));
                break;
            }
            match spec_widen(ae, je, xv.bits()) {
                None => {
                    out.push(Finding::new(&format!("join-illegal:{name}"), format!("width {}: {ae:?} cannot be widened to {je:?} under the spec", w.bytes()), det(ctx)));
                    break;
                }
                Some(want) if want != y.bits() => {
                    out.push(Finding::new(
                        &format!("cast-wrong:{name}"),
                        format!("width {}: {up:?}({x:#x}) = {:#x}, spec conversion gives {want:#x}", w.bytes(), y.bits()),
                        det(ctx),
                    ));
                    break;
                }
                _ => {}
            }
            match apply_cast(&down, y.clone(), w) {
                Ok(z) if z == xv => {}
                Ok(z) => {
                    out.push(Finding::new(
                        &format!("cast-roundtrip:{name}"),
                        format!("width {}: {down:?}({up:?}({x:#x})) = {} {:#x}", w.bytes(), z.kind(), z.bits()),
                        det(ctx),
                    ));
                    break;
                }
                Err(e) => {
                    out.push(Finding::new(&format!("cast-wrong:{j:?}->{a:?}"), format!("cast({j:?},{a:?}) = {down:?}: {e}"), det(ctx)));
                    break;
                }
            }
        }
    }
    first_per_class(out)
}

/// For a parsed variant type: the (payload slot type, joined slot type) pairs of every case, and
/// the spec-join cross-check of the whole flat vector. `Err` = trusted-base disagreement.
pub fn pairs_of_variant(env: &Env, i: usize) -> Result<BTreeSet<(WasmType, WasmType)>, String> {
    let ty = &env.types[i];
    let resolve = env.resolve();
    let wt = env.root(i);
    let joined = refabi::xcheck::wit_flat(resolve, &wt);
    for w in Width::both() {
        let want = abi::flatten(ty, w);
        let got: Vec<CoreTy> = joined.iter().map(|t| erase(*t, w)).collect();
        if want != got {
            return Err(format!("flatten({ty}) width {}: spec join gives {want:?}, wit-parser {got:?}", w.bytes()));
        }
    }
    let mut out = BTreeSet::new();
    collect_pairs(ty, &mut out, env, &wt);
    Ok(out)
}

fn collect_pairs(ty: &Ty, out: &mut BTreeSet<(WasmType, WasmType)>, env: &Env, wt: &wit_parser::Type) {
    // walk the wit type and the reference type in parallel; at every variant-like node compare
    // each case's own flat types with the node's joined flat types
    use wit_parser::{Type, TypeDefKind};
    let resolve = env.resolve();
    let Type::Id(mut id) = *wt else { return };
    while let TypeDefKind::Type(Type::Id(inner)) = &resolve.types[id].kind {
        id = *inner;
    }
    let kids: Vec<Type> = match &resolve.types[id].kind {
        TypeDefKind::Variant(v) => v.cases.iter().filter_map(|c| c.ty).collect(),
        TypeDefKind::Option(t) => vec![*t],
        TypeDefKind::Result(r) => r.ok.iter().chain(r.err.iter()).copied().collect(),
        TypeDefKind::Record(r) => r.fields.iter().map(|f| f.ty).collect(),
        TypeDefKind::Tuple(t) => t.types.clone(),
        TypeDefKind::List(t) | TypeDefKind::FixedLengthList(t, _) => vec![*t],
        TypeDefKind::Map(k, v) => vec![*k, *v],
        _ => vec![],
    };
    let is_variant = matches!(
        resolve.types[id].kind,
        TypeDefKind::Variant(_) | TypeDefKind::Option(_) | TypeDefKind::Result(_)
    );
    if is_variant {
        let joined = refabi::xcheck::wit_flat(resolve, &Type::Id(id));
        for k in &kids {
            let own = refabi::xcheck::wit_flat(resolve, k);
            for (a, j) in own.iter().zip(&joined[1..]) {
                out.insert((*a, *j));
            }
        }
    }
    let rkids: Vec<&Ty> = ty.children();
    for (k, rk) in kids.iter().zip(rkids) {
        collect_pairs(rk, out, env, k);
    }
}

/// Part B universe: variants over P1 = Lc ∪ {list<u8>} with 2–3 cases (depth 1) and, for
/// `deep`, 2-case variants over P1 ∪ nested variants plus 3-case (nested, a, b).
pub fn variant_shapes(deep: bool) -> Vec<Ty> {
    let mut p1 = refabi::universe::layout_classes();
    p1.push(Ty::List(bx(Ty::U8)));
    let mut out = Vec::new();
    for a in &p1 {
        out.push(Ty::Variant(vec![None, Some(a.clone())]));
        out.push(Ty::Option(bx(a.clone())));
        for b in &p1 {
            out.push(Ty::Variant(vec![Some(a.clone()), Some(b.clone())]));
            out.push(Ty::Result(Some(bx(a.clone())), Some(bx(b.clone()))));
            for c in &p1 {
                out.push(Ty::Variant(vec![Some(a.clone()), Some(b.clone()), Some(c.clone())]));
            }
        }
    }
    if deep {
        let l5 = [Ty::U32, Ty::U64, Ty::F32, Ty::F64, Ty::String];
        let mut nested = Vec::new();
        for a in &l5 {
            for b in &l5 {
                nested.push(Ty::Variant(vec![Some(a.clone()), Some(b.clone())]));
            }
            nested.push(Ty::Option(bx(a.clone())));
        }
        let mut p2 = p1.clone();
        p2.extend(nested.iter().cloned());
        for a in &p2 {
            for b in &p2 {
                if a.depth() + b.depth() > 0 && (nested.contains(a) || nested.contains(b)) {
                    out.push(Ty::Variant(vec![Some(a.clone()), Some(b.clone())]));
                }
            }
        }
        for n in &nested {
            for a in &l5 {
                for b in &l5 {
                    out.push(Ty::Variant(vec![Some(n.clone()), Some(a.clone()), Some(b.clone())]));
                    out.push(Ty::Variant(vec![Some(a.clone()), Some(n.clone()), Some(b.clone())]));
                }
            }
        }
    }
    let mut seen = BTreeSet::new();
    out.retain(|t| seen.insert(t.clone()));
    out
}
