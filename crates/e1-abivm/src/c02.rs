//! C02: call glue follows the canonical calling convention for every signature.
//!
//! For a signature and a `(AbiVariant, LiftLower, async)` triple the real `abi::call` stream is
//! recorded and executed; the other side of the call (the callee of `CallWasm`, the caller that
//! supplies core arguments, the interface function behind `CallInterface`) is played by a model
//! built on `refabi` (`flatten_functype`, `lower_flat_values`, `lift_flat_values`, `store`,
//! `load`).

use crate::harness::*;
use crate::ir::{Ir, ListPolicy};
use crate::vm::*;
use refabi::abi::{self, CanonOpts, Context, CoreSig, Lowered, MemRead, RefMem, Width};
use refabi::ty::bx;
use refabi::wit::FuncDecl;
use refabi::{val_eq, CoreVal, Ty, Val};
use serde_json::{json, Value};
use wit_bindgen_core::abi::{AbiVariant, LiftLower, WasmSignature};
use wit_parser::{Function, Resolve, SizeAlign};

#[derive(Clone, Debug, PartialEq, Eq, PartialOrd, Ord)]
pub struct Sig {
    pub params: Vec<Ty>,
    pub result: Option<Ty>,
}

impl Sig {
    pub fn text(&self) -> String {
        // compress runs of u32
        let mut parts: Vec<String> = Vec::new();
        let mut i = 0;
        while i < self.params.len() {
            let mut j = i;
            while j < self.params.len() && self.params[j] == self.params[i] {
                j += 1;
            }
            if j - i > 2 {
                parts.push(format!("{}x{}", j - i, self.params[i]));
            } else {
                for k in i..j {
                    parts.push(self.params[k].to_string());
                }
            }
            i = j;
        }
        format!(
            "func({}){}",
            parts.join(","),
            self.result.as_ref().map(|r| format!("->{r}")).unwrap_or_default()
        )
    }
    pub fn to_json(&self) -> Value {
        json!({"params": self.params.iter().map(|t| t.to_json()).collect::<Vec<_>>(), "result": self.result.as_ref().map(|t| t.to_json())})
    }
    pub fn from_json(v: &Value) -> Result<Sig, String> {
        let params = v["params"].as_array().ok_or("params")?.iter().map(Ty::from_json).collect::<Result<_, _>>()?;
        let result = if v["result"].is_null() { None } else { Some(Ty::from_json(&v["result"])?) };
        Ok(Sig { params, result })
    }
    pub fn decl(&self, name: &str) -> FuncDecl {
        FuncDecl { name: name.to_string(), params: self.params.clone(), result: self.result.clone(), async_: false }
    }
}

pub fn rec17() -> Ty {
    Ty::Record(vec![Ty::U32; 17])
}

/// Suffix alphabet S.
pub fn suffix_alphabet() -> Vec<Ty> {
    vec![
        Ty::F32,
        Ty::U64,
        Ty::String,
        Ty::List(bx(Ty::U8)),
        Ty::Record(vec![Ty::U8, Ty::U64]),
        Ty::Option(bx(Ty::F64)),
        Ty::Tuple(vec![Ty::U32; 5]),
        rec17(),
    ]
}

/// Result alphabet R.
pub fn result_alphabet() -> Vec<Option<Ty>> {
    vec![
        None,
        Some(Ty::U32),
        Some(Ty::F64),
        Some(Ty::String),
        Some(Ty::Tuple(vec![Ty::U32, Ty::U32])),
        Some(rec17()),
        Some(Ty::Result(Some(bx(Ty::String)), Some(bx(Ty::U8)))),
        Some(Ty::Option(bx(Ty::U64))),
        // results whose flattening sits on both sides of the 4 and 16 limits (task.return
        // flattens the result as *parameters*: limit 16, never the async-lower limit 4)
        Some(Ty::Tuple(vec![Ty::U32; 4])),
        Some(Ty::Tuple(vec![Ty::U32; 5])),
        Some(Ty::Record(vec![Ty::String, Ty::String, Ty::U32])),
        Some(Ty::Tuple(vec![Ty::U32; 16])),
    ]
}

pub const MAX_PREFIX: usize = 18;

/// prefix of n in 0..=18 `u32` ++ every suffix of length <= `max_suffix` over S, x R.
pub fn signatures(max_suffix: usize) -> Vec<Sig> {
    let s = suffix_alphabet();
    let mut suffixes: Vec<Vec<Ty>> = vec![vec![]];
    let mut cur: Vec<Vec<Ty>> = vec![vec![]];
    for _ in 0..max_suffix {
        let mut next = Vec::new();
        for base in &cur {
            for t in &s {
                let mut b = base.clone();
                b.push(t.clone());
                next.push(b);
            }
        }
        suffixes.extend(next.iter().cloned());
        cur = next;
    }
    let mut out = Vec::new();
    for n in 0..=MAX_PREFIX {
        for suf in &suffixes {
            for r in result_alphabet() {
                let mut params = vec![Ty::U32; n];
                params.extend(suf.iter().cloned());
                out.push(Sig { params, result: r });
            }
        }
    }
    out
}

#[derive(Clone, Copy, Debug, PartialEq, Eq, PartialOrd, Ord)]
pub struct Triple {
    pub variant: u8,
    pub lift: bool,
    pub async_: bool,
}

pub const VARIANTS: [AbiVariant; 4] = [
    AbiVariant::GuestImport,
    AbiVariant::GuestExport,
    AbiVariant::GuestImportAsync,
    AbiVariant::GuestExportAsync,
];

impl Triple {
    pub fn all() -> Vec<Triple> {
        let mut v = Vec::new();
        for variant in 0..4u8 {
            for lift in [false, true] {
                for async_ in [false, true] {
                    v.push(Triple { variant, lift, async_ });
                }
            }
        }
        v
    }
    pub fn variant(&self) -> AbiVariant {
        VARIANTS[self.variant as usize]
    }
    pub fn ll(&self) -> LiftLower {
        if self.lift {
            LiftLower::LiftArgsLowerResults
        } else {
            LiftLower::LowerArgsLiftResults
        }
    }
    pub fn name(&self) -> String {
        format!(
            "{:?}/{}/{}",
            self.variant(),
            if self.lift { "LiftArgsLowerResults" } else { "LowerArgsLiftResults" },
            if self.async_ { "async" } else { "sync" }
        )
    }
    pub fn parse(s: &str) -> Option<Triple> {
        Triple::all().into_iter().find(|t| t.name() == s)
    }
    pub fn is_export(&self) -> bool {
        matches!(self.variant(), AbiVariant::GuestExport | AbiVariant::GuestExportAsync)
    }
    /// The spec reading of the variant: canon options and lift/lower context.
    pub fn spec(&self) -> (CanonOpts, Context) {
        match self.variant() {
            AbiVariant::GuestImport => (CanonOpts { async_: false, callback: false }, Context::Lower),
            AbiVariant::GuestExport => (CanonOpts { async_: false, callback: false }, Context::Lift),
            AbiVariant::GuestImportAsync => (CanonOpts { async_: true, callback: false }, Context::Lower),
            AbiVariant::GuestExportAsync => (CanonOpts { async_: true, callback: true }, Context::Lift),
            AbiVariant::GuestExportAsyncStackful => (CanonOpts { async_: true, callback: false }, Context::Lift),
        }
    }
    pub fn max_flat_params(&self) -> usize {
        match self.variant() {
            AbiVariant::GuestImportAsync => abi::MAX_FLAT_ASYNC_PARAMS,
            _ => abi::MAX_FLAT_PARAMS,
        }
    }
    /// The async flag agrees with the ABI variant.
    pub fn consistent(&self) -> bool {
        self.variant().is_async() == self.async_
    }
}

/// Triples in-repo backends pass to `abi::call` (with where).
pub fn used_triples() -> Vec<(Triple, &'static str)> {
    let t = |variant: u8, lift: bool, async_: bool| Triple { variant, lift, async_ };
    vec![
        (t(0, false, false), "rust/src/interface.rs:870, c/src/lib.rs:2186, go, csharp, d, moonbit, cpp: (GuestImport, LowerArgsLiftResults, false)"),
        (t(1, true, false), "rust/src/interface.rs:1192, c/src/lib.rs:2301, go, csharp, d, moonbit, cpp: (GuestExport, LiftArgsLowerResults, false)"),
        (t(3, true, true), "rust/src/interface.rs:1192, c/src/lib.rs:2301, go/src/lib.rs:1298, moonbit/src/lib.rs:714: (GuestExportAsync, LiftArgsLowerResults, true)"),
        (t(1, true, true), "csharp/src/interface.rs:879: (GuestExport, LiftArgsLowerResults, async_)"),
    ]
}

// ---------------------------------------------------------------------------------------------
// values

/// Deterministic argument / result values: `u32` parameters get position-unique values (so a
/// swapped or shifted parameter is seen); other types cycle through V(T).
pub fn values_for(sig: &Sig, assignment: usize) -> (Vec<Val>, Option<Val>) {
    // V(T) is recomputed for the same handful of types all the time: memoise per process
    thread_local! {
        static CACHE: std::cell::RefCell<std::collections::BTreeMap<Ty, std::rc::Rc<Vec<Val>>>> = const { std::cell::RefCell::new(std::collections::BTreeMap::new()) };
    }
    let values = |t: &Ty| -> std::rc::Rc<Vec<Val>> {
        CACHE.with(|c| {
            c.borrow_mut()
                .entry(t.clone())
                .or_insert_with(|| std::rc::Rc::new(refabi::universe::values(t)))
                .clone()
        })
    };
    let ps = sig
        .params
        .iter()
        .enumerate()
        .map(|(i, t)| match t {
            Ty::U32 => Val::U(0xA000_0000 + (i as u64) * 0x0101 + assignment as u64 * 0x10_0000),
            t => {
                let vs = values(t);
                vs[(i + 1 + assignment * 3) % vs.len()].clone()
            }
        })
        .collect();
    let r = sig.result.as_ref().map(|t| {
        let vs = values(t);
        vs[(1 + assignment * 4) % vs.len()].clone()
    });
    (ps, r)
}

// ---------------------------------------------------------------------------------------------
// the model of "the other side"

/// Store `v` at `addr` inside `mem` (heap parts become fresh harness regions).
fn store_into_vm(mem: &mut VmMem, v: &Val, t: &Ty, addr: u64) -> Result<(), String> {
    let w = mem.width;
    let base = abi::align_to(mem.next_addr() + 0x20, 16);
    let mut rm = RefMem::new(w, base, 0x5A);
    let root = rm.alloc(abi::size(t, w), abi::alignment(t, w).max(8));
    abi::store(&mut rm, v, t, root);
    mem.import_as(&rm, RegionKind::Harness, 1);
    let bytes = rm.read(root, abi::size(t, w)).unwrap();
    mem.write(addr, &bytes)
}

fn flat_into_vm(mem: &mut VmMem, v: &Val, t: &Ty) -> Vec<CoreVal> {
    let w = mem.width;
    let base = abi::align_to(mem.next_addr() + 0x20, 16);
    let mut rm = RefMem::new(w, base, 0x5A);
    let flat = abi::lower_flat(&mut rm, v, t);
    mem.import_as(&rm, RegionKind::Harness, 0);
    flat
}

/// The model side of a run.
struct Model<'a> {
    sig: &'a Sig,
    triple: Triple,
    w: Width,
    args: &'a [Val],
    result: &'a Option<Val>,
    sigref: CoreSig,
    /// problems noticed by the model: (class, message)
    problems: Vec<(String, String)>,
    wasm_calls: usize,
    iface_calls: usize,
    status: u32,
}

impl Model<'_> {
    fn problem(&mut self, class: &str, msg: String) {
        self.problems.push((class.to_string(), msg));
    }
}

impl Host for Model<'_> {
    fn call_wasm(&mut self, mem: &mut VmMem, _name: &str, sig: &WasmSignature, args: &[V]) -> Result<Vec<V>, String> {
        self.wasm_calls += 1;
        let w = self.w;
        // canonical core signature
        let wp: Vec<_> = sig.params.iter().map(|t| refabi::xcheck::erase(*t, w)).collect();
        let wr: Vec<_> = sig.results.iter().map(|t| refabi::xcheck::erase(*t, w)).collect();
        if wp != self.sigref.params || wr != self.sigref.results {
            let m = format!("CallWasm signature params {wp:?} results {wr:?}, canonical {:?} -> {:?}", self.sigref.params, self.sigref.results);
            self.problem("core-signature", m);
            return Err("model: cannot continue after a signature mismatch".into());
        }
        // decode the parameters
        let (_, cx) = self.triple.spec();
        let has_retptr_param = cx == Context::Lower && self.sigref.result_indirect;
        let nparam = args.len() - has_retptr_param as usize;
        let flat: Vec<CoreVal> = args[..nparam].iter().map(|a| a.erase(w).unwrap()).collect();
        match abi::lift_flat_values(mem, w, self.triple.max_flat_params(), &flat, &self.sig.params) {
            Ok(got) => {
                if got.len() != self.args.len() || !got.iter().zip(self.args).all(|(a, b)| val_eq(a, b)) {
                    let m = format!("callee decodes parameters {} but the caller passed {}", fmt_vals(&got), fmt_vals(self.args));
                    self.problem("params", m);
                }
            }
            Err(e) => self.problem("params", format!("callee cannot decode the parameters: {e}")),
        }
        // produce the results
        let mut out: Vec<CoreVal> = Vec::new();
        let (opts, _) = self.triple.spec();
        match (opts.async_, cx) {
            (false, Context::Lower) => {
                if let (Some(t), Some(v)) = (&self.sig.result, self.result) {
                    if self.sigref.result_indirect {
                        let p = args[args.len() - 1].bits();
                        if let Err(e) = store_into_vm(mem, v, t, p) {
                            self.problem("retptr", format!("callee cannot write the result through the return pointer {p:#x}: {e}"));
                        }
                    } else {
                        out = flat_into_vm(mem, v, t);
                    }
                }
            }
            (false, Context::Lift) => {
                if let (Some(t), Some(v)) = (&self.sig.result, self.result) {
                    if self.sigref.result_indirect {
                        let p = mem.alloc(abi::size(t, w), abi::alignment(t, w), RegionKind::Harness);
                        store_into_vm(mem, v, t, p).map_err(|e| format!("harness: {e}"))?;
                        out = vec![CoreVal::ptr(w, p)];
                    } else {
                        out = flat_into_vm(mem, v, t);
                    }
                }
            }
            (true, Context::Lower) => {
                if let (Some(t), Some(v)) = (&self.sig.result, self.result) {
                    let p = args[args.len() - 1].bits();
                    if let Err(e) = store_into_vm(mem, v, t, p) {
                        self.problem("retptr", format!("async callee cannot write the result through {p:#x}: {e}"));
                    }
                }
                out = vec![CoreVal::i32(self.status)];
            }
            (true, Context::Lift) => {
                if opts.callback {
                    out = vec![CoreVal::i32(self.status)];
                }
            }
        }
        to_vm(&out, &sig.results, w).map_err(|e| format!("harness: {e}"))
    }

    fn call_interface(&mut self, _mem: &mut VmMem, _name: &str, args: &[V]) -> Result<Option<Val>, String> {
        self.iface_calls += 1;
        let got: Vec<Val> = args
            .iter()
            .map(|a| match a {
                V::Val(v) => v.clone(),
                _ => Val::Bool(false),
            })
            .collect();
        if got.len() != self.args.len() || !got.iter().zip(self.args).all(|(a, b)| val_eq(a, b)) {
            let m = format!("interface function received {} but the caller passed {}", fmt_vals(&got), fmt_vals(self.args));
            self.problem("params", m);
        }
        Ok(self.result.clone())
    }
}

fn fmt_vals(v: &[Val]) -> String {
    format!("({})", v.iter().map(|x| x.to_string()).collect::<Vec<_>>().join(", "))
}

#[derive(Clone, Debug, PartialEq)]
pub enum PanicKind {
    Todo,
    Unreachable,
    Other,
}

pub fn panic_kind(msg: &str) -> PanicKind {
    if msg.starts_with("not yet implemented") || msg.starts_with("not implemented") {
        PanicKind::Todo
    } else if msg.contains("entered unreachable code") {
        PanicKind::Unreachable
    } else {
        PanicKind::Other
    }
}

/// Outcome of one (signature, triple): the recording either panicked or ran.
pub enum Recorded {
    Panic { key: String, msg: String, kind: PanicKind },
    Ir(Ir),
}

pub fn record_call(resolve: &Resolve, func: &Function, t: Triple) -> Recorded {
    match ir_call(resolve, ListPolicy::CanonicalScalars, t.variant(), t.ll(), func, t.async_) {
        Ok(ir) => Recorded::Ir(ir),
        Err(p) => {
            let (key, harness) = panic_key(&p);
            if harness {
                vcommon::machinery(&format!("harness panic while recording call for {}: {p}", func.name));
            }
            Recorded::Panic { key, kind: panic_kind(&p), msg: p }
        }
    }
}

#[derive(Default, Clone, Debug)]
pub struct RunStats {
    pub runs: u64,
    pub nontrivial: u64,
    pub outcomes: std::collections::BTreeSet<u64>,
}

/// Execute one recorded call for one width and one value assignment and judge it.
/// Returns (class, message) problems; classes are independent of the signature.
#[allow(clippy::too_many_arguments)]
pub fn run_call(
    resolve: &Resolve,
    sizes: &SizeAlign,
    func: &Function,
    ir: &Ir,
    sig: &Sig,
    t: Triple,
    w: Width,
    assignment: usize,
    stats: &mut RunStats,
) -> Vec<(String, String)> {
    let (args, result) = values_for(sig, assignment);
    let (opts, cx) = t.spec();
    let sigref = abi::flatten_functype(opts, &sig.params, sig.result.as_ref(), cx, w);
    let wsig = resolve.wasm_signature(t.variant(), func);
    let mut problems: Vec<(String, String)> = Vec::new();
    if let Some(e) = ir.errors.first() {
        problems.push(("protocol".into(), e.clone()));
        return problems;
    }
    let mut mem = VmMem::new(w, 0xA5);
    // ---- arguments of the glue function
    let mut retptr: Option<u64> = None;
    let mut param_record: Option<(u64, u64, u64)> = None;
    let vm_args: Vec<V> = if !t.lift {
        args.iter().cloned().map(V::Val).collect()
    } else {
        // the caller of the glue lowers the arguments per the canonical ABI
        let base = abi::align_to(mem.next_addr() + 0x20, 16);
        let mut rm = RefMem::new(w, base, 0x5A);
        let lowered = abi::lower_flat_values(&mut rm, t.max_flat_params(), &args, &sig.params, None);
        // exports: everything the caller put into the callee's memory came from realloc
        mem.import_as(&rm, if t.is_export() { RegionKind::Ledger } else { RegionKind::Harness }, 0);
        let mut flat = match lowered {
            Lowered::Flat(f) => f,
            Lowered::Indirect { ptr, size, align } => {
                param_record = Some((ptr, size, align));
                vec![CoreVal::ptr(w, ptr)]
            }
        };
        if cx == Context::Lower && sigref.result_indirect {
            let rt = sig.result.as_ref().unwrap();
            let p = mem.alloc(abi::size(rt, w).max(1), abi::alignment(rt, w), RegionKind::Harness);
            retptr = Some(p);
            flat.push(CoreVal::ptr(w, p));
        }
        match to_vm(&flat, &wsig.params, w) {
            Ok(a) => a,
            Err(e) => {
                problems.push(("core-signature".into(), format!("wasm_signature params {:?} cannot carry the canonical arguments: {e}", wsig.params)));
                return problems;
            }
        }
    };
    let mut model = Model { sig, triple: t, w, args: &args, result: &result, sigref: sigref.clone(), problems: vec![], wasm_calls: 0, iface_calls: 0, status: 2 };
    let mut ex = Exec::new(ir, resolve, sizes, mem);
    let r = ex.run(&[], vm_args.clone(), &mut model);
    stats.runs += 1;
    if ex.work > 0 {
        stats.nontrivial += 1;
    }
    problems.append(&mut model.problems);
    if let Err(e) = r {
        if !e.starts_with("model:") {
            problems.push((format!("exec:{}", err_class(&e)), e));
        }
        return problems;
    }
    // ---- exactly one call, exactly one return
    let calls = model.wasm_calls + model.iface_calls;
    let expected_call = if t.lift { (0, 1) } else { (1, 0) };
    if (model.wasm_calls, model.iface_calls) != expected_call {
        problems.push(("call-count".into(), format!("{} CallWasm and {} CallInterface executed ({calls} calls)", model.wasm_calls, model.iface_calls)));
    }
    let returns: Vec<&Event> = ex.events.iter().filter(|e| matches!(e, Event::Return { .. } | Event::TaskReturn { .. })).collect();
    if returns.len() != 1 {
        problems.push(("return-count".into(), format!("{} Return/AsyncTaskReturn executed", returns.len())));
        return problems;
    }
    stats.outcomes.insert(vcommon::fnv(format!("{:?}", returns[0]).as_bytes()));
    let mem = &ex.mem;
    // ---- results
    let check_flat_result = |vals: &[V], problems: &mut Vec<(String, String)>| {
        let (Some(rt), Some(rv)) = (&sig.result, &result) else {
            if !vals.is_empty() {
                problems.push(("result".into(), format!("{} values returned by a function without result", vals.len())));
            }
            return;
        };
        let flat: Vec<CoreVal> = match vals.iter().map(|v| v.erase(w)).collect::<Option<Vec<_>>>() {
            Some(f) => f,
            None => {
                problems.push(("result".into(), "an interface value was returned where core values are expected".into()));
                return;
            }
        };
        let mut it = abi::FlatIter { vals: &flat, pos: 0 };
        match abi::lift_flat(mem, w, &mut it, rt) {
            Ok(got) if val_eq(&got, rv) && it.pos == flat.len() => {}
            Ok(got) => problems.push(("result".into(), format!("flat result decodes to {got} ({} of {} values used), expected {rv}", it.pos, flat.len()))),
            Err(e) => problems.push(("result".into(), format!("flat result [{}] does not decode: {e}", fmt_vs(vals)))),
        }
    };
    let check_mem_result = |p: u64, what: &str, problems: &mut Vec<(String, String)>| {
        let (Some(rt), Some(rv)) = (&sig.result, &result) else { return };
        if p % abi::alignment(rt, w) != 0 {
            problems.push(("result".into(), format!("{what} {p:#x} is not aligned to {}", abi::alignment(rt, w))));
            return;
        }
        match abi::load(mem, w, p, rt) {
            Ok(got) if val_eq(&got, rv) => {}
            Ok(got) => problems.push(("result".into(), format!("{what} holds {got}, expected {rv}"))),
            Err(e) => problems.push(("result".into(), format!("{what} at {p:#x} does not decode: {e}"))),
        }
    };
    let ret_areas: Vec<(u64, u64, u64)> = ex
        .events
        .iter()
        .filter_map(|e| match e {
            Event::RetArea { ptr, size, align } => Some((*ptr, *size, *align)),
            _ => None,
        })
        .collect();
    match (t.lift, t.async_, returns[0]) {
        // caller-side glue, sync: the lifted result comes back as the interface value
        (false, false, Event::Return { vals }) => match (&result, vals.as_slice()) {
            (None, []) => {}
            (Some(rv), [V::Val(got)]) if val_eq(got, rv) => {}
            (want, got) => problems.push(("result".into(), format!("glue returned [{}], the callee produced {want:?}", fmt_vs(got)))),
        },
        // caller-side glue with the async flag: whatever core results the call produced are
        // handed on (the status code for async variants)
        (false, true, Event::TaskReturn { vals, .. }) => {
            if t.consistent() {
                let want: Vec<u64> = if sigref.results.is_empty() { vec![] } else { vec![model.status as u64] };
                let got: Vec<u64> = vals.iter().map(|v| v.bits()).collect();
                if got != want {
                    problems.push(("result".into(), format!("status passed on as {got:?}, the call returned {want:?}")));
                }
            }
        }
        // callee-side glue, sync
        (true, false, Event::Return { vals }) => {
            if cx == Context::Lift {
                if sigref.result_indirect {
                    match vals.as_slice() {
                        [V::Ptr(p)] => {
                            check_mem_result(*p, "return area", &mut problems);
                            let rt = sig.result.as_ref().unwrap();
                            let want = (abi::size(rt, w), abi::alignment(rt, w));
                            match ret_areas.iter().find(|(q, _, _)| q == p) {
                                Some((_, s, a)) if (*s, *a) == want => {}
                                Some((_, s, a)) => problems.push(("ret-area".into(), format!("return area requested with (size {s}, align {a}), the result needs {want:?}"))),
                                None => problems.push(("ret-area".into(), "returned pointer is not the return area".into())),
                            }
                        }
                        o => problems.push(("result".into(), format!("expected one pointer to the return area, got [{}]", fmt_vs(o)))),
                    }
                } else {
                    check_flat_result(vals, &mut problems);
                }
            } else if sigref.result_indirect {
                if !vals.is_empty() {
                    problems.push(("result".into(), format!("import implementation with a return pointer returned [{}]", fmt_vs(vals))));
                }
                check_mem_result(retptr.unwrap(), "memory behind the return pointer", &mut problems);
            } else {
                check_flat_result(vals, &mut problems);
            }
        }
        // callee-side glue, async: one task.return with the canonical flattening
        (true, true, Event::TaskReturn { params, vals, .. }) => {
            if t.is_export() {
                let (want, indirect) = abi::task_return_params(sig.result.as_ref(), w);
                let got: Vec<_> = params.iter().map(|p| refabi::xcheck::erase(*p, w)).collect();
                if got != want {
                    problems.push(("task-return-signature".into(), format!("task.return declared with {got:?}, canonical {want:?}")));
                } else if indirect {
                    match vals.as_slice() {
                        [V::Ptr(p)] => check_mem_result(*p, "task.return area", &mut problems),
                        o => problems.push(("result".into(), format!("task.return expected one pointer, got [{}]", fmt_vs(o)))),
                    }
                } else {
                    check_flat_result(vals, &mut problems);
                }
            }
        }
        (_, _, ev) => problems.push(("return-kind".into(), format!("function ended with {} for an {} call", match ev { Event::Return { .. } => "Return", _ => "AsyncTaskReturn" }, if t.async_ { "async" } else { "sync" }))),
    }
    // ---- parameter record
    let deallocs: Vec<(u64, u64, u64)> = ex
        .events
        .iter()
        .filter_map(|e| match e {
            Event::GuestDeallocate { ptr, size, align } => Some((*ptr, *size, *align)),
            _ => None,
        })
        .collect();
    if t.lift && t.is_export() {
        match param_record {
            Some(rec) => {
                if deallocs.is_empty() {
                    problems.push(("param-record-not-freed".into(), format!("the caller-allocated parameter record (ptr {:#x}, size {}, align {}) is never deallocated", rec.0, rec.1, rec.2)));
                } else if deallocs != vec![rec] {
                    problems.push(("param-record-free".into(), format!("GuestDeallocate {deallocs:?}, the parameter record is {rec:?}")));
                }
            }
            None => {
                if !deallocs.is_empty() {
                    problems.push(("param-record-free".into(), format!("GuestDeallocate {deallocs:?} although parameters are flat")));
                }
            }
        }
    } else if !deallocs.is_empty() {
        problems.push(("param-record-free".into(), format!("GuestDeallocate {deallocs:?} in glue that owns no parameter record")));
    }
    // caller-side indirect parameters: where did the record come from
    if !t.lift && sigref.params_indirect {
        let (_, sz, al) = abi::record_layout(&sig.params, w);
        let mallocs: Vec<(u64, u64)> = ex
            .events
            .iter()
            .filter_map(|e| match e {
                Event::Malloc { size, align, .. } => Some((*size, *align)),
                _ => None,
            })
            .collect();
        let areas: Vec<(u64, u64)> = ret_areas.iter().map(|(_, s, a)| (*s, *a)).collect();
        let ok = if t.is_export() { mallocs == vec![(sz, al)] } else { areas.contains(&(sz, al)) };
        if !ok {
            problems.push(("param-record-alloc".into(), format!("parameter record needs (size {sz}, align {al}); Malloc {mallocs:?}, return areas {areas:?}")));
        }
    }
    let _ = retptr;
    problems
}

// ---------------------------------------------------------------------------------------------
// single (signature, triple) evaluation, minimisation

pub const ASSIGNMENTS: usize = 2;

/// Everything wrong with one (signature, triple): `(class, message)`, panics as
/// `("panic:…", message)`. `None` when the signature does not parse.
pub fn classes_for(sig: &Sig, t: Triple) -> Option<Vec<(String, String)>> {
    let parsed = env_funcs(&[sig.decl("g0")]).ok()?;
    let mut sizes = SizeAlign::default();
    sizes.fill(&parsed.resolve);
    let func = parsed.func("g0");
    Some(eval(&parsed.resolve, &sizes, func, sig, t, &mut RunStats::default()).1)
}

/// `(completed, problems)` for one function and triple.
pub fn eval(
    resolve: &Resolve,
    sizes: &SizeAlign,
    func: &Function,
    sig: &Sig,
    t: Triple,
    stats: &mut RunStats,
) -> (Option<PanicKind>, Vec<(String, String)>) {
    match record_call(resolve, func, t) {
        Recorded::Panic { key, msg, kind } => (Some(kind), vec![(key, msg)]),
        Recorded::Ir(ir) => {
            let mut out: Vec<(String, String)> = Vec::new();
            for w in Width::both() {
                for a in 0..ASSIGNMENTS {
                    for (c, m) in run_call(resolve, sizes, func, &ir, sig, t, w, a, stats) {
                        if !out.iter().any(|(c2, _)| *c2 == c) {
                            out.push((c, format!("width {} values #{a}: {m}", w.bytes())));
                        }
                    }
                }
            }
            (None, out)
        }
    }
}

fn sig_measure(s: &Sig) -> (usize, usize) {
    let m = |t: &Ty| measure(t).0 + measure(t).1;
    (s.params.len() + s.result.is_some() as usize, s.params.iter().map(m).sum::<usize>() + s.result.as_ref().map(m).unwrap_or(0))
}

fn sig_candidates(s: &Sig) -> Vec<Sig> {
    let mut out = Vec::new();
    if s.result.is_some() {
        out.push(Sig { params: s.params.clone(), result: None });
    }
    // drop one parameter (first of each run of equal types, and the last)
    for i in 0..s.params.len() {
        if i == 0 || s.params[i] != s.params[i - 1] {
            let mut p = s.params.clone();
            p.remove(i);
            out.push(Sig { params: p, result: s.result.clone() });
        }
    }
    // drop half of a long u32 prefix
    let n = s.params.iter().take_while(|t| **t == Ty::U32).count();
    if n >= 4 {
        out.push(Sig { params: s.params[n / 2..].to_vec(), result: s.result.clone() });
    }
    for (i, p) in s.params.iter().enumerate() {
        if *p != Ty::U32 {
            for c in [Ty::U32, Ty::String] {
                if c != *p {
                    let mut ps = s.params.clone();
                    ps[i] = c;
                    out.push(Sig { params: ps, result: s.result.clone() });
                }
            }
        }
    }
    if let Some(r) = &s.result {
        for c in [Ty::U32, Ty::String, Ty::Tuple(vec![Ty::U32, Ty::U32])] {
            if c != *r {
                out.push(Sig { params: s.params.clone(), result: Some(c) });
            }
        }
    }
    let m = sig_measure(s);
    out.retain(|c| sig_measure(c) < m);
    out.sort_by_key(sig_measure);
    out.dedup();
    out
}

/// Greedy minimisation of a signature showing `class` under triple `t`.
pub fn minimise_sig(sig: &Sig, t: Triple, class: &str) -> Sig {
    let mut cur = sig.clone();
    for _ in 0..80 {
        let mut next = None;
        for c in sig_candidates(&cur) {
            if let Some(cl) = classes_for(&c, t) {
                if cl.iter().any(|(k, _)| k == class) {
                    next = Some(c);
                    break;
                }
            }
        }
        match next {
            Some(n) => cur = n,
            None => break,
        }
    }
    cur
}
