//! E3 rust-e2e (C05, C06, C07): generated Rust bindings compiled and run natively against a mock
//! component-model host. See the module docs; `check56::main` drives C05 / C06.
pub mod build;
pub mod check56;
pub mod engine;
pub mod gen;
pub mod harness;
pub mod host;
pub mod nlower;
pub mod rewrite;
pub mod rsindex;
pub mod runner;
pub mod wire;
pub mod world;
pub mod check7;
pub mod res_host;
pub mod res_world;
pub mod c8_harness;
pub mod c8_host;
pub mod c8_world;
pub mod check8;
