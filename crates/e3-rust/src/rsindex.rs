//! Index of the generated bindings, read with `syn`: modules, free functions (imports), `Guest`
//! traits (exports), structs / enums / type aliases / bitflags types. Used by the harness
//! generator to learn the *Rust-level* form of every parameter and result (owned vs borrowed, type
//! names, field and variant names) — never for anything the ABI decides.

use std::collections::BTreeMap;
use syn::{Item, Type};

pub type ModPath = Vec<String>;

#[derive(Clone)]
pub struct StructDef {
    pub lifetime: bool,
    pub fields: Vec<(String, Type)>,
}

#[derive(Clone)]
pub struct EnumDef {
    pub lifetime: bool,
    /// variant name, payload type (tuple variant with one field)
    pub variants: Vec<(String, Option<Type>)>,
}

#[derive(Clone)]
pub enum Def {
    Struct(StructDef),
    Enum(EnumDef),
    Alias(Type),
    /// `bitflags!` struct
    Flags,
}

#[derive(Clone)]
pub struct FnSig {
    pub params: Vec<(String, Type)>,
    pub ret: Option<Type>,
    pub has_self: bool,
    pub is_async: bool,
}

#[derive(Default)]
pub struct Index {
    pub defs: BTreeMap<(ModPath, String), Def>,
    pub fns: BTreeMap<(ModPath, String), FnSig>,
    /// trait name → methods
    pub traits: BTreeMap<(ModPath, String), Vec<(String, FnSig)>>,
    pub modules: Vec<ModPath>,
}

fn sig_of(sig: &syn::Signature) -> FnSig {
    let mut params = Vec::new();
    let mut has_self = false;
    for a in &sig.inputs {
        match a {
            syn::FnArg::Receiver(_) => has_self = true,
            syn::FnArg::Typed(p) => {
                let name = match &*p.pat {
                    syn::Pat::Ident(i) => i.ident.to_string(),
                    _ => "_".to_string(),
                };
                params.push((name, (*p.ty).clone()));
            }
        }
    }
    let ret = match &sig.output {
        syn::ReturnType::Default => None,
        syn::ReturnType::Type(_, t) => Some((**t).clone()),
    };
    FnSig { params, ret, has_self, is_async: sig.asyncness.is_some() }
}

impl Index {
    pub fn parse(src: &str) -> Result<Index, String> {
        let file = syn::parse_file(src).map_err(|e| format!("generated bindings do not parse as Rust: {e}"))?;
        let mut ix = Index::default();
        ix.walk(&file.items, &mut Vec::new());
        Ok(ix)
    }

    fn walk(&mut self, items: &[Item], path: &mut ModPath) {
        self.modules.push(path.clone());
        for it in items {
            match it {
                Item::Mod(m) => {
                    if let Some((_, items)) = &m.content {
                        path.push(m.ident.to_string());
                        self.walk(items, path);
                        path.pop();
                    }
                }
                Item::Fn(f) => {
                    if matches!(f.vis, syn::Visibility::Public(_)) {
                        self.fns.insert((path.clone(), f.sig.ident.to_string()), sig_of(&f.sig));
                    }
                }
                Item::Trait(t) => {
                    let mut ms = Vec::new();
                    for ti in &t.items {
                        if let syn::TraitItem::Fn(f) = ti {
                            ms.push((f.sig.ident.to_string(), sig_of(&f.sig)));
                        }
                    }
                    self.traits.insert((path.clone(), t.ident.to_string()), ms);
                }
                Item::Struct(s) => {
                    let fields = match &s.fields {
                        syn::Fields::Named(n) => n
                            .named
                            .iter()
                            .map(|f| (f.ident.as_ref().unwrap().to_string(), f.ty.clone()))
                            .collect(),
                        _ => Vec::new(),
                    };
                    self.defs.insert(
                        (path.clone(), s.ident.to_string()),
                        Def::Struct(StructDef { lifetime: s.generics.lifetimes().next().is_some(), fields }),
                    );
                }
                Item::Enum(e) => {
                    let variants = e
                        .variants
                        .iter()
                        .map(|v| {
                            let p = match &v.fields {
                                syn::Fields::Unnamed(u) if u.unnamed.len() == 1 => Some(u.unnamed[0].ty.clone()),
                                _ => None,
                            };
                            (v.ident.to_string(), p)
                        })
                        .collect();
                    self.defs.insert(
                        (path.clone(), e.ident.to_string()),
                        Def::Enum(EnumDef { lifetime: e.generics.lifetimes().next().is_some(), variants }),
                    );
                }
                Item::Type(t) => {
                    self.defs.insert((path.clone(), t.ident.to_string()), Def::Alias((*t.ty).clone()));
                }
                Item::Macro(m) => {
                    // bitflags! { pub struct NAME: repr { … } }
                    let last = m.mac.path.segments.last().map(|s| s.ident.to_string()).unwrap_or_default();
                    if last == "bitflags" {
                        let mut prev_struct = false;
                        for tt in m.mac.tokens.clone() {
                            if let proc_macro2::TokenTree::Ident(i) = &tt {
                                if prev_struct {
                                    self.defs.insert((path.clone(), i.to_string()), Def::Flags);
                                    break;
                                }
                                prev_struct = i == "struct";
                            }
                        }
                    }
                }
                _ => {}
            }
        }
    }

    /// Resolve a path type written in module `ctx` to the definition it names, following
    /// aliases to other *named* definitions. Returns the module of the definition, its name and
    /// the definition; `None` if the path does not name something in the index (`String`, `Vec` …).
    pub fn resolve(&self, ctx: &ModPath, p: &syn::Path) -> Option<(ModPath, String, Def)> {
        let segs: Vec<String> = p.segments.iter().map(|s| s.ident.to_string()).collect();
        let (name, mods) = segs.split_last()?;
        let mut m = ctx.clone();
        let mut first = true;
        for s in mods {
            match s.as_str() {
                "super" => {
                    m.pop()?;
                }
                "self" => {}
                "crate" => m.clear(),
                other => {
                    if first && p.leading_colon.is_some() {
                        return None;
                    }
                    m.push(other.to_string());
                }
            }
            first = false;
        }
        let def = self.defs.get(&(m.clone(), name.clone()))?.clone();
        if let Def::Alias(Type::Path(tp)) = &def {
            if tp.qself.is_none() {
                if let Some(r) = self.resolve(&m, &tp.path) {
                    return Some(r);
                }
            }
        }
        Some((m, name.clone(), def))
    }
}
