//! The mock component-model host, sync half (DESIGN §3.3), for one loaded chunk: lowers values
//! with `nlower` (self-checked against refabi) into guest memory allocated through the guest's
//! own global allocator, calls exports through the chunk's trampolines, lifts with
//! `refabi::abi::{load, lift_flat}`, serves imports, and watches the guest heap through the
//! checking allocator's ledger.

use crate::harness::{export_sig, import_sig};
use crate::nlower::{self, NMem, W};
use crate::wire;
use refabi::abi::{self, CoreTy, CoreVal, MemRead};
use refabi::{Ty, Val};
use std::ffi::{c_void, CString};

type Dispatch = unsafe extern "C" fn(k: u32, args: *const u64, nargs: u32, ret: *mut u64);

#[derive(Clone, Copy)]
pub struct Api {
    pub set_case: unsafe extern "C" fn(*const u8, usize, *const u8, usize, *mut u8, usize),
    pub clear_case: unsafe extern "C" fn(*mut u32) -> usize,
    pub set_dispatch: unsafe extern "C" fn(Dispatch),
    pub alloc_enable: unsafe extern "C" fn(),
    pub alloc: unsafe extern "C" fn(usize, usize) -> *mut u8,
    pub live_count: unsafe extern "C" fn() -> usize,
    pub live_digest: unsafe extern "C" fn() -> u64,
    pub serial: unsafe extern "C" fn() -> usize,
    pub live_since: unsafe extern "C" fn(usize, *mut usize, usize) -> usize,
    pub audit: unsafe extern "C" fn(),
    pub purge: unsafe extern "C" fn(),
    pub take_fault: unsafe extern "C" fn(*mut u8, usize) -> usize,
    pub is_live: unsafe extern "C" fn(*const u8, usize) -> i32,
    pub is_freed: unsafe extern "C" fn(*const u8) -> i32,
    pub block_of: unsafe extern "C" fn(*const u8, *mut usize) -> i32,
    pub run_import: unsafe extern "C" fn(u32),
    pub call_export: unsafe extern "C" fn(u32, *const (), *const u64, *mut u64),
    pub set_flags: unsafe extern "C" fn(u32),
}

#[derive(Clone, Copy)]
pub struct Lib {
    pub handle: *mut c_void,
    pub api: Api,
}

pub fn dlsym(handle: *mut c_void, name: &str) -> *mut c_void {
    let c = CString::new(name).unwrap();
    unsafe { libc::dlsym(handle, c.as_ptr()) }
}

impl Lib {
    pub fn open(path: &str) -> Result<Lib, String> {
        let c = CString::new(path).unwrap();
        let handle = unsafe { libc::dlopen(c.as_ptr(), libc::RTLD_LAZY | libc::RTLD_LOCAL) };
        if handle.is_null() {
            let e = unsafe { std::ffi::CStr::from_ptr(libc::dlerror()) }.to_string_lossy().into_owned();
            return Err(format!("dlopen {path}: {e}"));
        }
        macro_rules! sym {
            ($n:literal) => {{
                let p = dlsym(handle, $n);
                if p.is_null() {
                    return Err(format!("{path}: harness symbol {} missing", $n));
                }
                unsafe { std::mem::transmute(p) }
            }};
        }
        let api = Api {
            set_case: sym!("verif_set_case"),
            clear_case: sym!("verif_clear_case"),
            set_dispatch: sym!("verif_set_dispatch"),
            alloc_enable: sym!("verif_alloc_enable"),
            alloc: sym!("verif_alloc"),
            live_count: sym!("verif_live_count"),
            live_digest: sym!("verif_live_digest"),
            serial: sym!("verif_serial"),
            live_since: sym!("verif_live_since"),
            audit: sym!("verif_audit"),
            purge: sym!("verif_purge"),
            take_fault: sym!("verif_take_fault"),
            is_live: sym!("verif_is_live"),
            is_freed: sym!("verif_is_freed"),
            block_of: sym!("verif_block_of"),
            run_import: sym!("verif_run_import"),
            call_export: sym!("verif_call_export"),
            set_flags: sym!("verif_set_flags"),
        };
        Ok(Lib { handle, api })
    }
}

// ---------------------------------------------------------------------------------------------
// guest memory as seen by the host

pub struct GuestMem {
    pub api: Api,
    /// first access that was not inside a live block / plausible static memory
    pub bad_access: Option<String>,
    pub host_allocs: Vec<(u64, u64, u64)>,
    pub reads_untracked: u64,
}

impl GuestMem {
    pub fn new(api: Api) -> GuestMem {
        GuestMem { api, bad_access: None, host_allocs: Vec::new(), reads_untracked: 0 }
    }
    fn check(&self, addr: u64, len: u64, what: &str) -> Result<bool, String> {
        if len == 0 {
            return Ok(true);
        }
        if unsafe { (self.api.is_freed)(addr as *const u8) } != 0 {
            return Err(format!("{what} of freed guest memory at {addr:#x}+{len}"));
        }
        let mut b = [0usize; 3];
        if unsafe { (self.api.block_of)(addr as *const u8, b.as_mut_ptr()) } != 0 {
            if addr + len > (b[0] + b[1]) as u64 {
                return Err(format!(
                    "{what} {addr:#x}+{len} runs past the end of the live block {:#x}+{}",
                    b[0], b[1]
                ));
            }
            return Ok(true);
        }
        // not a heap block: static return area or a stack return area of the caller
        if addr < 0x10000 || addr.checked_add(len).is_none() {
            return Err(format!("{what} at invalid address {addr:#x}+{len}"));
        }
        Ok(false)
    }
}

impl MemRead for GuestMem {
    fn read(&self, addr: u64, len: u64) -> Result<Vec<u8>, String> {
        if len == 0 {
            return Ok(vec![]);
        }
        if len > 1 << 26 {
            return Err(format!("read of {len} bytes"));
        }
        self.check(addr, len, "read")?;
        let mut v = vec![0u8; len as usize];
        unsafe { std::ptr::copy_nonoverlapping(addr as *const u8, v.as_mut_ptr(), len as usize) };
        Ok(v)
    }
}

impl NMem for GuestMem {
    fn alloc(&mut self, size: u64, align: u64) -> u64 {
        let p = unsafe { (self.api.alloc)(size as usize, align as usize) } as u64;
        self.host_allocs.push((p, size, align));
        p
    }
    fn write(&mut self, addr: u64, data: &[u8]) {
        if data.is_empty() {
            return;
        }
        if let Err(e) = self.check(addr, data.len() as u64, "write") {
            if self.bad_access.is_none() {
                self.bad_access = Some(e);
            }
            return;
        }
        unsafe { std::ptr::copy_nonoverlapping(data.as_ptr(), addr as *mut u8, data.len()) };
    }
}

// ---------------------------------------------------------------------------------------------
// one case

#[derive(Clone, Debug, PartialEq, Eq)]
pub enum Dir {
    Export,
    Import,
}

#[derive(Default, Debug)]
pub struct CaseReport {
    /// C05-class observations: `(position, message)`
    pub value: Vec<(String, String)>,
    /// C06-class observations: `(kind, message)`
    pub heap: Vec<(String, String)>,
    /// reference-side features of this case (allocation, join, padding, indirect …)
    pub features: Vec<String>,
    /// raw flat slots whose unused upper 32 bits were non-zero (lead L11), by slot description
    pub flat_upper_bits: Vec<String>,
    pub host_allocs: usize,
    pub guest_allocs: usize,
}

pub struct FuncInfo {
    pub k: usize,
    pub ty: Ty,
    pub exp_sym: String,
    pub post_sym: String,
}

struct ImportExpect {
    k: usize,
    ty: Ty,
    expect: Val,
    reply: Val,
    calls: u32,
    value: Vec<(String, String)>,
    heap: Vec<(String, String)>,
    flat_upper_bits: Vec<String>,
    host_allocs: usize,
}

static mut IMPORT: Option<ImportExpect> = None;
static mut API: Option<Api> = None;

fn slot_to_core(t: CoreTy, bits: u64) -> CoreVal {
    match t {
        CoreTy::I32 | CoreTy::F32 => CoreVal { ty: t, bits: bits & 0xffff_ffff },
        _ => CoreVal { ty: t, bits },
    }
}

/// Flat slots of `t` lowered for value `v` whose *joined* type is `i64` while the active case
/// puts an `i32`/`f32` there: the spec zero-extends.
fn joined_narrow_slots(t: &Ty, v: &Val) -> Vec<usize> {
    fn go(t: &Ty, v: &Val, at: usize, out: &mut Vec<usize>) {
        match (t, v) {
            (Ty::FixedList(e, _), Val::List(xs)) => {
                let n = abi::flatten(e, W).len();
                for (i, x) in xs.iter().enumerate() {
                    go(e, x, at + i * n, out);
                }
            }
            (Ty::Record(f) | Ty::Tuple(f), Val::Record(xs)) => {
                let mut at = at;
                for (ft, x) in f.iter().zip(xs) {
                    go(ft, x, at, out);
                    at += abi::flatten(ft, W).len();
                }
            }
            (_, Val::Variant(i, Some(p))) => {
                if let Some(cases) = t.cases() {
                    if let Some(Some(ct)) = cases.get(*i as usize) {
                        // judged on the wasm32 flattening: on the 8-byte extrapolation a pointer
                        // slot is i64 as well, which the spec does not define
                        let joined = abi::flatten_variant_payload(&cases, abi::Width::W4);
                        for (j, ft) in abi::flatten(ct, abi::Width::W4).iter().enumerate() {
                            if joined[j] == CoreTy::I64 && matches!(ft, CoreTy::I32 | CoreTy::F32) {
                                out.push(at + 1 + j);
                            }
                        }
                        go(ct, p, at + 1, out);
                    }
                }
            }
            _ => {}
        }
    }
    let mut out = Vec::new();
    go(t, v, 0, &mut out);
    out
}

unsafe extern "C" fn dispatch(k: u32, args: *const u64, nargs: u32, ret: *mut u64) {
    let (Some(st), Some(api)) = (unsafe { (*(&raw mut IMPORT)).as_mut() }, unsafe { *(&raw const API) }) else {
        eprintln!("E3-HARNESS-BUG: import dispatch without a case");
        std::process::exit(97)
    };
    st.calls += 1;
    if k as usize != st.k {
        st.value.push(("import-call".into(), format!("import {k} called while running the driver of import {}", st.k)));
        return;
    }
    if st.calls > 1 {
        st.value.push(("import-call".into(), "import called more than once".into()));
        return;
    }
    let sig = import_sig(&st.ty);
    if nargs as usize != sig.params.len() {
        eprintln!("E3-HARNESS-BUG: shim passed {nargs} args, reference says {}", sig.params.len());
        std::process::exit(97)
    }
    let raw: Vec<u64> = (0..nargs as usize).map(|i| unsafe { *args.add(i) }).collect();
    let mut mem = GuestMem::new(api);
    let n_param_slots = if sig.result_indirect { sig.params.len() - 1 } else { sig.params.len() };
    let flat: Vec<CoreVal> = raw[..n_param_slots].iter().zip(&sig.params).map(|(b, t)| slot_to_core(*t, *b)).collect();
    // lift the parameter
    let lifted = abi::lift_flat_values(&mem, W, abi::MAX_FLAT_PARAMS, &flat, std::slice::from_ref(&st.ty));
    match lifted {
        Err(e) => {
            let kind = if e.contains("freed") || e.contains("live block") || e.contains("invalid address") {
                st.heap.push(("host-read".into(), format!("lifting the import parameter: {e}")));
                "import-param"
            } else {
                "import-param"
            };
            st.value.push((kind.into(), format!("host cannot lift what the guest passed: {e}")));
        }
        Ok(vs) => {
            if !wire::same(&vs[0], &st.expect) {
                st.value.push(("import-param".into(), format!("host received {} but the guest was told to send {}", vs[0], st.expect)));
            }
            // L11 observation: upper halves of joined i64 slots that carry a 32-bit value
            if !sig.params_indirect {
                for s in joined_narrow_slots(&st.ty, &st.expect) {
                    if s < raw.len() && raw[s] >> 32 != 0 {
                        st.flat_upper_bits.push(format!("slot {s}: {:#x}", raw[s]));
                    }
                }
            }
        }
    }
    // lower the reply
    if sig.result_indirect {
        let retptr = raw[sig.params.len() - 1];
        if retptr % abi::alignment(&st.ty, W) != 0 {
            st.value.push(("import-result".into(), format!("misaligned return pointer {retptr:#x}")));
            return;
        }
        nlower::store_n(&mut mem, &st.reply, &st.ty, retptr);
    } else {
        let fl = nlower::lower_flat_n(&mut mem, &st.reply, &st.ty);
        if let Some(v) = fl.first() {
            unsafe { *ret = v.bits };
        }
    }
    if let Some(e) = mem.bad_access.take() {
        st.heap.push(("host-write".into(), e));
    }
    st.host_allocs += mem.host_allocs.len();
}

pub struct Host {
    pub lib: Lib,
    pub funcs: Vec<FuncInfo>,
    obs: Vec<u8>,
}

fn has_padding(t: &Ty) -> bool {
    fn sum(t: &Ty) -> u64 {
        match t {
            Ty::Record(f) | Ty::Tuple(f) => f.iter().map(|t| abi::size(t, W)).sum(),
            _ => abi::size(t, W),
        }
    }
    t.contains(&|t| match t {
        Ty::Record(_) | Ty::Tuple(_) => sum(t) != abi::size(t, W),
        Ty::Variant(_) | Ty::Option(_) | Ty::Result(..) => {
            let cases = t.cases().unwrap();
            let mx = cases.iter().flatten().map(|c| abi::size(c, W)).max().unwrap_or(0);
            abi::discriminant_size(cases.len()) + mx != abi::size(t, W)
        }
        _ => false,
    })
}

pub fn features(t: &Ty, v: &Val) -> Vec<String> {
    let mut f = Vec::new();
    let mut bufs = Vec::new();
    abi::heap_buffers(t, v, W, &mut bufs);
    if !bufs.is_empty() {
        f.push("alloc".to_string());
    }
    if !joined_narrow_slots(t, v).is_empty() || t.contains(&|t| {
        t.cases().map(|c| {
            let j = abi::flatten_variant_payload(&c, W);
            c.iter().flatten().any(|ct| abi::flatten(ct, W).iter().zip(&j).any(|(a, b)| a != b))
        }).unwrap_or(false)
    }) {
        f.push("join".to_string());
    }
    if has_padding(t) {
        f.push("padding".to_string());
    }
    let es = export_sig(t);
    if es.params_indirect {
        f.push("indirect-params".to_string());
    }
    if es.result_indirect {
        f.push("indirect-result".to_string());
    }
    if abi::size(t, W) > 0 && (es.params_indirect || es.result_indirect || !bufs.is_empty()) {
        f.push("store".to_string());
    }
    f
}

impl Host {
    pub fn new(lib: Lib, funcs: Vec<FuncInfo>) -> Host {
        unsafe {
            *(&raw mut API) = Some(lib.api);
            (lib.api.set_dispatch)(dispatch);
            (lib.api.alloc_enable)();
        }
        Host { lib, funcs, obs: vec![0u8; 1 << 20] }
    }

    fn fault(&self) -> Option<String> {
        let mut b = [0u8; 256];
        let n = unsafe { (self.lib.api.take_fault)(b.as_mut_ptr(), b.len()) };
        if n == 0 {
            None
        } else {
            Some(String::from_utf8_lossy(&b[..n]).into_owned())
        }
    }

    /// Ledger comparison after a call: nothing allocated since `serial0` may still be live, and
    /// the set of live blocks must be the one from before.
    fn ledger_check(&self, rep: &mut CaseReport, serial0: usize, count0: usize, digest0: u64) {
        let api = &self.lib.api;
        unsafe { (api.audit)() };
        if let Some(f) = self.fault() {
            rep.heap.push(("alloc-fault".into(), f));
        }
        let mut buf = [0usize; 3 * 16];
        let n = unsafe { (api.live_since)(serial0, buf.as_mut_ptr(), 16) };
        if n > 0 {
            let list: Vec<String> =
                (0..n.min(16)).map(|i| format!("{}B align {}", buf[3 * i + 1], buf[3 * i + 2])).collect();
            rep.heap.push(("leak".into(), format!("{n} block(s) allocated during the call are still live: {}", list.join(", "))));
        }
        let count1 = unsafe { (api.live_count)() };
        let digest1 = unsafe { (api.live_digest)() };
        if n == 0 && (count1 != count0 || digest1 != digest0) {
            rep.heap.push((
                "foreign-free".into(),
                format!("the call freed {} block(s) that were live before it", count0 as i64 - count1 as i64),
            ));
        }
        rep.guest_allocs = unsafe { (api.serial)() } - serial0;
    }

    /// `spare`: user code builds its vectors and strings with spare capacity in this case.
    pub fn run_case(&mut self, fi: usize, dir: &Dir, v1: &Val, v2: &Val, spare: bool) -> CaseReport {
        let api = self.lib.api;
        unsafe { (api.set_flags)(if spare { 2 } else { 0 }) };
        let f = &self.funcs[fi];
        let ty = f.ty.clone();
        let mut rep = CaseReport { features: features(&ty, v1), ..Default::default() };
        for (t, v) in [(&ty, v1), (&ty, v2)] {
            if let Err(e) = nlower::self_check(t, v) {
                vcommon::machinery(&format!("native lowering self-check failed: {e}"));
            }
        }
        let mut b1 = Vec::new();
        let mut b2 = Vec::new();
        wire::encode(v1, &ty, &mut b1);
        wire::encode(v2, &ty, &mut b2);
        unsafe { (api.purge)() };
        unsafe { (api.set_case)(b1.as_ptr(), b1.len(), b2.as_ptr(), b2.len(), self.obs.as_mut_ptr(), self.obs.len()) };
        // ---- measured window starts
        let serial0 = unsafe { (api.serial)() };
        let count0 = unsafe { (api.live_count)() };
        let digest0 = unsafe { (api.live_digest)() };
        let observed_pos;
        let expected_obs;
        match dir {
            Dir::Export => {
                observed_pos = "export-param";
                expected_obs = v1.clone();
                let fp = dlsym(self.lib.handle, &f.exp_sym);
                if fp.is_null() {
                    rep.value.push(("export-symbol".into(), format!("no export named `{}`", f.exp_sym)));
                } else {
                    let sig = export_sig(&ty);
                    let mut mem = GuestMem::new(api);
                    // lower the parameter
                    let args: Vec<u64> = if sig.params_indirect {
                        let (_, sz, al) = abi::record_layout(std::slice::from_ref(&ty), W);
                        let p = mem.alloc(sz, al);
                        nlower::store_n(&mut mem, v1, &ty, p);
                        vec![p]
                    } else {
                        nlower::lower_flat_n(&mut mem, v1, &ty).iter().map(|c| c.bits).collect()
                    };
                    rep.host_allocs = mem.host_allocs.len();
                    let mut ret = 0u64;
                    unsafe { (api.call_export)(f.k as u32, fp as *const (), args.as_ptr(), &mut ret) };
                    // lift the result
                    let lifted = if sig.result_indirect {
                        if ret % abi::alignment(&ty, W) != 0 {
                            Err(format!("misaligned return area pointer {ret:#x}"))
                        } else {
                            abi::load(&mem, W, ret, &ty)
                        }
                    } else {
                        let flat: Vec<CoreVal> = sig.results.iter().map(|t| slot_to_core(*t, ret)).collect();
                        let mut it = abi::FlatIter { vals: &flat, pos: 0 };
                        if abi::flatten(&ty, W).is_empty() {
                            // zero flat results (e.g. flags#0, empty tuple): nothing to lift from
                            abi::lift_flat(&mem, W, &mut it, &ty)
                        } else {
                            abi::lift_flat(&mem, W, &mut it, &ty)
                        }
                    };
                    match lifted {
                        Err(e) => {
                            if e.contains("freed") || e.contains("live block") || e.contains("invalid address") {
                                rep.heap.push(("host-read".into(), format!("lifting the export result: {e}")));
                            }
                            rep.value.push(("export-result".into(), format!("host cannot lift what the guest returned: {e}")));
                        }
                        Ok(v) => {
                            if !wire::same(&v, v2) {
                                rep.value.push(("export-result".into(), format!("host received {v} but the guest returned {v2}")));
                            }
                        }
                    }
                    // post-return, if the component declares one
                    let post = dlsym(self.lib.handle, &f.post_sym);
                    if !post.is_null() {
                        unsafe {
                            match sig.results.first() {
                                Some(CoreTy::I32) => (std::mem::transmute::<_, unsafe extern "C" fn(i32)>(post))(ret as i32),
                                Some(CoreTy::I64) => (std::mem::transmute::<_, unsafe extern "C" fn(i64)>(post))(ret as i64),
                                Some(CoreTy::F32) => {
                                    (std::mem::transmute::<_, unsafe extern "C" fn(f32)>(post))(f32::from_bits(ret as u32))
                                }
                                Some(CoreTy::F64) => {
                                    (std::mem::transmute::<_, unsafe extern "C" fn(f64)>(post))(f64::from_bits(ret))
                                }
                                None => (std::mem::transmute::<_, unsafe extern "C" fn()>(post))(),
                            }
                        }
                        rep.features.push("post-return".into());
                    }
                    if let Some(e) = mem.bad_access.take() {
                        rep.heap.push(("host-write".into(), e));
                    }
                }
            }
            Dir::Import => {
                observed_pos = "import-result";
                expected_obs = v2.clone();
                unsafe {
                    *(&raw mut IMPORT) = Some(ImportExpect {
                        k: f.k,
                        ty: ty.clone(),
                        expect: v1.clone(),
                        reply: v2.clone(),
                        calls: 0,
                        value: vec![],
                        heap: vec![],
                        flat_upper_bits: vec![],
                        host_allocs: 0,
                    });
                    (api.run_import)(f.k as u32);
                    let st = (*(&raw mut IMPORT)).take().unwrap();
                    if st.calls == 0 {
                        rep.value.push(("import-call".into(), "the import was never called".into()));
                    }
                    rep.value.extend(st.value);
                    rep.heap.extend(st.heap);
                    rep.flat_upper_bits = st.flat_upper_bits;
                    rep.host_allocs = st.host_allocs;
                }
            }
        }
        self.ledger_check(&mut rep, serial0, count0, digest0);
        // ---- measured window ends
        let mut export_calls = 0u32;
        let n = unsafe { (api.clear_case)(&mut export_calls) };
        if *dir == Dir::Export && export_calls != 1 && !rep.value.iter().any(|v| v.0 == "export-symbol") {
            rep.value.push(("export-call".into(), format!("user code of the export ran {export_calls} times")));
        }
        if n == usize::MAX {
            vcommon::machinery("observation buffer overflow");
        }
        if n == 0 {
            if rep.value.is_empty() {
                rep.value.push((observed_pos.into(), "user code observed nothing".into()));
            }
        } else {
            let mut p = 0;
            match wire::decode(&self.obs[..n], &mut p, &ty) {
                Err(e) => rep.value.push((observed_pos.into(), format!("user code saw an ill-formed value: {e}"))),
                Ok(v) => {
                    if !wire::same(&v, &expected_obs) {
                        rep.value.push((
                            observed_pos.into(),
                            format!("user code saw {v} but the host sent {expected_obs}"),
                        ));
                    }
                    if p != n {
                        rep.value.push((observed_pos.into(), "user code observed more than one value".into()));
                    }
                }
            }
        }
        rep
    }
}
