//! C08: async imports / exports deliver the same as sync ones. Builds the four binding variants
//! of the signature world, then explores host schedules (deviation-bounded, level-synchronous,
//! one forked child per execution) and compares every async execution with the synchronous run
//! of the same signature and value.

use crate::build::{CrateSpec, Workspace};
use crate::c8_harness;
use crate::c8_host::{self, Case};
use crate::c8_world::{self, Sig, Variant, VARIANTS};
use crate::gen::{self, Config};
use crate::host::{Dir, Lib};
use crate::rewrite;
use crate::rsindex::Index;
use refabi::Val;
use serde_json::{json, Value};
use std::collections::{BTreeMap, BTreeSet};
use vcommon::{Outcome, Run};

struct Built {
    variant: Variant,
    lib: Lib,
}

fn prepare(sigs: &[Sig], jobs: usize) -> Vec<Built> {
    let w = c8_world::world(sigs.to_vec());
    let cfg = Config::default_cfg();
    let mut ws = Workspace::new("c8");
    let mut members = Vec::new();
    for v in VARIANTS {
        let dirs = c8_world::directives(v, sigs);
        let bindings = gen::generate_async(&w.wit, &cfg, &dirs).unwrap_or_else(|e| vcommon::machinery(&format!("C08 world ({}): {e}", v.name())));
        let (rewritten, _) = rewrite::rewrite(&bindings).unwrap_or_else(|e| vcommon::machinery(&format!("shim rewrite: {e}")));
        let ix = Index::parse(&rewritten).unwrap_or_else(|e| vcommon::machinery(&e));
        let user = c8_harness::generate(&ix, cfg, v, sigs).unwrap_or_else(|e| vcommon::machinery(&format!("C08 harness ({}): {e}", v.name())));
        let member = format!("e3c8_{}", v.name().replace('-', "_"));
        ws.add(&CrateSpec { name: member.clone(), bindings: rewritten, user, extra_files: vec![], wit_bindgen_features: vec!["std", "bitflags", "async"] });
        members.push((v, member));
    }
    ws.finish_manifest();
    if let Err(e) = ws.build(&[], jobs) {
        let t: String = e.chars().rev().take(5000).collect::<String>().chars().rev().collect();
        vcommon::machinery(&format!("the C08 chunk crates do not compile:\n{t}"));
    }
    members
        .into_iter()
        .map(|(variant, m)| {
            let so = ws.link(&m).unwrap_or_else(|e| vcommon::machinery(&e));
            let lib = Lib::open(&so.to_string_lossy()).unwrap_or_else(|e| vcommon::machinery(&e));
            Built { variant, lib }
        })
        .collect()
}

#[derive(Clone)]
struct Scen {
    variant: Variant,
    k: usize,
    dir: Dir,
    ci: usize,
    v1: Val,
    v2: Val,
}

impl Scen {
    fn dir_name(&self) -> &'static str {
        if self.dir == Dir::Export {
            "export"
        } else {
            "import"
        }
    }
    fn name(&self, sigs: &[Sig]) -> String {
        format!("{}:{}:{}:case{}", self.variant.name(), self.dir_name(), sigs[self.k].label, self.ci)
    }
}

fn exec(built: &[Built], sigs: &[Sig], s: &Scen, prefix: &[usize]) -> Value {
    let b = built.iter().find(|b| b.variant == s.variant).unwrap();
    let run_it = || {
        c8_host::install(b.lib, sigs.to_vec(), s.variant);
        let r = c8_host::run(&Case { sig: &sigs[s.k], dir: s.dir.clone(), v1: &s.v1, v2: &s.v2 }, prefix.to_vec());
        serde_json::to_vec(&r).unwrap()
    };
    if std::env::var_os("E3_INLINE").is_some() {
        // debugging aid: no isolation
        return serde_json::from_slice(&run_it()).unwrap();
    }
    let mut out = vcommon::isolated(20_000, run_it);
    if out == Outcome::Timeout {
        out = vcommon::isolated(180_000, run_it);
    }
    match out {
        Outcome::Ok(b) => serde_json::from_slice(&b).unwrap_or_else(|e| json!({"outcome": format!("machinery: bad child json {e}"), "machinery": true})),
        o => json!({"outcome": format!("child-lost: {}", o.describe()), "choices": [], "violations": [[c8_host::TAG, format!("crash:{}:{}", s.variant.name(), sigs[s.k].label), format!("the execution ended without a report: {}", o.describe())]], "fps": [], "edges": [], "trace": [], "obs": {}, "lost": true}),
    }
}

fn choices_of(v: &Value) -> Vec<(String, usize, usize)> {
    v["choices"].as_array().map(|a| a.iter().map(|c| (c[0].as_str().unwrap_or("").to_string(), c[1].as_u64().unwrap_or(0) as usize, c[2].as_u64().unwrap_or(0) as usize)).collect()).unwrap_or_default()
}

pub fn main() -> ! {
    vcommon::install_quiet_panic_hook();
    let mut run = Run::from_args("C08", "model_checking");
    let jobs = std::env::var("E3_JOBS").ok().and_then(|s| s.parse().ok()).unwrap_or(vcommon::ncpu());
    let mut sigs = c8_world::alphabet();
    if let Some(n) = std::env::var("E3_LIMIT").ok().and_then(|s| s.parse::<usize>().ok()) {
        sigs.truncate(n);
    }
    let first = sigs.len();
    sigs.extend(c8_world::res_alphabet(first));
    let built = prepare(&sigs, jobs);
    let ncases = run.pick(1usize, 2usize);

    if let Some(d) = run.replay_detail() {
        let variant = Variant::parse(d["variant"].as_str().unwrap_or("")).unwrap_or_else(|| vcommon::machinery("replay: variant"));
        let k = d["k"].as_u64().unwrap_or(0) as usize;
        let dir = if d["dir"] == "import" { Dir::Import } else { Dir::Export };
        let ci = d["case"].as_u64().unwrap_or(0) as usize;
        let cs = c8_world::cases(&sigs[k], 3);
        let (v1, v2) = cs[ci % cs.len()].clone();
        let prefix: Vec<usize> = d["choices"].as_array().map(|a| a.iter().map(|x| x.as_u64().unwrap_or(0) as usize).collect()).unwrap_or_default();
        let s = Scen { variant, k, dir, ci, v1, v2 };
        std::env::set_var("VERIF_CHILD_STDERR", "1");
        let r = exec(&built, &sigs, &s, &prefix);
        println!("replay of {} with choices {prefix:?}: outcome {}", s.name(&sigs), r["outcome"]);
        for l in r["trace"].as_array().unwrap_or(&vec![]) {
            println!("  {}", l.as_str().unwrap_or(""));
        }
        println!("  observations: {}", r["obs"]);
        let viol = r["violations"].as_array().cloned().unwrap_or_default();
        for v in &viol {
            println!("  VIOLATION {}: {}", v[1], v[2]);
        }
        std::process::exit(if viol.is_empty() { 0 } else { 1 });
    }

    // ---- scenarios
    let mut scens: Vec<Scen> = Vec::new();
    for v in VARIANTS {
        for s in &sigs {
            let cs = c8_world::cases(s, ncases);
            for dir in [Dir::Export, Dir::Import] {
                if s.res && dir == Dir::Export {
                    continue;
                }
                for (ci, (v1, v2)) in cs.iter().enumerate() {
                    scens.push(Scen { variant: v, k: s.k, dir: dir.clone(), ci, v1: v1.clone(), v2: v2.clone() });
                }
            }
        }
    }
    if let Ok(only) = std::env::var("E3_ONLY") {
        scens.retain(|s| s.variant == Variant::Sync || s.name(&sigs).starts_with(&only));
    }
    // deviation levels up to `min_bound` always complete; deeper ones only while time allows
    let min_bound = run.pick(2usize, 3usize);
    let bound = run.pick(2usize, 5usize);
    let bound = std::env::var("E3_BOUND").ok().and_then(|s| s.parse().ok()).unwrap_or(bound);
    let time_cap = run.pick(100.0, 600.0);
    let t_explore = run.elapsed();

    let mut states: BTreeSet<u64> = BTreeSet::new();
    let mut edges: BTreeSet<u64> = BTreeSet::new();
    let mut evaluations = 0usize;
    let mut outcomes: BTreeSet<String> = BTreeSet::new();
    let mut samples = vcommon::Samples::new(10);
    let mut per_variant: BTreeMap<String, usize> = BTreeMap::new();
    let mut cancelled_runs = 0usize;
    let mut completed = 0usize;
    // baseline observations of the synchronous runs: (k, dir, case) -> obs
    let mut base: BTreeMap<(usize, String, usize), Value> = BTreeMap::new();
    let mut frontier: Vec<Vec<(Vec<usize>, usize)>> = scens.iter().map(|_| vec![(vec![], 0)]).collect();
    let mut found: Vec<(String, String, Value)> = Vec::new();
    let mut level_counts = Vec::new();

    for d in 0..=bound {
        let flat: Vec<(usize, Vec<usize>, usize)> =
            frontier.iter().enumerate().flat_map(|(si, f)| f.iter().map(move |(p, st)| (si, p.clone(), *st))).collect();
        if flat.is_empty() {
            completed = bound;
            break;
        }
        if d > min_bound && run.elapsed() - t_explore > time_cap {
            // the deeper level was not started: the completed bound is reported
            break;
        }
        // Executions run in batches inside one forked child: an execution that ends "done"
        // without a violation leaves guest and host clean (all tasks exited, ledger checked), so
        // the next one can reuse the process; after anything else the batch continues in a
        // fresh child, and a batch whose child was lost is re-run one execution per child.
        const BATCH: usize = 16;
        let nb = flat.len().div_ceil(BATCH);
        let batches = vcommon::par_map(nb, jobs, |b| {
            let lo = b * BATCH;
            let hi = (lo + BATCH).min(flat.len());
            let mut out: Vec<Value> = Vec::new();
            let mut at = lo;
            while at < hi {
                let start = at;
                let o = vcommon::isolated(120_000, || {
                    let mut rs: Vec<Value> = Vec::new();
                    for (si, prefix, _) in &flat[start..hi] {
                        let s = &scens[*si];
                        let bl = built.iter().find(|x| x.variant == s.variant).unwrap();
                        c8_host::install(bl.lib, sigs.to_vec(), s.variant);
                        let r = c8_host::run(&Case { sig: &sigs[s.k], dir: s.dir.clone(), v1: &s.v1, v2: &s.v2 }, prefix.clone());
                        let clean = r["outcome"] == "done" && r["violations"].as_array().map(|a| a.is_empty()).unwrap_or(false);
                        rs.push(r);
                        if !clean {
                            break;
                        }
                    }
                    serde_json::to_vec(&rs).unwrap()
                });
                let parsed: Option<Vec<Value>> = match &o {
                    Outcome::Ok(bytes) => serde_json::from_slice::<Value>(bytes).ok().and_then(|v| v.as_array().cloned()),
                    _ => None,
                };
                match parsed {
                    Some(rs) if !rs.is_empty() => {
                        at += rs.len();
                        out.extend(rs);
                    }
                    _ => {
                        // lost child or an aborted execution's own report: one execution per child
                        // until the culprit has been passed
                        loop {
                            let r = exec(&built, &sigs, &scens[flat[at].0], &flat[at].1);
                            let clean = r["outcome"] == "done" && r["violations"].as_array().map(|a| a.is_empty()).unwrap_or(false);
                            out.push(r);
                            at += 1;
                            if !clean || at >= hi {
                                break;
                            }
                        }
                    }
                }
            }
            Value::Array(out)
        });
        let results: Vec<Value> = batches.into_iter().flat_map(|b| b.as_array().cloned().unwrap_or_default()).collect();
        if results.len() != flat.len() {
            vcommon::machinery(&format!("{} results for {} executions", results.len(), flat.len()));
        }
        let mut next: Vec<Vec<(Vec<usize>, usize)>> = scens.iter().map(|_| Vec::new()).collect();
        for ((si, prefix, start), r) in flat.iter().zip(&results) {
            let s = &scens[*si];
            evaluations += 1;
            *per_variant.entry(s.variant.name().to_string()).or_insert(0) += 1;
            if r["machinery"] == true || r["outcome"].as_str().map(|o| o.starts_with("machinery")).unwrap_or(false) {
                vcommon::machinery(&format!("{}: {}", s.name(&sigs), r["outcome"]));
            }
            if let Some(dv) = r["diverged"].as_str() {
                vcommon::machinery(&format!("{}: divergence while replaying prefix {prefix:?}: {dv}", s.name(&sigs)));
            }
            let ch = choices_of(r);
            for f in r["fps"].as_array().into_iter().flatten() {
                states.insert(f.as_u64().unwrap_or(0) ^ vcommon::fnv(s.variant.name().as_bytes()));
            }
            for e in r["edges"].as_array().into_iter().flatten() {
                edges.insert(e.as_u64().unwrap_or(0) ^ vcommon::fnv(s.variant.name().as_bytes()));
            }
            let outcome = r["outcome"].as_str().unwrap_or("").to_string();
            let obs = &r["obs"];
            let cancelled = obs["cancelled"] == true;
            if cancelled {
                cancelled_runs += 1;
            }
            outcomes.insert(format!("{}:{}:{}", s.variant.name(), outcome.split(':').next().unwrap_or(""), if cancelled { "cancelled" } else { "completed" }));
            let detail = json!({"variant": s.variant.name(), "k": s.k, "signature": sigs[s.k].label, "dir": s.dir_name(), "case": s.ci,
                "sent": s.v1.to_string(), "reply": s.v2.to_string(), "choices": ch.iter().map(|c| c.2).collect::<Vec<_>>(),
                "labels": ch.iter().map(|c| format!("{}={}/{}", c.0, c.2, c.1)).collect::<Vec<_>>(), "outcome": outcome, "trace": r["trace"]});
            let mut viols: Vec<(String, String)> = r["violations"]
                .as_array()
                .into_iter()
                .flatten()
                .map(|v| {
                    let tag = v[0].as_str().unwrap_or("");
                    let key = v[1].as_str().unwrap_or("");
                    // trap rules of the async mock host (tagged with the runtime properties they
                    // belong to) are violations here too: the values are not delivered
                    let key = if tag == c8_host::TAG { key.to_string() } else { format!("host-rule:{tag}:{key}:{}:{}", s.variant.name(), sigs[s.k].label) };
                    (key, v[2].as_str().unwrap_or("").to_string())
                })
                .collect();
            // ---- differential oracle
            let bk = (s.k, s.dir_name().to_string(), s.ci);
            if s.variant == Variant::Sync {
                base.insert(bk, obs.clone());
            } else if let Some(b) = base.get(&bk) {
                let lab = format!("{}:{}", s.variant.name(), sigs[s.k].label);
                let complete = outcome == "done" && !cancelled;
                for f in ["user_saw", "host_saw"] {
                    let same = obs[f] == b[f];
                    let absent_ok = !complete && obs[f].is_null();
                    if !same && !absent_ok {
                        viols.push((format!("diff:{f}:{}:{lab}", s.dir_name()), format!("{f}: async run {} vs synchronous run {}", obs[f], b[f])));
                    }
                }
                if complete {
                    for f in ["user_count", "host_saw_count", "import_calls"] {
                        if obs[f] != b[f] {
                            viols.push((format!("diff:{f}:{}:{lab}", s.dir_name()), format!("{f}: async run {} vs synchronous run {}", obs[f], b[f])));
                        }
                    }
                }
                let already = viols.iter().any(|v| v.0.starts_with("leak:") || v.0.starts_with("heap:") || v.0.starts_with("foreign-free:"));
                if outcome == "done" && obs["ledger"] != b["ledger"] && !already {
                    viols.push((format!("diff:ledger:{}:{lab}", s.dir_name()), format!("guest heap after completion: async run {} vs synchronous run {}", obs["ledger"], b["ledger"])));
                }
                if s.dir == Dir::Export && outcome == "done" {
                    let (rets, cans) = (obs["task_returns"].as_u64().unwrap_or(0), obs["task_cancels"].as_u64().unwrap_or(0));
                    if s.variant.async_export() && rets + cans != 1 {
                        viols.push((format!("task-report:{rets}-returns-{cans}-cancels:{lab}"), format!("the async export reported {rets} task.return and {cans} task.cancel")));
                    }
                }
            }
            for (key, what) in viols {
                if !found.iter().any(|f| f.0 == key) {
                    found.push((key, format!("[{}] {what}", s.name(&sigs)), detail.clone()));
                }
            }
            samples.offer(|| json!({"scenario": s.name(&sigs), "choices": detail["labels"], "outcome": outcome, "observations": obs}));
            if d < bound && s.variant != Variant::Sync {
                for pos in *start..ch.len() {
                    for alt in 1..ch[pos].1 {
                        let mut p: Vec<usize> = ch[..pos].iter().map(|c| c.2).collect();
                        p.push(alt);
                        let np = p.len();
                        next[*si].push((p, np));
                    }
                }
            }
        }
        level_counts.push(flat.len());
        completed = d;
        frontier = next;
    }
    for (key, what, detail) in found {
        run.violation(&key, &what, detail);
    }
    // exhaustive with respect to the completed deviation bound (reported below)
    let exhaustive = completed >= min_bound.min(bound);
    let coverage = json!({
        "states": states.len(),
        "transitions": edges.len(),
        "traces_validated_against_impl": evaluations,
        "evaluations": evaluations,
        "exhaustive": exhaustive,
        "bounds": {
            "deviation_bound": bound, "deviation_bound_completed": completed, "executions_per_level": level_counts,
            "signatures": sigs.len(), "signature_alphabet": sigs.iter().map(|s| s.label.clone()).collect::<Vec<_>>(),
            "values_per_signature": ncases, "variants": VARIANTS.iter().map(|v| v.name()).collect::<Vec<_>>(),
            "directions": ["export (host calls the guest)", "import (guest calls the host from inside the async `drive` export)"],
            "host_turn_horizon": 24,
        },
        "choice_points": "export body suspends on an async import before answering or not; every async import call: RETURNED / STARTED / STARTING; every host turn: deliver a ready event, start / return a subtask, resume, EVENT_CANCEL to a task that has not reported; every subtask.cancel: each legal final status",
        "per_variant_executions": per_variant,
        "cancelled_executions": cancelled_runs,
        "distinct_outcomes": outcomes,
        "scenarios": scens.len(),
        "oracle": "differential: what user code saw, what the host lifted, how often, and the guest heap after completion equal the synchronous run of the same signature and value (a cancelled run may lack values, never differ); exactly one task.return (arguments lifted with the reference flattening of task.return) or one task.cancel per task; lowered parameters of an async import are live when the host reports the callee started (read through the allocator's liveness check at that moment); results area live at return; every subtask dropped; all trap rules of the async mock host (e2_async::host)",
        "samples": samples.items,
    });
    let assumptions = vec![
        "native execution (pointer width 8); default generator configuration".to_string(),
        "functions are declared `async` in WIT; the sync / async-import / async-export / both variants are selected with --async directives (`-all` last)".to_string(),
        "the async half of the mock host is e2_async::host; the canonical built-ins of the runtime are C symbols through hook H1 and forward to it".to_string(),
        "no stream / future / resource types in the signatures (payload vtables hard-code the wasm32 layout; C19, C20, C07)".to_string(),
        "a cancelled execution is compared only on the values it did deliver".to_string(),
    ];
    run.finish(coverage, assumptions)
}
