//! Writing chunk crates into a scratch cargo workspace, building them (offline, debug profile with
//! overflow checks) as `staticlib`s and linking each into a shared object the runner `dlopen`s.
//!
//! Why not `cdylib`: rustc's version script for a cdylib cannot express export names such as
//! `t:t/i#f0`; a plain `cc -shared` over the static library exports every `export_name` symbol
//! under the name the component model assigns.

use std::path::{Path, PathBuf};
use std::process::Command;

pub const GUEST_RT: &str = include_str!("../guest/rt.rs");
pub const GUEST_ALLOC: &str = include_str!("../guest/ckalloc.rs");

/// Scratch root: `<target base>/e3-<hash of repo root>`; target base is `CARGO_TARGET_DIR` if set
/// (tools/mutant_run.sh points it into its scratch copy) or `<verif>/target`.
pub fn scratch_root() -> PathBuf {
    let base = std::env::var("E3_SCRATCH_BASE")
        .or_else(|_| std::env::var("CARGO_TARGET_DIR"))
        .unwrap_or_else(|_| format!("{}/target", vcommon::verif_root()));
    let h = vcommon::fnv(vcommon::repo_root().as_bytes());
    PathBuf::from(base).join(format!("e3-{h:016x}"))
}

pub fn write_if_different(p: &Path, content: &str) {
    if let Ok(old) = std::fs::read_to_string(p) {
        if old == content {
            return;
        }
    }
    if let Some(d) = p.parent() {
        std::fs::create_dir_all(d).unwrap_or_else(|e| vcommon::machinery(&format!("mkdir {}: {e}", d.display())));
    }
    std::fs::write(p, content).unwrap_or_else(|e| vcommon::machinery(&format!("write {}: {e}", p.display())));
}

pub struct CrateSpec {
    pub name: String,
    pub bindings: String,
    pub user: String,
    /// enable the crate-level `std` feature the generated code refers to under `--std-feature`
    pub extra_files: Vec<(String, String)>,
    pub wit_bindgen_features: Vec<&'static str>,
}

pub struct Workspace {
    pub root: PathBuf,
    pub members: Vec<String>,
}

/// Name of the shared guest runtime crate (checking allocator + `rt`), compiled once per
/// workspace with optimisation (the allocator's ledger scans are hot).
pub const RT_CRATE: &str = "e3guestrt";

impl Workspace {
    pub fn new(tag: &str) -> Workspace {
        Workspace::new_with(tag, false)
    }

    /// `low32`: back the guest heap by an arena below 2 GiB (resource world, see guest/ckalloc.rs).
    pub fn new_with(tag: &str, low32: bool) -> Workspace {
        let root = scratch_root().join(tag);
        std::fs::create_dir_all(&root).unwrap_or_else(|e| vcommon::machinery(&format!("mkdir {}: {e}", root.display())));
        let rt = root.join(RT_CRATE);
        let default = if low32 { "default = [\"low32\"]\n" } else { "" };
        write_if_different(
            &rt.join("Cargo.toml"),
            &format!("[package]\nname = \"{RT_CRATE}\"\nversion = \"0.0.0\"\nedition = \"2021\"\n\n[lib]\npath = \"src/lib.rs\"\n\n[features]\nlow32 = []\n{default}"),
        );
        write_if_different(
            &rt.join("src/lib.rs"),
            "#![allow(unused, unused_unsafe, static_mut_refs, unsafe_op_in_unsafe_fn, clippy::all)]\npub mod ckalloc;\npub mod rt;\n",
        );
        write_if_different(&rt.join("src/ckalloc.rs"), GUEST_ALLOC);
        write_if_different(&rt.join("src/rt.rs"), GUEST_RT);
        Workspace { root, members: Vec::new() }
    }

    pub fn target_dir(&self) -> PathBuf {
        // shared by all workspaces of this repo root so that wit-bindgen is compiled once
        scratch_root().join("target")
    }

    pub fn add(&mut self, c: &CrateSpec) {
        let dir = self.root.join(&c.name);
        let repo = vcommon::repo_root();
        let feats: Vec<String> = c.wit_bindgen_features.iter().map(|f| format!("\"{f}\"")).collect();
        let manifest = format!(
            "[package]\nname = \"{}\"\nversion = \"0.0.0\"\nedition = \"2021\"\n\n[lib]\ncrate-type = [\"staticlib\"]\npath = \"src/lib.rs\"\n\n[features]\nstd = []\n\n[dependencies]\n{RT_CRATE} = {{ path = \"../{RT_CRATE}\" }}\nwit-bindgen = {{ path = \"{repo}/crates/guest-rust\", default-features = false, features = [{}] }}\n",
            c.name,
            feats.join(", ")
        );
        write_if_different(&dir.join("Cargo.toml"), &manifest);
        let lib = "#![allow(unused, unused_unsafe, static_mut_refs, unsafe_op_in_unsafe_fn, clippy::all)]\n\
                   pub use e3guestrt::{ckalloc, rt};\n#[allow(warnings)]\npub mod bindings;\npub mod user;\n\n\
                   #[global_allocator]\nstatic GLOBAL: ckalloc::Checking = ckalloc::Checking;\n";
        write_if_different(&dir.join("src/lib.rs"), lib);
        let _ = std::fs::remove_file(dir.join("src/ckalloc.rs"));
        let _ = std::fs::remove_file(dir.join("src/rt.rs"));
        write_if_different(&dir.join("src/bindings.rs"), &c.bindings);
        write_if_different(&dir.join("src/user.rs"), &c.user);
        for (n, t) in &c.extra_files {
            write_if_different(&dir.join(n), t);
        }
        self.members.push(c.name.clone());
    }

    pub fn finish_manifest(&self) {
        let mut members: Vec<String> = self.members.iter().map(|m| format!("\"{m}\"")).collect();
        members.push(format!("\"{RT_CRATE}\""));
        let manifest = format!(
            "[workspace]\nresolver = \"2\"\nmembers = [{}]\n\n[profile.dev]\nopt-level = 0\ndebug = false\ndebug-assertions = true\noverflow-checks = true\nincremental = false\ncodegen-units = 16\n\n[profile.dev.package.{RT_CRATE}]\nopt-level = 2\ndebug-assertions = false\noverflow-checks = false\n",
            members.join(", ")
        );
        write_if_different(&self.root.join("Cargo.toml"), &manifest);
        // lock file: the /verif lock pins every crate in the offline cache
        let lock = self.root.join("Cargo.lock");
        if !lock.exists() {
            let src = format!("{}/Cargo.lock", vcommon::verif_root());
            if let Ok(t) = std::fs::read_to_string(&src) {
                let _ = std::fs::write(&lock, t);
            }
        }
        // stale member directories from an earlier run confuse nothing (not listed), leave them
    }

    /// `cargo build` for the given members (all if empty). Returns `Err(stderr)` on failure.
    pub fn build(&self, only: &[String], jobs: usize) -> Result<(), String> {
        let mut cmd = Command::new("cargo");
        cmd.current_dir(&self.root)
            .arg("build")
            .arg("--offline")
            .arg("--message-format=short")
            .arg("-j")
            .arg(jobs.to_string())
            .env("CARGO_TARGET_DIR", self.target_dir())
            .env("CARGO_NET_OFFLINE", "true")
            .env("RUSTFLAGS", "--cfg bytecodealliance_wit_bindgen_verif -Awarnings")
            .env("CARGO_TERM_COLOR", "never");
        for m in only {
            cmd.arg("-p").arg(m);
        }
        let out = cmd.output().map_err(|e| format!("cannot run cargo: {e}"))?;
        if out.status.success() {
            Ok(())
        } else {
            Err(String::from_utf8_lossy(&out.stderr).into_owned())
        }
    }

    pub fn staticlib(&self, member: &str) -> PathBuf {
        self.target_dir().join("debug").join(format!("lib{member}.a"))
    }

    pub fn shared(&self, member: &str) -> PathBuf {
        self.root.join("so").join(format!("lib{member}.so"))
    }

    /// Link `lib<member>.a` into `lib<member>.so` (skipped when up to date).
    pub fn link(&self, member: &str) -> Result<PathBuf, String> {
        let a = self.staticlib(member);
        let so = self.shared(member);
        let fresh = match (std::fs::metadata(&a), std::fs::metadata(&so)) {
            (Ok(ma), Ok(ms)) => match (ma.modified(), ms.modified()) {
                (Ok(ta), Ok(ts)) => ts > ta,
                _ => false,
            },
            _ => false,
        };
        if fresh {
            return Ok(so);
        }
        std::fs::create_dir_all(so.parent().unwrap()).map_err(|e| e.to_string())?;
        let mut cmd = Command::new("cc");
        cmd.arg("-shared").arg("-o").arg(&so);
        for sym in ROOT_SYMBOLS {
            cmd.arg(format!("-Wl,-u,{sym}"));
        }
        cmd.arg(&a).args(["-Wl,--gc-sections", "-Wl,-z,lazy", "-lgcc_s", "-lpthread", "-ldl", "-lm", "-lc"]);
        let out = cmd.output().map_err(|e| format!("cannot run cc: {e}"))?;
        if !out.status.success() {
            return Err(format!("link of {member} failed: {}", String::from_utf8_lossy(&out.stderr)));
        }
        Ok(so)
    }
}

/// Symbols the runner resolves; used as link roots so that the archive members are pulled in.
pub const ROOT_SYMBOLS: &[&str] = &[
    "verif_set_case",
    "verif_clear_case",
    "verif_set_dispatch",
    "verif_alloc_enable",
    "verif_alloc",
    "verif_live_count",
    "verif_live_digest",
    "verif_serial",
    "verif_live_since",
    "verif_audit",
    "verif_purge",
    "verif_take_fault",
    "verif_is_live",
    "verif_is_freed",
    "verif_block_of",
    "verif_run_import",
    "verif_call_export",
    "verif_set_flags",
];

/// Map rustc diagnostics (`--message-format=short`: `path:line:col: error…`) to
/// `(member, file, line)` triples.
pub fn error_locations(stderr: &str) -> Vec<(String, String, usize, String)> {
    let mut out = Vec::new();
    for l in stderr.lines() {
        if !l.contains(": error") {
            continue;
        }
        let mut it = l.splitn(4, ':');
        let (Some(path), Some(line)) = (it.next(), it.next()) else { continue };
        let Ok(line) = line.trim().parse::<usize>() else { continue };
        let p = Path::new(path);
        let file = p.file_name().map(|f| f.to_string_lossy().into_owned()).unwrap_or_default();
        // <member>/src/<file>
        let member = p
            .parent()
            .and_then(|d| d.parent())
            .and_then(|d| d.file_name())
            .map(|f| f.to_string_lossy().into_owned())
            .unwrap_or_default();
        out.push((member, file, line, l.to_string()));
    }
    out
}
