//! Chunk worlds: for every type `T_k` of a chunk one function `(x: T_k) -> T_k` that the guest
//! both imports and exports — two thirds of them inside interface `t:t/i` (imported *and* exported
//! by the world, so the generator emits the types twice), one third as world-level functions that
//! `use` the interface's types.
//!
//! Everything the host needs to know about a function (core names, types) is computed here from
//! the WIT we print — never read back from the generated bindings.

use refabi::wit::WitDoc;
use refabi::Ty;

#[derive(Clone, Copy, Debug, PartialEq, Eq)]
pub enum Level {
    Iface,
    World,
}

#[derive(Clone, Debug)]
pub struct Func {
    /// index inside the chunk
    pub k: usize,
    pub ty: Ty,
    pub level: Level,
    /// WIT name of the imported function
    pub imp_wit: String,
    /// WIT name of the exported function
    pub exp_wit: String,
    /// core import `(module, name)` the component model assigns
    pub imp_module: String,
    pub imp_name: String,
    /// core export name, and the post-return export name
    pub exp_sym: String,
    pub post_sym: String,
}

#[derive(Clone, Debug)]
pub struct Chunk {
    pub id: usize,
    pub funcs: Vec<Func>,
    pub wit: String,
}

pub const IFACE: &str = "t:t/i";

/// Types this engine cannot run natively through value round trips: handles (own / borrow /
/// future / stream / error-context) need the resource and async hosts (C07 / C08 / C19 / C20).
pub fn supported(t: &Ty) -> bool {
    !t.contains(&|t| {
        matches!(
            t,
            Ty::Own(_) | Ty::Borrow(_) | Ty::Future(_) | Ty::Stream(_) | Ty::ErrorContext
        )
    })
}

fn named_in(expr: &str) -> Vec<String> {
    // identifiers `t<digits>` produced by WitDoc
    let mut out: Vec<String> = Vec::new();
    let b = expr.as_bytes();
    let mut i = 0;
    while i < b.len() {
        let start_ok = i == 0 || !(b[i - 1].is_ascii_alphanumeric() || b[i - 1] == b'-');
        if b[i] == b't' && start_ok {
            let mut j = i + 1;
            while j < b.len() && b[j].is_ascii_digit() {
                j += 1;
            }
            let end_ok = j == b.len() || !(b[j].is_ascii_alphanumeric() || b[j] == b'-');
            if j > i + 1 && end_ok {
                let name = expr[i..j].to_string();
                if !out.contains(&name) {
                    out.push(name);
                }
                i = j;
                continue;
            }
        }
        i += 1;
    }
    out
}

pub fn build_chunk(id: usize, types: &[Ty]) -> Chunk {
    let mut doc = WitDoc::new();
    doc.export_too = true;
    let mut funcs = Vec::new();
    let mut world_lines = Vec::new();
    let mut uses: Vec<String> = Vec::new();
    for (k, t) in types.iter().enumerate() {
        // World-level functions that mention `map<..>` do not compile on the unchanged tree (the
        // crate root of the generated bindings lacks `use _rt::WitMap`; building is C09's
        // property), so map-carrying types always go into the interface.
        let has_map = t.contains(&|t| matches!(t, Ty::Map(..)));
        let level = if k % 3 == 2 && !has_map { Level::World } else { Level::Iface };
        let e = doc.expr(t);
        match level {
            Level::Iface => {
                let name = format!("h{k}");
                doc.func_raw(&format!("  {name}: func(x: {e}) -> {e};"));
                funcs.push(Func {
                    k,
                    ty: t.clone(),
                    level,
                    imp_wit: name.clone(),
                    exp_wit: name.clone(),
                    imp_module: IFACE.to_string(),
                    imp_name: name.clone(),
                    exp_sym: format!("{IFACE}#{name}"),
                    post_sym: format!("cabi_post_{IFACE}#{name}"),
                });
            }
            Level::World => {
                for n in named_in(&e) {
                    if !uses.contains(&n) {
                        uses.push(n);
                    }
                }
                let imp = format!("imp-g{k}");
                let exp = format!("exp-g{k}");
                world_lines.push(format!("  import {imp}: func(x: {e}) -> {e};"));
                world_lines.push(format!("  export {exp}: func(x: {e}) -> {e};"));
                funcs.push(Func {
                    k,
                    ty: t.clone(),
                    level,
                    imp_wit: imp.clone(),
                    exp_wit: exp.clone(),
                    imp_module: "$root".to_string(),
                    imp_name: imp,
                    exp_sym: exp.clone(),
                    post_sym: format!("cabi_post_{exp}"),
                });
            }
        }
    }
    let text = doc.text();
    let cut = text.find("\nworld w {").expect("WitDoc layout changed");
    let mut wit = text[..cut].to_string();
    wit.push_str("\nworld w {\n  import i;\n  export i;\n");
    if !uses.is_empty() {
        wit.push_str(&format!("  use i.{{{}}};\n", uses.join(", ")));
    }
    for l in &world_lines {
        wit.push_str(l);
        wit.push('\n');
    }
    wit.push_str("}\n");
    Chunk { id, funcs, wit }
}

/// Split a universe into chunks of at most `per` supported types; returns the chunks and the
/// list of skipped (unsupported) types.
pub fn chunks(types: &[Ty], per: usize) -> (Vec<Chunk>, Vec<Ty>) {
    let mut ok = Vec::new();
    let mut skipped = Vec::new();
    for t in types {
        if supported(t) {
            ok.push(t.clone());
        } else {
            skipped.push(t.clone());
        }
    }
    let n = ok.len().div_ceil(per).max(1);
    // interleave so that every chunk gets a mix of cheap and expensive types
    let mut parts: Vec<Vec<Ty>> = vec![Vec::new(); n];
    for (i, t) in ok.into_iter().enumerate() {
        parts[i % n].push(t);
    }
    let chunks = parts
        .iter()
        .enumerate()
        .filter(|(_, p)| !p.is_empty())
        .map(|(i, p)| build_chunk(i, p))
        .collect();
    (chunks, skipped)
}

/// Band for the canonical-list decision of the Rust generator (`is_list_canonical`): a list whose
/// element is, or contains, a tuple must not be copied as raw memory, because rustc is free to
/// reorder tuple fields. `list<tuple<a,b,c>>` for every ordered triple over the scalar layout
/// classes {u8,u16,u32,u64,f32,f64} with at least two distinct sizes (198), and for every ordered
/// triple of distinct sizes over {u8,u16,u32,u64} (24) the same tuple inside a record element,
/// and the list inside an option and inside a record.
pub fn tuple_band() -> Vec<Ty> {
    let sc = [Ty::U8, Ty::U16, Ty::U32, Ty::U64, Ty::F32, Ty::F64];
    let size = |t: &Ty| refabi::abi::size(t, refabi::Width::W8);
    let mut out = Vec::new();
    for a in &sc {
        for b in &sc {
            for c in &sc {
                if size(a) == size(b) && size(b) == size(c) {
                    continue;
                }
                out.push(Ty::List(Box::new(Ty::Tuple(vec![a.clone(), b.clone(), c.clone()]))));
            }
        }
    }
    let ints = [Ty::U8, Ty::U16, Ty::U32, Ty::U64];
    for a in &ints {
        for b in &ints {
            for c in &ints {
                if a == b || b == c || a == c {
                    continue;
                }
                let t = Ty::Tuple(vec![a.clone(), b.clone(), c.clone()]);
                out.push(Ty::List(Box::new(Ty::Record(vec![t.clone()]))));
                out.push(Ty::Option(Box::new(Ty::List(Box::new(t.clone())))));
                out.push(Ty::Record(vec![Ty::U8, Ty::List(Box::new(t))]));
            }
        }
    }
    out
}
