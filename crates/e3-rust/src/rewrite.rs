//! Shim rewrite: the Rust generator emits for every core import a wasm32-only `extern` block and a
//! native `unsafe extern "C" fn NAME(SIG) { unreachable!() }` shim. The native shim is dead code;
//! we replace it by an `extern` declaration of a host symbol so that the import reaches the mock
//! host. The wasm32 text and everything else is untouched. A shim this rewrite does not
//! understand is a machinery error, never a verdict.

use regex::Regex;

/// `e3imp_` + hex-escaped `module NUL name` (only `[A-Za-z0-9]` kept).
pub fn mangle(module: &str, name: &str) -> String {
    let mut s = String::from("e3imp_");
    for b in module.bytes().chain(std::iter::once(0u8)).chain(name.bytes()) {
        if b.is_ascii_alphanumeric() {
            s.push(b as char);
        } else {
            s.push_str(&format!("_{b:02x}"));
        }
    }
    s
}

#[derive(Clone, Debug)]
pub struct Rewritten {
    pub module: String,
    pub name: String,
    pub rust_name: String,
    pub sig: String,
}

pub fn rewrite(src: &str) -> Result<(String, Vec<Rewritten>), String> {
    let re = Regex::new(concat!(
        r##"#\[cfg\(target_arch = "wasm32"\)\]\s*"##,
        r##"#\[link\(wasm_import_module = "([^"]*)"\)\]\s*"##,
        r##"unsafe extern "C" \{\s*"##,
        r##"#\[link_name = "([^"]*)"\]\s*"##,
        r##"fn (\w+)(\([^)]*\)(?:\s*->\s*[^;{]+)?);\s*\}\s*"##,
        r##"#\[cfg\(not\(target_arch = "wasm32"\)\)\]\s*"##,
        r##"unsafe extern "C" fn (\w+)(\([^)]*\)(?:\s*->\s*[^;{]+?)?)\s*\{\s*unreachable!\(\)\s*\}"##,
    ))
    .unwrap();
    let mut out = String::with_capacity(src.len());
    let mut last = 0;
    let mut list = Vec::new();
    for c in re.captures_iter(src) {
        let m = c.get(0).unwrap();
        let (module, name, r1, s1, r2, s2) = (&c[1], &c[2], &c[3], &c[4], &c[5], &c[6]);
        if r1 != r2 || s1.split_whitespace().collect::<String>() != s2.split_whitespace().collect::<String>() {
            return Err(format!("shim pair mismatch: {r1}{s1} vs {r2}{s2}"));
        }
        // keep the wasm32 half verbatim: everything up to the `#[cfg(not(` of the shim
        let shim_at = m.as_str().rfind("#[cfg(not(target_arch").unwrap();
        out.push_str(&src[last..m.start() + shim_at]);
        out.push_str(&format!(
            "#[cfg(not(target_arch = \"wasm32\"))]\nunsafe extern \"C\" {{\n#[link_name = \"{}\"]\nfn {r2}{s2};\n}}",
            mangle(module, name)
        ));
        last = m.end();
        list.push(Rewritten {
            module: module.to_string(),
            name: name.to_string(),
            rust_name: r2.to_string(),
            sig: s2.to_string(),
        });
    }
    out.push_str(&src[last..]);
    // every native shim must be gone
    let left = Regex::new(r##"\{\s*unreachable!\(\)\s*\}"##).unwrap().find_iter(&out).count();
    if left != 0 {
        let at = out.find("unreachable!()").unwrap_or(0);
        let ctx: String = out[at.saturating_sub(300)..(at + 40).min(out.len())].to_string();
        return Err(format!("{left} native shim(s) not rewritten, e.g. near: …{ctx}…"));
    }
    Ok((out, list))
}
