//! C05 (values unchanged) and C06 (guest heap exact): same executions, different oracle.

use crate::engine::{self, Plan};
use crate::gen::Config;
use crate::host::Dir;
use crate::runner::{self, CaseOutcome};
use refabi::Ty;
use serde_json::{json, Value};
use std::collections::{BTreeMap, BTreeSet};
use vcommon::Run;

/// Shapes whose generated bindings do not compile on the unchanged tree (found by this engine,
/// reported; building is C09's property). They are left out up front so that the chunks compile
/// in one round. Returns the reason.
pub fn known_uncompilable(t: &Ty, cfg: &Config) -> Option<&'static str> {
    // `list<T, N>` with a heap-carrying element as an *owned* import parameter: the generated
    // lowering moves out of the array by index (`let vec0 = x[0];`, error E0508).
    let _ = cfg;
    if t.contains(&|t| matches!(t, Ty::FixedList(e, _) if e.contains_heap())) {
        return Some("import lowering of list<T, N> with a heap-carrying element moves out of the array by index (E0508)");
    }
    None
}

fn dir_name(d: &Dir) -> &'static str {
    match d {
        Dir::Export => "export",
        Dir::Import => "import",
    }
}

pub fn main(id: &str) -> ! {
    let args: Vec<String> = std::env::args().collect();
    if args.get(1).map(|s| s.as_str()) == Some("--run-chunk") {
        runner::runner_main(&args[2..]);
    }
    let heap_mode = id == "C06";
    vcommon::install_quiet_panic_hook();
    let mut run = Run::from_args(id, "exploration");
    let ncpu = vcommon::ncpu();
    let jobs = std::env::var("E3_JOBS").ok().and_then(|s| s.parse().ok()).unwrap_or(ncpu);

    if let Some(detail) = run.replay_detail() {
        replay(&mut run, &detail, heap_mode, jobs);
    }

    // ---- the space
    let mut plans: Vec<(String, Plan)> = Vec::new();
    let per_chunk = std::env::var("E3_PER_CHUNK").ok().and_then(|s| s.parse().ok()).unwrap_or(36);
    if run.thorough() {
        // Stages in order of value; a stage starts only while the time budget lasts, the evidence
        // lists the completed ones (the deepest completed bound).
        let mut quick_u = refabi::universe::universe("quick");
        quick_u.extend(crate::world::tuple_band());
        let pw = Config::pairwise();
        let rest: Vec<Config> = Config::all().into_iter().filter(|c| !pw.contains(c)).collect();
        let u2 = refabi::universe::universe("u2");
        let big = per_chunk.max(100);
        plans.push(("U1 + layout pairs + list-of-tuple band x 8 pairwise-covering configurations".into(),
            Plan { tag: "t1".into(), cfgs: pw.clone(), types: quick_u.clone(), per_chunk: big, jobs }));
        plans.push(("U2 x default configuration".into(),
            Plan { tag: "t2".into(), cfgs: vec![Config::default_cfg()], types: u2.clone(), per_chunk: big, jobs }));
        plans.push(("U1 + layout pairs + list-of-tuple band x the other 24 configurations (full factorial)".into(),
            Plan { tag: "t3".into(), cfgs: rest, types: quick_u, per_chunk: big, jobs }));
        plans.push(("U2 x the other 7 pairwise-covering configurations".into(),
            Plan { tag: "t4".into(), cfgs: pw.into_iter().filter(|c| *c != Config::default_cfg()).collect(), types: u2, per_chunk: big, jobs }));
    } else {
        // development knobs (never set by ./check): E3_UNIVERSE, E3_OFFSET, E3_LIMIT, E3_CFG
        let uni = std::env::var("E3_UNIVERSE").unwrap_or_else(|_| "quick".into());
        let mut types = refabi::universe::universe(&uni);
        if uni == "quick" {
            types.extend(crate::world::tuple_band());
        }
        let off: usize = std::env::var("E3_OFFSET").ok().and_then(|s| s.parse().ok()).unwrap_or(0);
        let lim: usize = std::env::var("E3_LIMIT").ok().and_then(|s| s.parse().ok()).unwrap_or(usize::MAX);
        types = types.into_iter().skip(off).take(lim).collect();
        let cfg = std::env::var("E3_CFG").ok().and_then(|s| Config::parse(&s)).unwrap_or(Config::default_cfg());
        plans.push((
            format!("{uni} (+ list-of-tuple band) x {}", cfg.name()),
            Plan { tag: "q".into(), cfgs: vec![cfg], types, per_chunk, jobs },
        ));
    }

    let mut evaluations = 0u64;
    let mut crashes = 0u64;
    let mut nontrivial: BTreeSet<(String, String)> = BTreeSet::new();
    let mut per_cfg: BTreeMap<String, u64> = BTreeMap::new();
    let mut per_feature: BTreeMap<String, u64> = BTreeMap::new();
    let mut types_run: BTreeSet<String> = BTreeSet::new();
    let mut samples = vcommon::Samples::new(12);
    let mut l11: Vec<Value> = Vec::new();
    let mut l11_count = 0u64;
    let mut host_buffers = 0u64;
    let mut guest_allocs = 0u64;
    let mut post_returns = 0u64;
    let mut plan_json = Vec::new();
    let mut excluded_all = Vec::new();
    let mut outcomes_distinct: BTreeSet<String> = BTreeSet::new();

    let budget: f64 = std::env::var("E3_BUDGET_S").ok().and_then(|s| s.parse().ok()).unwrap_or(1200.0);
    let mut skipped_stages: Vec<String> = Vec::new();
    for (pi, (what, plan)) in plans.iter().enumerate() {
        if pi > 0 && run.elapsed() > budget {
            skipped_stages.push(what.clone());
            continue;
        }
        let prep = engine::prepare(plan, &known_uncompilable);
        let t_run = std::time::Instant::now();
        let results = engine::run_all(&prep.prepared, jobs);
        let run_secs = t_run.elapsed().as_secs_f64();
        let mut plan_cases = 0u64;
        for cr in &results {
            let p = &prep.prepared[cr.pi];
            let cfg = p.cfg.name();
            for (k, name) in &p.missing_imports {
                let ty = &p.funcs[*k].ty;
                if !heap_mode {
                    run.violation(
                        &format!("import-symbol:{ty}"),
                        &format!("the generated bindings do not import `{name}` (type {ty}, configuration {cfg})"),
                        json!({"cfg": cfg, "ty": ty.to_json()}),
                    );
                }
            }
            for (ci, (c, o)) in cr.cases.iter().zip(&cr.outcomes).enumerate() {
                let f = &p.funcs[c.fi];
                let ty = &f.ty;
                let tys = ty.to_string();
                let sp = if c.spare { "+spare-capacity" } else { "" };
                let vc = format!("{}{sp}", engine::val_class(ty, &c.v1));
                let dir = dir_name(&c.dir);
                evaluations += 1;
                plan_cases += 1;
                *per_cfg.entry(cfg.clone()).or_insert(0) += 1;
                types_run.insert(tys.clone());
                let detail = json!({"cfg": cfg, "ty": ty.to_json(), "type": tys, "dir": dir, "vi": c.vi,
                    "sent": c.v1.to_string(), "reply": c.v2.to_string(), "spare": c.spare, "level": format!("{:?}", f.level), "case_index": ci});
                match o {
                    CaseOutcome::Crash(how, err) => {
                        crashes += 1;
                        outcomes_distinct.insert("crash".into());
                        run.violation(
                            &format!("crash:{dir}:{tys}:{vc}"),
                            &format!("{dir} of {tys} with {} ({cfg}): the guest {how}; stderr: {}", c.v1, last_lines(err, 6)),
                            detail,
                        );
                    }
                    CaseOutcome::Report(r) => {
                        let feats: Vec<String> =
                            r["f"].as_array().map(|a| a.iter().filter_map(|x| x.as_str().map(String::from)).collect()).unwrap_or_default();
                        if !feats.is_empty() {
                            nontrivial.insert((tys.clone(), vc.clone()));
                        }
                        for ft in &feats {
                            *per_feature.entry(ft.clone()).or_insert(0) += 1;
                            if ft == "post-return" {
                                post_returns += 1;
                            }
                        }
                        host_buffers += r["ha"].as_u64().unwrap_or(0);
                        guest_allocs += r["ga"].as_u64().unwrap_or(0);
                        if let Some(u) = r["u"].as_array() {
                            if !u.is_empty() {
                                l11_count += 1;
                                if l11.len() < 5 {
                                    l11.push(json!({"type": tys, "value": c.v1.to_string(), "slots": u}));
                                }
                            }
                        }
                        let list = if heap_mode { &r["h"] } else { &r["v"] };
                        let list = list.as_array().cloned().unwrap_or_default();
                        outcomes_distinct.insert(if list.is_empty() { "ok".into() } else { list[0][0].as_str().unwrap_or("?").to_string() });
                        for e in list {
                            let (pos, msg) = (e[0].as_str().unwrap_or("?"), e[1].as_str().unwrap_or("?"));
                            // the value class of the value this position carries
                            let vcp = if pos.ends_with("-result") { format!("{}{sp}", engine::val_class(ty, &c.v2)) } else { vc.clone() };
                            let key = if heap_mode {
                                format!("heap:{pos}:{dir}:{tys}:{vc}")
                            } else {
                                format!("value:{pos}:{tys}:{vcp}")
                            };
                            run.violation(&key, &format!("{dir} of {tys} ({cfg}): {msg}"), detail.clone());
                        }
                        samples.offer(|| json!({"cfg": cfg, "type": tys, "dir": dir, "sent": c.v1.to_string(), "reply": c.v2.to_string(), "spare": c.spare, "features": feats, "host_buffers": r["ha"], "guest_allocations": r["ga"]}));
                    }
                }
            }
        }
        plan_json.push(json!({
            "what": what, "configurations": plan.cfgs.iter().map(|c| c.name()).collect::<Vec<_>>(),
            "types_in_universe": plan.types.len(), "chunks": prep.prepared.len(), "cases": plan_cases,
            "generate_s": round1(prep.gen_secs), "build_s": round1(prep.build_secs), "run_s": round1(run_secs),
        }));
        excluded_all.extend(prep.excluded);
    }

    // unexpected compile failures are not a verdict of C05/C06, but they must not pass silently
    let unexpected: Vec<&engine::Excluded> = excluded_all.iter().filter(|e| e.why == "compile" || e.why == "harness").collect();
    for e in unexpected.iter().take(10) {
        println!("NOTE: {} excluded ({}): {} [{}]", e.ty, e.why, e.detail, e.cfg);
    }
    let exhaustive = unexpected.is_empty();
    if !unexpected.is_empty() && std::env::var_os("E3_ALLOW_EXCLUSIONS").is_none() {
        // BUILDING.md: a tree whose generated code no longer compiles for the harness is a machinery
        // failure, not a verdict (violations found so far were already printed above).
        vcommon::machinery(&format!(
            "{} shape(s) had to be left out because their generated bindings do not compile / cannot be bound by the harness (first: {} — {}); this is not a verdict on {id}",
            unexpected.len(),
            unexpected[0].ty,
            unexpected[0].detail
        ));
    }

    let coverage = json!({
        "evaluations": evaluations,
        "distinct_nontrivial": nontrivial.len(),
        "rule": "distinct (type shape, value class) pairs among executed cases whose reference encoding has at least one non-identity step: a heap buffer (string/list/map), a joined variant slot, padding in the memory layout, parameters or results passed indirectly; value class = variant case / length / scalar value",
        "exhaustive": exhaustive,
        "exhaustive_note": "every (function, direction, value) of the stated universe x configurations was executed, except the exclusions listed under `excluded`",
        "space": plan_json,
        "stages_not_started_within_time_budget": skipped_stages,
        "pointer_width": 8,
        "values_per_type": "refabi::universe::values (boundary alphabet, <= 16 per type, every variant case, list lengths 0..3); reply = next value of V(T)",
        "directions": ["export (host -> guest parameter, guest -> host result)", "import (guest -> host parameter, host -> guest result)"],
        "distinct_types_run": types_run.len(),
        "per_configuration": per_cfg,
        "per_feature_cases": per_feature,
        "crashes": crashes,
        "distinct_outcomes": outcomes_distinct,
        "host_buffers_handed_to_guest": host_buffers,
        "guest_allocations_observed": guest_allocs,
        "post_return_calls": post_returns,
        "excluded": engine::excluded_json(&excluded_all),
        "observations": {
            "L11_joined_i64_slot_upper_bits_nonzero_cases": l11_count,
            "L11_samples": l11,
            "L11_note": "flat import parameters where a 32-bit payload travels in a joined i64 slot: the spec zero-extends, a lifting host wraps, so the value is unaffected; counted, not judged",
        },
        "oracle": if heap_mode {
            "checking allocator as the guest's #[global_allocator]: after every call (+ post-return) no block allocated during the call is live, the set of live blocks equals the set before the call, no allocator fault (double free, wrong layout, red zone, write after free), every host read/write lies in a live block or in static/stack memory"
        } else {
            "refabi: the value user code observes (raw channel, not through bindings) equals the value the host lowered; the value the host lifts equals the value user code produced; maps compared as unordered, NaN as any NaN; exactly one call"
        },
        "samples": samples.items,
    });
    let assumptions = vec![
        "native execution on x86-64: pointer width 8 (refabi's memory64 extrapolation: pointers and lengths are 8 bytes); pointer width 4 is decided at instruction level by C01".to_string(),
        "the mock host stands in for a component-model host: it lowers and lifts with refabi, written from CanonicalABI.md".to_string(),
        "the native `unreachable!()` import shims of the generated text are rewritten into extern declarations; nothing else of the generated text is changed".to_string(),
        "host buffers come from the guest's global allocator (what cabi_realloc does; cabi_realloc itself is C24)".to_string(),
        "handle types (own, borrow, future, stream, error-context) are not in this space (C07, C08, C19, C20)".to_string(),
        "shapes whose generated bindings do not compile are excluded and listed (building is C09)".to_string(),
    ];
    run.finish(coverage, assumptions)
}

fn round1(x: f64) -> f64 {
    (x * 10.0).round() / 10.0
}

fn last_lines(s: &str, n: usize) -> String {
    let l: Vec<&str> = s.lines().filter(|l| !l.trim().is_empty()).collect();
    l[l.len().saturating_sub(n)..].join(" | ")
}

fn replay(run: &mut Run, detail: &Value, heap_mode: bool, jobs: usize) -> ! {
    let cfg = Config::parse(detail["cfg"].as_str().unwrap_or("")).unwrap_or_else(|| vcommon::machinery("replay: cfg"));
    let ty = Ty::from_json(&detail["ty"]).unwrap_or_else(|e| vcommon::machinery(&format!("replay: {e}")));
    let want_dir = detail["dir"].as_str().unwrap_or("export").to_string();
    let vi = detail["vi"].as_u64().unwrap_or(0) as usize;
    let plan = Plan { tag: "replay".into(), cfgs: vec![cfg], types: vec![ty.clone()], per_chunk: 1, jobs };
    let prep = engine::prepare(&plan, &|_, _| None);
    if prep.prepared.is_empty() {
        println!("replay: the type was excluded: {:?}", prep.excluded.iter().map(|e| (&e.why, &e.detail)).collect::<Vec<_>>());
        std::process::exit(1);
    }
    let results = engine::run_all(&prep.prepared, 1);
    let mut failing = false;
    for cr in &results {
        for (c, o) in cr.cases.iter().zip(&cr.outcomes) {
            if dir_name(&c.dir) != want_dir || c.vi != vi || c.spare != detail["spare"].as_bool().unwrap_or(false) {
                continue;
            }
            println!("replay: {} of {} under {}: sent {} reply {}", want_dir, ty, cfg.name(), c.v1, c.v2);
            match o {
                CaseOutcome::Crash(how, err) => {
                    println!("  guest {how}\n{err}");
                    failing = true;
                }
                CaseOutcome::Report(r) => {
                    println!("  value observations: {}", r["v"]);
                    println!("  heap observations:  {}", r["h"]);
                    println!("  features: {}  host buffers: {}  guest allocations: {}", r["f"], r["ha"], r["ga"]);
                    let list = if heap_mode { &r["h"] } else { &r["v"] };
                    if list.as_array().map(|a| !a.is_empty()).unwrap_or(false) {
                        failing = true;
                    }
                }
            }
        }
    }
    let _ = run;
    println!("replay: {}", if failing { "still failing" } else { "passes" });
    std::process::exit(if failing { 1 } else { 0 })
}
