//! Runner process: `<bin> --run-chunk <lib.so> <spec.json> <first case>` loads one chunk's shared
//! object and executes its cases in order, printing `B <i>` before and `R <json>` after every case
//! so that the parent can attribute a crash / timeout to the case in flight; and the parent side
//! that spawns runners, restarts them after a crash and collects the reports.

use crate::host::{CaseReport, Dir, FuncInfo, Host, Lib};
use refabi::{Ty, Val};
use serde_json::{json, Value};
use std::io::{BufRead, BufReader, Write};
use std::process::{Command, Stdio};

#[derive(Clone, Debug)]
pub struct SpecFunc {
    pub k: usize,
    pub ty: Ty,
    pub exp_sym: String,
    pub post_sym: String,
}

pub fn spec_json(funcs: &[SpecFunc]) -> Value {
    json!({"funcs": funcs.iter().map(|f| json!({"k": f.k, "ty": f.ty.to_json(), "exp_sym": f.exp_sym, "post_sym": f.post_sym})).collect::<Vec<_>>()})
}

pub fn spec_from_json(v: &Value) -> Result<Vec<SpecFunc>, String> {
    let mut out = Vec::new();
    for f in v["funcs"].as_array().ok_or("spec: funcs")? {
        out.push(SpecFunc {
            k: f["k"].as_u64().ok_or("spec: k")? as usize,
            ty: Ty::from_json(&f["ty"])?,
            exp_sym: f["exp_sym"].as_str().ok_or("spec: exp_sym")?.to_string(),
            post_sym: f["post_sym"].as_str().ok_or("spec: post_sym")?.to_string(),
        });
    }
    Ok(out)
}

#[derive(Clone, Debug)]
pub struct Case {
    pub fi: usize,
    pub dir: Dir,
    pub vi: usize,
    pub v1: Val,
    pub v2: Val,
    /// user code builds the vectors / strings it hands to the bindings with spare capacity
    /// (capacity > length, also when empty)
    pub spare: bool,
}

/// The case list of a chunk: every function × {export, import} × every value of V(T); the reply
/// is the *next* value of V(T), so an echo of the argument is not a correct answer.
pub fn cases(funcs: &[SpecFunc]) -> Vec<Case> {
    let mut out = Vec::new();
    for (fi, f) in funcs.iter().enumerate() {
        let vals = refabi::universe::values(&f.ty);
        for dir in [Dir::Export, Dir::Import] {
            for (vi, v) in vals.iter().enumerate() {
                out.push(Case { fi, dir: dir.clone(), vi, v1: v.clone(), v2: vals[(vi + 1) % vals.len()].clone(), spare: false });
                // every value of a heap-carrying type runs a second time with spare capacity
                if f.ty.contains_heap() {
                    out.push(Case { fi, dir: dir.clone(), vi, v1: v.clone(), v2: vals[(vi + 1) % vals.len()].clone(), spare: true });
                }
            }
        }
    }
    out
}

fn report_json(i: usize, r: &CaseReport) -> Value {
    json!({"i": i, "v": r.value, "h": r.heap, "f": r.features, "u": r.flat_upper_bits, "ha": r.host_allocs, "ga": r.guest_allocs})
}

/// Entry point of the runner process. Never returns.
pub fn runner_main(args: &[String]) -> ! {
    let (so, spec_path, from) = (&args[0], &args[1], args[2].parse::<usize>().unwrap_or(0));
    let only: Option<usize> = args.get(3).and_then(|s| s.parse().ok());
    let text = std::fs::read_to_string(spec_path).unwrap_or_else(|e| vcommon::machinery(&format!("spec {spec_path}: {e}")));
    let spec = spec_from_json(&serde_json::from_str(&text).unwrap_or_else(|e| vcommon::machinery(&format!("spec: {e}"))))
        .unwrap_or_else(|e| vcommon::machinery(&e));
    let lib = Lib::open(so).unwrap_or_else(|e| {
        println!("X {e}");
        std::process::exit(3)
    });
    let funcs: Vec<FuncInfo> = spec
        .iter()
        .map(|f| FuncInfo { k: f.k, ty: f.ty.clone(), exp_sym: f.exp_sym.clone(), post_sym: f.post_sym.clone() })
        .collect();
    let mut host = Host::new(lib, funcs);
    let cs = cases(&spec);
    let out = std::io::stdout();
    for (i, c) in cs.iter().enumerate() {
        if i < from || only.map(|o| o != i).unwrap_or(false) {
            continue;
        }
        {
            let mut o = out.lock();
            writeln!(o, "B {i}").ok();
            o.flush().ok();
        }
        unsafe { libc::alarm(30) };
        let rep = host.run_case(c.fi, &c.dir, &c.v1, &c.v2, c.spare);
        unsafe { libc::alarm(0) };
        let mut o = out.lock();
        writeln!(o, "R {}", report_json(i, &rep)).ok();
        o.flush().ok();
    }
    println!("D");
    std::process::exit(0)
}

#[derive(Clone, Debug)]
pub enum CaseOutcome {
    Report(Value),
    /// the runner died while this case was in flight: `(how, stderr tail)`
    Crash(String, String),
}

/// Run all cases of a chunk in runner processes (restarting after a crash). Returns one outcome
/// per case index, or `Err` for a failure that is not attributable to a case.
pub fn run_chunk(so: &str, spec_path: &str, ncases: usize) -> Result<Vec<CaseOutcome>, String> {
    let exe = std::env::current_exe().map_err(|e| e.to_string())?;
    let mut outcomes: Vec<Option<CaseOutcome>> = vec![None; ncases];
    let mut from = 0usize;
    let mut restarts = 0;
    while from < ncases {
        let mut child = Command::new(&exe)
            .arg("--run-chunk")
            .arg(so)
            .arg(spec_path)
            .arg(from.to_string())
            .stdout(Stdio::piped())
            .stderr(Stdio::piped())
            .spawn()
            .map_err(|e| format!("cannot spawn runner: {e}"))?;
        let stdout = child.stdout.take().unwrap();
        let stderr = child.stderr.take().unwrap();
        let errt = std::thread::spawn(move || {
            let mut s = String::new();
            let _ = std::io::Read::read_to_string(&mut BufReader::new(stderr), &mut s);
            s
        });
        let mut in_flight: Option<usize> = None;
        let mut done = false;
        let mut fatal: Option<String> = None;
        for line in BufReader::new(stdout).lines() {
            let Ok(line) = line else { break };
            if let Some(r) = line.strip_prefix("B ") {
                in_flight = r.trim().parse().ok();
            } else if let Some(r) = line.strip_prefix("R ") {
                match serde_json::from_str::<Value>(r) {
                    Ok(v) => {
                        let i = v["i"].as_u64().unwrap_or(u64::MAX) as usize;
                        if i < ncases {
                            outcomes[i] = Some(CaseOutcome::Report(v));
                        }
                        in_flight = None;
                    }
                    Err(e) => fatal = Some(format!("bad runner line: {e}")),
                }
            } else if line == "D" {
                done = true;
            } else if let Some(r) = line.strip_prefix("X ") {
                fatal = Some(r.to_string());
            } else if line.starts_with("MACHINERY-ERROR") {
                fatal = Some(line.clone());
            }
        }
        let status = child.wait().map_err(|e| e.to_string())?;
        let err = errt.join().unwrap_or_default();
        if let Some(f) = fatal {
            return Err(format!("{f}\n{}", tail(&err, 1500)));
        }
        if done {
            break;
        }
        // died: attribute to the case in flight
        let how = {
            use std::os::unix::process::ExitStatusExt;
            match (status.signal(), status.code()) {
                (Some(14), _) => "timeout (30 s)".to_string(),
                (Some(s), _) => format!("killed by signal {s}"),
                (_, Some(97)) => return Err(format!("harness bug reported by the guest runtime:\n{}", tail(&err, 1500))),
                (_, Some(c)) => format!("exit status {c}"),
                _ => "died".to_string(),
            }
        };
        match in_flight {
            Some(i) if i < ncases => {
                outcomes[i] = Some(CaseOutcome::Crash(how, tail(&err, 1200)));
                from = i + 1;
            }
            _ => return Err(format!("runner {how} outside any case:\n{}", tail(&err, 1500))),
        }
        restarts += 1;
        if restarts > 400 {
            return Err("runner crashed more than 400 times in one chunk".into());
        }
    }
    let mut out = Vec::new();
    for (i, o) in outcomes.into_iter().enumerate() {
        out.push(o.ok_or_else(|| format!("no outcome for case {i}"))?);
    }
    Ok(out)
}

fn tail(s: &str, n: usize) -> String {
    if s.len() <= n {
        return s.to_string();
    }
    let mut at = s.len() - n;
    while !s.is_char_boundary(at) {
        at += 1;
    }
    s[at..].to_string()
}
